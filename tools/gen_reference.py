#!/venv/bin/python
"""Regenerate sa/reference_names.json.gz (the identifier snapshot sa/canon.py aligns against) from /repo's tree.
Run after every commit to /repo made by this project (fix: commits); never at check time."""
import gzip, json, os, sys
sys.path.insert(0, "/verif")
os.environ["VERIF_NOCANON"] = "1"
from sa.srcmodel import SourceTree
from sa import canon
t = SourceTree.load()
t._parse_all()
snap = canon.snapshot(t._asts)
with gzip.GzipFile(canon.REFERENCE, "wb", mtime=0) as fh:
    fh.write(json.dumps(snap, sort_keys=True, separators=(",", ":")).encode())
src = canon.snapshot_sources(t._asts)
with gzip.GzipFile(canon.REFERENCE_SRC, "wb", mtime=0) as fh:
    fh.write(json.dumps(src, sort_keys=True, separators=(",", ":")).encode())
print("sources:", sum(len(v) for v in src.values()), "bytes:", os.path.getsize(canon.REFERENCE_SRC))
print("units:", sum(len(v) for v in snap.values()), "files:", len(snap), "bytes:", os.path.getsize(canon.REFERENCE))
