#!/usr/bin/env python3
"""Round-6 prompt for BEHAVIOUR-PRESERVING refactorings (false-alarm probes): benign additive features and correct optimisations. Only the property text goes in."""
import json, sys
pid, wt = sys.argv[1], sys.argv[2]
prop = [json.loads(l) for l in open('/verif/properties.jsonl') if json.loads(l)['id'] == pid][0]
print(f"""You are helping to test a verification effort for the magic-wormhole Python library (Twisted/Automat, PAKE-secured file transfer) by playing a careful MAINTAINER.

Your own scratch git worktree of the repository is at {wt} . Do ALL work there. Never modify or read anything under /repo or /verif (off limits); there is no network. Do not use `git stash` (the worktree shares its git directory); to undo use `git checkout -- src`. Do not kill processes you did not start.

How to run things:
  - interpreter: /venv/bin/python ; ALWAYS set PYTHONPATH={wt}/src so that `import wormhole` resolves to YOUR worktree, e.g.
      cd {wt} && PYTHONPATH={wt}/src /venv/bin/python -m pytest -q -p no:cacheprovider --timeout=900 -n 4
    On the unmodified tree this gives "438 passed, 31 skipped" in about 15 s.

A semantic property of the library (this is all you are given about the verification effort):

{json.dumps(prop, indent=1)}

TASK. Produce TWO independent BEHAVIOUR-PRESERVING refactorings of the source code that implements this property (the files under "anchors", i.e. library code under src/wormhole, NOT tests). Each must leave the observable behaviour of the library exactly as it is - the property above must obviously still hold, no API or wire-format change - and the whole test suite must still pass (438 passed). They must be realistic maintenance edits a reviewer would accept, touch the very code the property's mechanisms rely on, and be of these two kinds (one each):

  refactor13.diff - A CORRECT ADDITIVE FEATURE: ADD code next to the mechanism, without changing what the existing paths do: e.g. a new optional keyword parameter whose default reproduces today's behaviour exactly (and whose non-default value is also handled correctly, going through the same checks / queues / state-machine inputs / clean-up as the existing path), a read-only introspection or status method (`_debug_state()`, `__repr__`, counters for statistics), extra `log.msg` / timing (`self._timing.add`) / debug-trace calls, a private convenience wrapper that existing callers now go through and that does exactly what they did inline, defensive type checks on LOCAL API arguments that raise the same exception types the API already documents, a new private attribute that records something for diagnostics and influences nothing. The new code must not bypass, duplicate, re-order or pre-empt any existing step. Existing behaviour on every path - including failure, cancellation, re-entrancy, reconnect - stays identical.

  refactor14.diff - A CORRECT OPTIMISATION: make the mechanism cheaper without changing its result for ANY history or input: cache a value that provably never changes after construction (and say why in notes.md), hoist a loop-invariant computation, avoid a copy ONLY where the container is provably not mutated during the iteration / after the hand-over, replace repeated `bytes` concatenation by `b"".join` or a bytearray that is converted back before it leaves the function, look a method up once outside a loop, replace `list.pop(0)` by `deque.popleft()` with all other uses adjusted (same order, same end), short-circuit where the remaining work provably has no effect, compute a constant once at module level, use `dict.setdefault` / `defaultdict` where equivalent, `any()/all()` over an explicit loop with identical evaluation order and side effects. Reuse NOTHING that needed to be fresh (timers, Deferreds, nonces, hashers); do not coalesce or drop messages, acks or notifications; do not change ordering, uniqueness or identity semantics.

Make each refactoring substantial enough to matter (several lines, in the heart of the mechanism), but keep behaviour identical. Do NOT fix bugs, do NOT change behaviour "for the better", do NOT touch tests, keep public API names and anything tests reference.

DELIVERABLES (in {wt}): refactor13.diff, refactor14.diff - each the `git diff -- src` of ONE refactoring alone against the clean tree (applicable with `git apply`), plus notes.md saying for each: what was done, which functions, why behaviour is unchanged, and the result of the full test suite with it applied (must be 438 passed). Verify each one separately: apply it to the clean tree, run the full suite, save the diff, then `git checkout -- src`. Leave src/ clean at the end.
Report back one short paragraph per refactoring.""")
