#!/usr/bin/env python3
"""Round-3 adversary prompt for one property: ordering/atomicity and error-path/boundary styles. Only the property text goes in."""
import json, sys
pid, wt = sys.argv[1], sys.argv[2]
prop = [json.loads(l) for l in open('/verif/properties.jsonl') if json.loads(l)['id'] == pid][0]
print(f"""You are playing the adversary for a verification experiment on the magic-wormhole Python library (Twisted/Automat, PAKE-secured file transfer).

Your own scratch git worktree of the repository is at {wt} . Do ALL work there. Never modify or read anything under /repo or /verif (they are off limits); do not use the network (there is none). Do not use `git stash` (the worktree shares its git directory; undo with `git checkout -- src`) and do not kill processes you did not start.

How to run things:
  - interpreter: /venv/bin/python  (has twisted, automat, pytest, hypothesis, spake2, pynacl ... installed)
  - ALWAYS set PYTHONPATH={wt}/src so that `import wormhole` resolves to YOUR worktree, e.g.
      cd {wt} && PYTHONPATH={wt}/src /venv/bin/python -m pytest -q -p no:cacheprovider --timeout=900 -n 4
    On the unmodified tree this gives "438 passed, 31 skipped" in about 15 s.

The property under test (this is all you are given):

{json.dumps(prop, indent=1)}

TASK. Produce TWO changes to the library source (files under src/wormhole, NOT under src/wormhole/test), each of which BREAKS this property while the code still imports/compiles and the WHOLE existing test suite still passes (438 passed). Each must be a realistic regression (something a plausible commit could contain) and must need something specific to manifest; not something the happy path exposes at once. The two changes must be of these two prescribed STYLES and must attack DIFFERENT clauses/mechanisms of the property:

  patch5.diff - ORDERING / ATOMICITY: swap the order of two side effects, move a statement across a call that can re-enter / raise / yield to the reactor, update a piece of state before instead of after (or after instead of before) the action it guards, split an update that must be atomic, register a callback before/after the state it relies on is set, or clear/reset something at a different moment (on every connection instead of once, on entry instead of on exit). The individual statements all stay; only WHEN they happen changes.

  patch6.diff - ERROR PATH / BOUNDARY: the normal path is untouched; only a failure path, a retry/second-call path, or a boundary case differs: an exception of a different type (or a swallowed one), a handler that no longer cleans up or no longer re-raises, a `finally`/errback that is skipped, the empty / None / zero / maximum-size / exactly-at-the-limit case, the second use of something designed for one use, a default argument or fallback value.

Avoid the most obvious spot for this property (the first function anyone would look at); prefer a collaborator, a less-travelled row of a state machine, or a helper. Keep each change small (a few lines).

For each, write a DEMONSTRATION: a stand-alone script (demo5.py / demo6.py, run as `cd {wt} && PYTHONPATH={wt}/src /venv/bin/python demo5.py`) that exits non-zero WITH the change and exits 0 WITHOUT it, by exercising the real library code (drive the real classes with fakes/mocks for the network where needed, e.g. twisted.internet.task.Clock, fake transports, mock.Mock for neighbours as the existing tests do). The demo must show the behavioural violation of the property (not just that the source text differs), and must not assert anything about the path of the worktree.

DELIVERABLES (in {wt}):
  - patch5.diff, patch6.diff : each the `git diff -- src` of ONE change alone against the clean tree (demo files NOT included), applicable with `git apply`
  - demo5.py, demo6.py
  - notes.md : for each patch: style, which clause of the property it breaks, what it needs in order to manifest, the exact commands you ran and their results
Before finishing, VERIFY for each patch: (1) full suite passes with the patch applied (438 passed), (2) demo fails with the patch, (3) demo passes on the clean tree. Leave the worktree's src/ CLEAN at the end, with the patch/demo/notes files untracked in {wt}.
Report back one short paragraph per patch (what it changes, why tests miss it, how the demo triggers it).""")
