#!/venv/bin/python
"""Re-run every property check against filed seeds (seeded/<id>-<k>/patch.diff applied to a copy of /repo/src) and refresh
`checks_reporting` / `caught_by_own_property` in their meta.json.  usage: refresh_meta.py [<seed> ...]   (default: all)"""
import glob, json, os, shutil, subprocess, sys
from concurrent.futures import ProcessPoolExecutor
sys.path.insert(0, "/verif")
TREES = "/tmp/rmt"
ALL = ["C%02d" % i for i in range(1, 21)]


def one(name):
    d = os.path.join(TREES, name)
    shutil.rmtree(d, ignore_errors=True)
    os.makedirs(d)
    try:
        shutil.copytree("/repo/src", os.path.join(d, "src"), ignore=shutil.ignore_patterns("__pycache__", "*.pyc", "test"))
        p = subprocess.run("git apply --exclude='src/wormhole/test/*' /verif/seeded/%s/patch.diff" % name, shell=True, cwd=d, capture_output=True, text=True)
        if p.returncode:
            return name, None
        from sa.srcmodel import SourceTree, AnalysisError
        from sa.driver import evaluate
        tree = SourceTree.load(d)
        caught = {}
        for pid in ALL:
            try:
                # the seed's own property gets the full quick tier; the neighbours are run without the typestate products
                # (A3 / A5 cost 30-50 s each) unless --full: "also reported by" is then a lower bound
                rep, mod = evaluate(pid, "quick", tree, skip_a3=(pid != name.split("-")[0] and "--full" not in sys.argv))
                if rep.unlisted():
                    caught[pid] = [v["key"][:160] for v in rep.unlisted()]
            except AnalysisError as e:
                caught[pid + "(analysis-error)"] = [str(e)[:160]]
        return name, caught
    finally:
        shutil.rmtree(d, ignore_errors=True)


def main():
    names = [a for a in sys.argv[1:] if not a.startswith("--")] or sorted(os.path.basename(os.path.dirname(p)) for p in glob.glob("/verif/seeded/C*-*/patch.diff"))
    bad = 0
    with ProcessPoolExecutor(max_workers=int(os.environ.get("VERIF_JOBS", "8"))) as ex:
        for name, caught in ex.map(one, names):
            mp = "/verif/seeded/%s/meta.json" % name
            if caught is None:
                print(name, "DOES-NOT-APPLY")
                bad += 1
                continue
            meta = json.load(open(mp)) if os.path.exists(mp) else {"seed": name, "property": name.split("-")[0]}
            meta["checks_reporting"] = caught
            meta["caught_by_own_property"] = name.split("-")[0] in caught
            json.dump(meta, open(mp, "w"), indent=1)
            if not meta["caught_by_own_property"]:
                bad += 1
            print("%-7s own=%s %s" % (name, meta["caught_by_own_property"], sorted(caught)), flush=True)
    print("seeds=%d not-caught-by-own=%d" % (len(names), bad))


if __name__ == "__main__":
    main()
