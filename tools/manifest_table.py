"""Per-property claim texts for MANIFEST.json (see tools/gen_manifest.py)."""


def fill(claim, na):
    claim("C14",
          "typestate analysis (abstract interpretation of the composed Automat machine sources) + CFG handler rule",
          "Decides the reachability clause of the property on the source itself: the product of the 13 client machines and "
          "RendezvousConnector is explored abstractly under the environment of DESIGN.md section 3 (all API orders, connection "
          "loss/re-open anywhere, every conformant server delivery incl. duplicates, reordering, third participant, undecryptable "
          "bodies); any reachable undeclared (state,input) pair or failing assertion on a tracked attribute is reported with its "
          "event path and call stack. Plus: the catch-all handlers of ws_message/ws_open report to Boss.error on every path. "
          "Sound w.r.t. the abstraction (data abstracted to constants/top, control kept); not a test: nothing is executed.",
          "T1 Automat/ast semantics; T3 the environment table (who may call the client and when) is hand-written and reviewed; "
          "dilation Manager internals are outside this product (C17/C11 rules cover them)",
          "DESIGN.md 2.1, 3, 4/C14")
    claim("C08",
          "Automat table rules + typestate analysis of the composed client (safety invariants, EF-reachability of closed, verdict/mood consistency) + CFG must-pass-through",
          "Decided on the source: (tables) close declared in every Boss state; each live state's close/scared/rx_error/rx_unwelcome "
          "row stores the documented verdict and mood; closed is delivered exactly once on each row entering the closed state "
          "and on no other row; Nameplate/Mailbox signal done only on the server's released/closed or from never-acquired "
          "states; the connector is stopped only after close+both done. (product) over every explored schedule: closed at most "
          "once, nothing after it, at an orderly closed no claim and no open mailbox remain at the server and the connector has "
          "stopped, every state after close() can still reach closed, the verdict stored matches what was observed, the mood "
          "sent matches the verdict, server error / error welcome / close() always leave the Boss closing. (CFG) closed() "
          "terminates every observer. Not decided: real time; Boss.error exits are exempt from the release clause.",
          "T1; T3 environment table; 'server holds a claim/mailbox' is modelled from the requests the client sent (claim/open) "
          "and the responses the environment delivered (released/closed)",
          "DESIGN.md 4/C08")
    claim("C09",
          "Automat table rules (connectivity twins, re-issue) + CFG ordering rule + typestate invariant over the reachable product + attribute write-discipline",
          "Decided on the source: every disconnected state declares connected and every connected state lost (no outputs); each "
          "state awaiting a server response re-sends its request when the connection returns; rows entering Mailbox S2B open "
          "and re-submit every un-echoed message; ws_open binds before notifying all four machines and ws_close tells the same "
          "four; over the explored product 'connected & awaiting => request outstanding on THIS connection' and 'S2B => opened "
          "on this connection' hold in every state; _pending_outbound is only written by queue/dequeue. Not decided: the "
          "two-party liveness claim (key exchange completes once both stay connected).",
          "T1; T3 environment: responses only answer requests sent on the current connection; a lost connection loses in-flight requests",
          "DESIGN.md 4/C09")
    claim("C18",
          "typestate analysis (event order / multiplicity monitors over the product) + table output-order rule + CFG ordering and must-pass-through rules on the observers",
          "Decided on the source: in every explored schedule got_code <= got_key <= got_verifier <= versions/messages, each of the "
          "four one-shot events at most once, nothing after closed; Receive's first-good row lists verified-key, happy, verifier, "
          "message in that order; compute_key tells the Boss, then sends version, then keys Receive; Send transmits only with a "
          "verified key and drains in order; Mailbox re-submits in submission order; the Deferred front-end delivers one-shots "
          "through fire_if_not_fired; closed() terminates every observer with a Failure on every path; observers test the error "
          "before the buffer. Not decided: the eventual-send timing inside one reactor turn.",
          "T1; T3; EventualQueue FIFO is trusted",
          "DESIGN.md 4/C18")
    claim("C01",
          "def-use / argument-plumbing rules over the syntax tree + Automat table rules + CFG handler rule + typestate reachability",
          "Decides the structural lemmas the agreement clause rests on: to_bytes is NFC+UTF-8; the single SPAKE2 construction is "
          "keyed by to_bytes(code parameter) with idSymmetric=to_bytes(appid); Code/Key/Boss hand the code on unchanged and "
          "code-before-PAKE; the finish() result flows unmodified to Boss, Receive and the phase key; derive_key is HKDF with "
          "the purpose as info, the front-ends pass to_bytes(purpose) and refuse without a key; the verifier is a fixed-purpose "
          "derivation; nothing is delivered before a peer message decrypted and an undecryptable one leads to scared / "
          "WrongPasswordError; in the product _SortedKey never sees a PAKE before the code. NOT decided (behavioural remainder): "
          "that two SPAKE2 runs agree iff the passwords do, HKDF/ SecretBox strength.",
          "T1, T2 (spake2, HKDF, SecretBox, unicodedata behave as documented), T3 for the typestate part",
          "DESIGN.md 4/C01")
    claim("C02",
          "def-use / plumbing rules, Automat table + who-may-call rules, CFG guard-dominance, attribute write-discipline",
          "Decides the binding lemmas: the phase key's purpose holds sha256(side) and sha256(phase) (strict encodings); receiver "
          "keys on the labels received, sender on own side + the label it sends; one side per wormhole; own-side messages are "
          "echoes that never reach Order/Receive (plain side comparison), only Mailbox feeds Order and only Order feeds Receive; "
          "the dedup set is add-only and its membership test dominates the hand-over; undecryptable => scared; unknown phases are "
          "only logged, versions only under the label 'version'. NOT decided: authenticity of SecretBox, SPAKE2 reflection rejection.",
          "T1, T2", "DESIGN.md 4/C02")
    claim("C03",
          "attribute write-discipline (monotone counters, FIFO queues), CFG ordering / dominance rules on the delivery loop, table rules, typestate invariant",
          "Decides the ordering/once-only lemmas: tx phase = counter read-then-incremented once per send; the application "
          "receives only _rx_phases.pop(_next_rx_phase) under a membership test followed by +1 (and the counter moves only after a "
          "delivery); Send/Order queues and the get_message() buffer are FIFO (append at tail, iterate/take from head, clear only "
          "after the drain loop); un-echoed messages are re-sent on every (re)open in submission order and forgotten only on their "
          "echo; a phase is accepted once; payloads pass the front-end unmodified; the mailbox is re-opened on each connection "
          "(product invariant). NOT decided: the composed two-party trace equality (paper argument over these lemmas).",
          "T1, T3, T4", "DESIGN.md 4/C03")
