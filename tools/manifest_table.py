"""Per-property claim texts for MANIFEST.json (see tools/gen_manifest.py)."""


def fill(claim, na):
    claim("C14",
          "typestate analysis (abstract interpretation of the composed Automat machine sources) + CFG handler rule",
          "Decides the reachability clause of the property on the source itself: the product of the 13 client machines and "
          "RendezvousConnector is explored abstractly under the environment of DESIGN.md section 3 (all API orders, connection "
          "loss/re-open anywhere, every conformant server delivery incl. duplicates, reordering, third participant, undecryptable "
          "bodies); any reachable undeclared (state,input) pair or failing assertion on a tracked attribute is reported with its "
          "event path and call stack. Plus: the catch-all handlers of ws_message/ws_open report to Boss.error on every path. "
          "Sound w.r.t. the abstraction (data abstracted to constants/top, control kept); not a test: nothing is executed.",
          "T1 Automat/ast semantics; T3 the environment table (who may call the client and when) is hand-written and reviewed; "
          "dilation Manager internals are outside this product (C17/C11 rules cover them)",
          "DESIGN.md 2.1, 3, 4/C14")
    claim("C08",
          "Automat table rules + typestate analysis of the composed client (safety invariants, EF-reachability of closed, verdict/mood consistency) + CFG must-pass-through",
          "Decided on the source: (tables) close declared in every Boss state; each live state's close/scared/rx_error/rx_unwelcome "
          "row stores the documented verdict and mood; closed is delivered exactly once on each row entering the closed state "
          "and on no other row; Nameplate/Mailbox signal done only on the server's released/closed or from never-acquired "
          "states; the connector is stopped only after close+both done. (product) over every explored schedule: closed at most "
          "once, nothing after it, at an orderly closed no claim and no open mailbox remain at the server and the connector has "
          "stopped, every state after close() can still reach closed, the verdict stored matches what was observed, the mood "
          "sent matches the verdict, server error / error welcome / close() always leave the Boss closing. (CFG) closed() "
          "terminates every observer. decrypt_data raises nothing but CryptoError for a bad ciphertext (C08.R7), so an undecryptable message always ends as 'scary'. Not decided: real time; Boss.error exits are exempt from the release clause.",
          "T1; T3 environment table; 'server holds a claim/mailbox' is modelled from the requests the client sent (claim/open) "
          "and the responses the environment delivered (released/closed)",
          "DESIGN.md 4/C08")
    claim("C09",
          "Automat table rules (connectivity twins, re-issue) + CFG ordering rule + typestate invariant over the reachable product + attribute write-discipline",
          "Decided on the source: every disconnected state declares connected and every connected state lost (no outputs); each "
          "state awaiting a server response re-sends its request when the connection returns; rows entering Mailbox S2B open "
          "and re-submit every un-echoed message; ws_open binds before notifying all four machines and ws_close tells the same "
          "four; over the explored product 'connected & awaiting => request outstanding on THIS connection' and 'S2B => opened "
          "on this connection' hold in every state; _pending_outbound is only written by queue/dequeue. the dedup set of processed peer phases is created once by the constructor and only grows (C09.R6: the server replays the mailbox on every re-open). Not decided: the "
          "two-party liveness claim (key exchange completes once both stay connected).",
          "T1; T3 environment: responses only answer requests sent on the current connection; a lost connection loses in-flight requests",
          "DESIGN.md 4/C09")
    claim("C18",
          "typestate analysis (event order / multiplicity monitors over the product) + table output-order rule + CFG ordering and must-pass-through rules on the observers",
          "Decided on the source: in every explored schedule got_code <= got_key <= got_verifier <= versions/messages, each of the "
          "four one-shot events at most once, nothing after closed; Receive's first-good row lists verified-key, happy, verifier, "
          "message in that order; compute_key tells the Boss, then sends version, then keys Receive; Send transmits only with a "
          "verified key and drains in order; Mailbox re-submits in submission order; the Deferred front-end delivers one-shots "
          "through fire_if_not_fired; closed() terminates every observer with a Failure on every path; observers test the error "
          "before the buffer. Not decided: the eventual-send timing inside one reactor turn.",
          "T1; T3; EventualQueue FIFO is trusted",
          "DESIGN.md 4/C18")
    claim("C01",
          "def-use / argument-plumbing rules over the syntax tree + Automat table rules + CFG handler rule + typestate reachability",
          "Decides the structural lemmas the agreement clause rests on: to_bytes is NFC+UTF-8; the single SPAKE2 construction is "
          "keyed by to_bytes(code parameter) with idSymmetric=to_bytes(appid); Code/Key/Boss hand the code on unchanged and "
          "code-before-PAKE; the finish() result flows unmodified to Boss, Receive and the phase key; derive_key is HKDF with "
          "the purpose as info, the front-ends pass to_bytes(purpose) and refuse without a key; the verifier is a fixed-purpose "
          "derivation; nothing is delivered before a peer message decrypted and an undecryptable one leads to scared / "
          "WrongPasswordError; in the product _SortedKey never sees a PAKE before the code. NOT decided (behavioural remainder): "
          "that two SPAKE2 runs agree iff the passwords do, HKDF/ SecretBox strength.",
          "T1, T2 (spake2, HKDF, SecretBox, unicodedata behave as documented), T3 for the typestate part",
          "DESIGN.md 4/C01")
    claim("C02",
          "def-use / plumbing rules, Automat table + who-may-call rules, CFG guard-dominance, attribute write-discipline",
          "Decides the binding lemmas: the phase key's purpose holds sha256(side) and sha256(phase) (strict encodings); receiver "
          "keys on the labels received, sender on own side + the label it sends; one side per wormhole; own-side messages are "
          "echoes that never reach Order/Receive (plain side comparison), only Mailbox feeds Order and only Order feeds Receive; "
          "the dedup set is add-only and its membership test dominates the hand-over; undecryptable => scared; unknown phases are "
          "only logged, versions only under the label 'version'. NOT decided: authenticity of SecretBox, SPAKE2 reflection rejection.",
          "T1, T2", "DESIGN.md 4/C02")
    claim("C03",
          "attribute write-discipline (monotone counters, FIFO queues), CFG ordering / dominance rules on the delivery loop, table rules, typestate invariant",
          "Decides the ordering/once-only lemmas: tx phase = counter read-then-incremented once per send; the application "
          "receives only _rx_phases.pop(_next_rx_phase) under a membership test followed by +1 (and the counter moves only after a "
          "delivery); Send/Order queues and the get_message() buffer are FIFO (append at tail, iterate/take from head, clear only "
          "after the drain loop); un-echoed messages are re-sent on every (re)open in submission order and forgotten only on their "
          "echo; a phase is accepted once; payloads pass the front-end unmodified; the mailbox is re-opened on each connection "
          "(product invariant). NOT decided: the composed two-party trace equality (paper argument over these lemmas).",
          "T1, T3, T4", "DESIGN.md 4/C03")
    claim("C04",
          "CFG guard-dominance / ordering / must-pass-through rules + def-use plumbing of the hash and the file object",
          "Decides the structural clauses: the receiver returns from _transfer_data only past received>=xfersize (short edge "
          "raises) having asked for exactly xfersize bytes; transfer precedes writing the destination precedes the ack, all "
          "awaited; payload staged in a truncating open of <dest>.tmp, renamed only in _write_file after close; the acknowledged "
          "sha256 is the digest of the hasher the transfer fed; the sender completes only past ack==ok and (if present) sha256 "
          "equality with the hash of the chunks it sent through an identity transform; the consumer Deferred fires only at the "
          "expected count and errbacks on loss. NOT decided: what zipfile/FileSender/tqdm do with the bytes.",
          "T1, T2", "DESIGN.md 4/C04")
    claim("C05",
          "taint / allowed-shape rule on the destination path, who-may-write table of filesystem-mutating call sites, CFG guard dominance",
          "Decides: the offered name reaches a path only as os.path.basename(name) placed directly into abspath(join(cwd[, "
          "output_file], .)), every other use is display; the offer's name fields go nowhere else; the filesystem-mutating call "
          "sites in cmd_receive.py are exactly the reviewed ones (no rmtree/rmdir/extractall) with destination-derived paths; "
          "zip members are extracted/chmod-ed only past the abspath+startswith(dir+sep) guard; overwrite only under --output-file, "
          "an existing destination otherwise raises; _remove_existing removes files only, refuses directories and is applied on "
          "both the --accept-file and the interactive path. NOT decided: symlinks below the destination, the .tmp sibling.",
          "T1, T2 (os.path.basename/abspath, zipfile)", "DESIGN.md 4/C05")
    claim("C06",
          "CFG guard dominance + attribute write-discipline (monotone counters, FIFO queues) + role-table and framing-width agreement between writer and reader",
          "Decides: decrypt only past nonce==counter (unequal edge raises), counter +1 once per record, nonces never reset; "
          "2x2 role table of record keys (cross-role equal, directions differ); writer/reader agree on the 4-byte big-endian "
          "length prefix and the 24-byte nonce; any exception in dataReceived drops the connection and enters the terminal state "
          "where no record is handled; records reach the application only from the decrypt result through FIFO queues, the "
          "consumer is attached without reordering; loss/close errback all waiting reads and the consumer Deferred. NOT decided: "
          "SecretBox authenticity, TCP.",
          "T1, T2", "DESIGN.md 4/C06")
    claim("C07",
          "CFG guard dominance / ordering, attribute write-once discipline, role tables, constant evaluation of the deadline",
          "Decides: only a sender answers go, only while no winner is recorded and on the path recording it; a receiver proceeds "
          "only after the literal go line; decision states come only from connection_ready, consulted only after the expected "
          "handshake matched; _check_and_remove is a stateless full-prefix comparison whose divergence raises and whose callers "
          "wait on False; handshake role table; connect() returns only _not_forever(deadline, race of listener+direct+relay "
          "contenders), per-connection timeout armed, winner cancels losers, summary fires once. the race holds every contender from its constructor on and every loop that can fire a contender walks a copy of that set (a contender that fires while the race is being wired neither ends it nor breaks the loop). NOT decided: byte-level races "
          "between live connections.",
          "T1, T2", "DESIGN.md 4/C07")
    claim("C10",
          "attribute write-discipline (monotone counter, FIFO retransmit/unsent queues), CFG ordering / guard rules, three-ordering evaluation of the old-record predicate",
          "Decides the exactly-once/in-order lemmas of the L3/L4 layer: seqnum counter used-then-incremented, numbered records built only in "
          "build_record; append to the retransmit queue before any send; queue retired only by acks with seqnum<=acked; new connection "
          "refills unsent from the retransmit queue before registering/resuming, unsent before producers, loss clears unsent; every "
          "numbered record acked, old ones dropped after the ack, handlers after the watermark update; old <=> seqnum<=watermark, "
          "watermark monotone; only un-numbered records bypass the queue; parked records replayed FIFO. every TrafficTimer state a lost connection leaves behind accepts the next got_connection, so connector_connection_made reaches Outbound.use_connection (the replay) on every new connection (C10.R8). NOT decided: TCP order, trace equality.",
          "T1, T2", "DESIGN.md 4/C10")
    claim("C11",
          "three-ordering evaluation of choose_role, Automat table rules (selection once, stop-before-start, reconnect rows and output order), CFG guard rules for KCM, write-discipline",
          "Decides the structural clauses: complementary roles from the same side pair (equal raises); one selection per Connector "
          "generation and never two racing Connectors; KCM only from the follower after the handshake and from the leader at selection; "
          "reconnect handshake rows present with `reconnecting` announced before connecting starts; dilation generations and dilate-N "
          "sequenced; loss of the selected connection reported through the one-shot observer. ",
          "T1; re-convergence is decided as deadlock-freedom of the two-party product under the link model T5 (12.9), not as a timing claim", "DESIGN.md 4/C11, 12.9")
    claim("C12",
          "encoder/decoder layout extraction and agreement (sibling cross-check), constant evaluation, loop-shape rule for chunking, CFG handler rules, role table, Automat who-emits rule",
          "Decides: all 7 record types written and read at the same tag/offset/width/encoding (ping ids 4 bytes at every producer), "
          "same struct format; NOISE_MAX_CIPHERTEXT-NOISE_MAX_PAYLOAD==16 with sender partitioning by payload and receiver by "
          "ciphertext and matching thresholds; frame length prefix agreement; every Noise read/decrypt failure becomes Disconnect -> "
          "loseConnection; prologue divergence (and only divergence) disconnects; a recognised prologue / relay reply consumes exactly its own length (bytes arriving in the same segment stay buffered); role table of build_protocol; records reach the "
          "manager only in state selected and only from the decrypting unframer. NOT decided: Noise itself (not installed here).",
          "T1, T2", "DESIGN.md 4/C12")
    claim("C13",
          "Automat table path rules (exactly-once signals on every path to closed), write-discipline, argument plumbing across 4 call hops, CFG handler rules, who-may-write table",
          "Decides: on every path to `closed` exactly one connectionLost (or one read-lost and one write-lost), one close_subchannel, one "
          "CLOSE; nothing delivered in closed; a write after the local close raises and is never silently dropped; id parity per role and "
          "step 2; expected_subprotocols plumbed dilate()->Boss->Dilator->Manager->demultiplexer which tests it; unexpected OPEN answered "
          "with CLOSE and forgotten, duplicate OPEN ignored, pending OPENs drained in order; _open_subchannels written only by open / "
          "refusal / subchannel_closed. NOT decided: data ordering relative to close (C10).",
          "T1", "DESIGN.md 4/C13")
    claim("C15",
          "paired-move write discipline + CFG ordering/guard rules on the flow-control entry points",
          "Decides ONLY the pairing discipline the behaviour depends on: producer sets move together and every move is immediately "
          "followed by the matching pause/resume call; a producer registered while paused is paused exactly once; pause sets the flag "
          "first and visits all; resume loops on the flag, unsent records first, producers through the rotating accessor; connection "
          "loss pauses; Inbound pauses exactly on empty->non-empty, resumes exactly on non-empty->empty, updates its set with or "
          "without a connection and pauses a new connection while non-empty. Absence of lost wake-ups over all interleavings is NOT decided.",
          "T1; the interleaving half is explicitly unclaimed", "DESIGN.md 4/C15")
    claim("C16",
          "Automat table path rule (interval-only paths) + CFG must-pass/guard rules on the timer glue + write-discipline of Manager._timer",
          "Decides: exactly two silent intervals from `connected` reach signal_reconnect, each re-arming; traffic returns to connected from "
          "both timing states; loss accepted in both; the leader reports every connection and every loss to the timer; the interval timer "
          "is cancelled+cleared when the connection goes and cleared by its own expiry before reporting (non-None => pending); the "
          "reconnect signal drops the connection; only a matching pong reports traffic; pings carry fresh 4-byte ids. a ping / pong handed to Outbound.send_if_connected is written whenever a connection exists, on no other condition (C16.R3). NOT decided: seconds.",
          "T1, T2 (Twisted DelayedCall)", "DESIGN.md 4/C16")
    claim("C17",
          "Automat exhaustiveness/outcome rules on Manager/Connector/Terminator + CFG must-pass rules + resource-registration (who-tracks-what) rule",
          "Decides: every non-final Manager state accepts stop and either stops at once (notifying) or waits in STOPPING with a disconnect "
          "requested, STOPPING leaves on both loss inputs; a racing Connector is stopped and Connector.stop closes listeners, pending "
          "connectors and pending connections; Dilator.stop always leads to stoppedD; no common version => OldPeerCannotDilateError on "
          "the main channel that connect()/listen() await, early versions forwarded; every protocol built for a Connector (outbound and "
          "inbound) is tracked in the set that stop/selection disconnect; selecting the winner stops listeners, pending connectors and pending connections on every path (the CONNECTED stop row relies on it: C17.R8); the stop path cannot raise on a stale timer. NOT decided: that "
          "the transport eventually reports the loss.",
          "T1, T2", "DESIGN.md 4/C17")
    claim("C19",
          "literal-table check of raw_words, loop/parity shape rules, regex parse-tree check of the nameplate pattern, CFG validate-first ordering, sibling agreement of the three code entry points, Automat table rules",
          "Decides: raw_words is exactly 256 entries 00..FF of two letters-only words, 256 distinct per list, lists disjoint, derived "
          "tables built from it; choose_words appends one word per range(length) iteration from a fresh os.urandom(1), odd list first, "
          "joined by '-'; get_completions uses the same parity on the hyphen count and offers only prefix-extending words; no `random` "
          "import; validation precedes every state change, spaces rejected, the nameplate regex (parse tree) is digits-only anchored at "
          "start and END OF STRING; each code entry point raises OnlyOneCodeError when a code was started and sets the flag first; "
          "Input raises for words-before-nameplate and anything after the words; allocated code = nameplate-words. NOT decided: "
          "statistical uniformity of os.urandom.",
          "T1, T2 (os.urandom, re)", "DESIGN.md 4/C19")
    claim("C20",
          "flow-sensitive JSON type-guard abstract interpretation (type lattice with per-key facts, isinstance/in narrowing, per-field namedtuple values) + encoder/decoder key-set agreement",
          "Decides the never-raises clause for the listed functions: from 'list of JSON objects with arbitrary keys/values' in hint "
          "position, every raising operation reachable through parse_tcp_v1_hint / parse_hint / Transit.add_connection_hints / _connect "
          "/ Connector._use_hints / describe / endpoint helpers is type-safe (0 sinks on the current tree; 21 on the tree before the "
          "fix:); hint objects are built only from hostname:str and the JSON integer port itself, for the two supported types, "
          "unparseable hints are dropped; encode_hint/get_connection_hints write exactly the keys, type strings and field mapping the "
          "parsers read. a hint whose endpoint fails at once is one failed contender and never the end of the race (C20.R4 = the race discipline of C07). A non-object in hint position is outside the property's quantifier and not reported. DNS/endpoints out of scope.",
          "T1, T2; exceptions caught by an enclosing try in the same function are honoured", "DESIGN.md 4/C20")


# sentences appended to the level text: the ordering / error-path rules added after the third seed round (DESIGN.md 12.8)
ROUND4 = {
    "C11": "Two-party product (engine A5, C11.R8): Manager, TrafficTimer and Connector of a Leader and a Follower are interpreted abstractly from "
           "their source and composed through in-order mailbox channels and a link model (T5); over every interleaving of message delivery, link "
           "events, timer expiries, pongs and stop(): no machine gets an input it has no row for, a side never selects a second connection while "
           "one is in use, no Connector is created while its predecessor still races, and from every reachable joint state in which nobody stopped "
           "a state with both sides connected over the same live link is reachable (AG EF converged = no deadlock). This decides the "
           "convergence clause as possibility under the link model, not as a real-time guarantee.",
    "C14": "The dilation control plane of both sides (Manager, TrafficTimer, Connector) is explored in the two-party product (C14.R4): no "
           "undeclared (state, input) pair, failing assertion or explicit builtin raise is reachable.",
    "C16": "In the two-party product (C16.R4) every timer expiry on a connection in use is examined: after two expiries without a pong the "
           "Leader has asked the connection to close, and the monitor never drops a connection unless a ping went unanswered over an expiry.",
    "C17": "In the two-party product (C17.R10): after stop() on either side, in whatever joint state, that side's Manager can always reach its "
           "terminal state without internal failure, and arrives there with no racing Connector, no pending timer, no pending connection and no "
           "connection still in use.",
}

_SHARED = "Per-instance containers of the classes these lemmas are about are per instance: no mutable attrs default, no class-level container mutated through self, no chained assignment of one container to two attributes (R0)."
ROUND5 = {
    "C01": _SHARED + " Messages held until the key exists are all judged once it does (C01.R6 drained); the no-key guard of derive_key and the values ever stored in _key are consistent (C01.R4).",
    "C02": _SHARED + " The position a message is delivered at is its authenticated phase (C02.R8); the dedup key is the phase, alone or with the side label.",
    "C03": _SHARED + " Observers hand every callback to the eventual queue; a fast path in W_received is accepted only together with the Mailbox's de-duplication.",
    "C04": "The sender's directory walk keeps empty directories and adds every path once under its relative name (C04.R7); no __exit__ in the package can swallow an exception raised inside a timed block (C04.R8).",
    "C05": "No __exit__ in the package can swallow an exception raised inside a `with` block (C05.R6: a refused overwrite stays refused).",
    "C06": _SHARED + " No truthiness test on a record value between decryption / the inbound queue and the application (C06.R7: the empty record is a record).",
    "C07": _SHARED + " The deadline around the race evaluates to between one and ten per-connection timeouts; no __exit__ swallows exceptions (C07.R7).",
    "C08": _SHARED + " In the product, `add` and a `close` without mailbox id are only sent on a connection that opened the mailbox (tx-protocol).",
    "C09": _SHARED + " In the product, `add` and a `close` without mailbox id are only sent on a connection that opened the mailbox (C09.R4 tx-protocol).",
    "C10": _SHARED + " Subchannel ids of the two sides never collide (C10.R10); in the two-party product every connection handed to Inbound / Outbound has been taken away again before the next one arrives (C10.R11).",
    "C12": _SHARED,
    "C13": _SHARED + " A row that reports the subchannel closed to the manager enters the closed state (C13.R1).",
    "C14": _SHARED + " The product tracks the kind of containers of unknown content: a set operator applied to a list is a reachable TypeError.",
    "C15": _SHARED + " stop_using_connection unregisters from the old transport before it forgets the connection (C15.R2).",
    "C16": "The product runs the Manager's real on_pong callback; where that callback weighs the round-trip time against the interval, handle_pong must hand over the plain elapsed time (C16.R4 rtt-unit).",
    "C17": _SHARED + " Environment with an old peer (no can-dilate entry): once the versions are known and dilate() was called the Manager has left its initial state (C17.R7 versions-not-forwarded).",
    "C18": _SHARED + " Observers never fire synchronously (C18.R6); every numbered phase reaches the application at most once (C18.R7).",
    "C20": _SHARED + " Every Manager state in which a hints message can arrive declares rx_HINTS (C20.R5, also decided in the two-party product); what this side advertises reads no attribute that peer input writes (C20.R6); per-key constant correlation across calls in the JSON engine.",
}

ROUND3 = {
    "C01": "Order inside the key row: the output that stores the key precedes those that re-submit held messages (C01.R5).",
    "C03": "SequenceObserver hands results to observers atomically (taken synchronously, only in fire / when_next_event) and EventualQueue._turn isolates each call in its own try (C03.R3).",
    "C04": "The transit record nonce guard is an inequality test that raises (C04.R6 = C06.R1); the destination file is opened only after the free-space check and the permission prompt.",
    "C05": "No file or directory is created before permission was granted (C05.R5).",
    "C07": "The race wires each contender's outcome callbacks in the same loop that registers it (single wiring loop), and the listener is stopped on success and failure alike (addBoth, C07.R6).",
    "C08": "Inside one transition the server is told before the application callback runs (C08.R8 wire-before-callback); an abandoned reconnect is also reported here.",
    "C09": "A message is recorded as pending before it is sent (C09.R6 record-before-send).",
    "C10": "_connect attaches the connection before replaying queued data, and the single-packet threshold agrees with the chunker (C10.R9).",
    "C11": "The traffic timer accepts the next connection after a reconnect (C11.R7).",
    "C12": "_get_expected tests for a complete match before divergence (C12.R4 match-first); to_be4 accepts exactly [0, 2**32) (C12.R1).",
    "C14": "In every row of the client machines the output that records state precedes the one that notifies waiters (C14.R3).",
    "C17": "Manager.stop is fired only by Dilator.stop (C17.R9).",
    "C18": "SequenceObserver hand-off is atomic and EventualQueue._turn isolates calls (C18.R6).",
    "C20": "math.* applied to a value that may be an arbitrarily large JSON integer is a sink (OverflowError).",
}


_APP_LAST = ("In every Automat row of %s the outputs that run application-supplied code (protocol callbacks, status callbacks) come after the outputs "
             "that do the machine's own work: the state has already changed when outputs run, so an output skipped by a raising callback is never made up for (%s).")
ROUND6 = {
    "C01": "The writers of the close verdict are the ones C08.R2 admits (C01.R8: a WrongPasswordError verdict cannot be replaced after the fact).",
    "C02": "A delivery whose exception is caught inside the delivery loop still retires the phase (C02.R8 increment-after-caught-delivery: a raising application handler cannot make a phase show up twice).",
    "C03": "A delivery whose exception is caught locally still advances the receive counter (C03.R2); a waiting read that the application cancels leaves the observer list (C03.R3 cancel-safe).",
    "C04": "No except-clause of the receiver's transfer / write / extract / rename functions turns a failure into a normal return (C04.R9).",
    "C05": "No except-clause of the receiver's write / extract / rename functions swallows a failure (C05.R7).",
    "C06": "No except-clause in the record path of Connection turns a failure during record handling into a normal return (C06.R8).",
    "C07": "Connection._cancel enters the terminal state in the call that closes the transport, and the listener's Deferred always joins the race (C07.R8); no stage of a contender's callback chain turns a failed connection attempt into a success of the race (C07.R9, callback-chain analysis: ok/fail outcome sets per stage).",
    "C08": "RendezvousConnector.stop: the callback that tells the Terminator stoppedRC runs on every outcome of stopService() (C08.R9, callback-chain analysis).",
    "C09": "An echo retires exactly the echoed phase from the outbound table (C09.R7).",
    "C11": "The Leader's interval timer is wired to Manager methods (it outlives the connection it was made for) and its handle is cleared on expiry and cancelled with the connection (C11.R7, the timer-handle instances of C16.R2): a stale handle raises inside connection made / lost handling before the state machine hears of the event.",
    "C12": "_Framer.add_and_parse reaches parse() on every path (C12.R7).",
    "C13": _APP_LAST % ("SubChannel", "C13.R7"),
    "C14": "Every Deferred the client creates with a canceller forgets itself there (C14.R6).",
    "C15": "A SubChannel row tells the manager the subchannel is closed before it calls into the protocol (C15.R5).",
    "C16": _APP_LAST % ("Manager", "C16.R5") + " The TrafficTimer, created once, is wired to methods of the Manager, not to one connection's bound methods (C16.R2 timer-wiring).",
    "C17": _APP_LAST % ("Manager and Boss", "C17.R12") + " Manager.fail errors the main channel before anything else can raise (C17.R11); Dilator.stop chains stoppedD whichever way Manager.stop() returns (C17.R3); versions that arrived before dilate() are forwarded unless the slot is None - an empty versions object is a peer that cannot dilate (C17.R4).",
    "C20": "The result of endpoint_from_hint_obj (None for a hint no endpoint can reach) is tested before use at every call site, wrappers included (C20.R7); a contender whose connection attempt failed - a peer-supplied name that does not resolve - stays failed (C20.R8); Manager.use_hints decides hint by hint, reading and keeping no Manager state (C20.R2).",
}


_PAYLOAD = ("No code on the mailbox message path decides anything by the truthiness of a payload value: the empty message b\"\" is a message "
            "(%s; 24 functions of wormhole.py, _boss.py, _send.py, _receive.py).")
_OBS = ("SequenceObserver, whatever its layout: an event is taken together with the Deferred it is for, in one activation; a reader cannot overtake an older "
        "waiting one; a Deferred taken out of the waiting list is called back in that activation (a cancel in between cannot lose the event); callbacks run "
        "only from the eventual queue")
ROUND7 = {
    "C03": _PAYLOAD % "C03.R7" + " " + _OBS + " (C03.R3).",
    "C04": "FileConsumer.write puts the data into the file before any callback runs (C04.R10: a re-entrant progress callback can make the hash mismatch, never the file); the JSON codec of the control messages does no normalisation (C04.R11).",
    "C08": _PAYLOAD % "C08.R10: a valid empty message is not an undecryptable one" + " The typestate product models the claim the server makes when it allocates a nameplate; close() while `allocate` is outstanding leaves it (known finding F18, printed as KNOWN-FINDING).",
    "C09": _PAYLOAD % "C09.R8",
    "C11": "A valid prologue / relay reply is recognised under any segmentation of the byte stream (C11.R9, the _get_expected instances of C12.R4): the one connection attempt the network lets through is not dropped.",
    "C13": "Every OPEN / DATA / CLOSE that reaches Manager.got_record is acknowledged and dispatched whatever the connection bookkeeping says at that moment (C13.R8, the instances of C10.R4).",
    "C14": "An assert about a value another machine built is discharged by the builder's shape (C14.R7: Allocator.build_and_notify for every word count, zero included); a Deferred fired in place by a client machine is a re-entry point of the product and the re-entrant environment is part of the quick tier.",
    "C17": "Version negotiation, interpreted by the JSON type-guard engine with any JSON value for the peer's can-dilate entry, cannot raise (C17.R13).",
    "C18": "Inbound de-duplication is by phase (C18.R8, the instances of C02.R5): a second copy of a processed phase, also re-encrypted, never reaches the application. " + _OBS + " (C18.R6).",
}


_RELAY = ("Each event method of the delegate front-end (_DelegatedWormhole) relays its argument to the matching wormhole_* method on every path and nothing else "
          "calls that method: no buffer, flag or reordering of its own (%s).")
ROUND8 = {
    "C03": _RELAY % "C03.R8, received" + " Every creation of a waiting Deferred carries the canceller (C03.R3).",
    "C06": "The step both roles pass through when the record phase begins cancels the handshake timer on every path (C06.R9).",
    "C07": "Every connection attempt _connect starts is entered into the race before the next one starts or the function returns (C07.R10).",
    "C08": _RELAY % "C08.R11, closed",
    "C10": "No loop over a container attribute of the dilation data plane modifies that container in its body (C10.R12).",
    "C11": "The set of pending connection attempts has no writer that a cancelled attempt's callbacks could run while stop_pending_connectors iterates it (C11.R10, the instances of C17.R5).",
    "C12": "After a recognised token the framer's loop always parses again before it can end (C12.R7: relay reply and prologue in one segment); the queue of records parked during selection is not modified while iterated (C12.R8).",
    "C13": "Data received before a listener exists is held until it is delivered: _pending_remote_data has exactly its three writers (C13.R9).",
    "C14": "Mailbox.dequeue tolerates an echo for a phase that is not pending (C14.R8).",
    "C16": "Dilator.dilate hands the application's ping_interval to the Manager as given, never reassigned (C16.R6).",
    "C17": "Writer table of Connector._pending_connectors (C17.R5).",
    "C18": _RELAY % "C18.R9, all seven events",
    "C19": "Input._all_nameplates is replaced by every listing, the empty one included (C19.R7, on every path).",
    "C20": "The JSON guard starts at the Automat output in front of _use_hints and reports a constant index into a sequence built from peer data (INDEX sinks of C20.R1).",
}


# rules added after the ninth seed round (additive feature / new path; optimisation): closed-world statements about a resource
ROUND9 = {
    "C03": "get_message() hands out the received-observer's own Deferred and no other method of the front-end reads that queue (C03.R9); the echo test is the plain side comparison (C03.R10, the instance of C02.R4).",
    "C04": "No errback stage between the transfer coroutine's Deferred and the end of go() turns a failure into a success, receiver and sender (C04.R12); every member of the received archive reaches the extractor (C04.R13).",
    "C06": "The record parser is reached from one place only, as a call under state == 'records', and no method of Connection is re-bound on the instance (C06.R10); a Deferred parked in _waiting_reads gets no timeout / cancel unless created with a canceller (C06.R11).",
    "C09": "Server-message handlers and the helpers they reach remove keys from their own containers only with a default or under a membership test - the mailbox is replayed after every re-open (C09.R9); self._ws has three writers: set-up, ws_open, ws_close (C09.R10).",
    "C11": "Manager.use_hints depends on no Manager state besides the current Connector: every generation's Connector sees every hint (C11.R11).",
    "C12": "encode_record is not memoised - records are namedtuples, Ping(x) == Pong(x) (C12.R9).",
    "C14": "ws_open / ws_close make no application call-out (_evolve_status) between the write of self._ws and the connected() / lost() notifications (C14.R9).",
    "C16": "Every callLater handle of the Manager is held in an attribute, and only the traffic monitor's verdict and abandon_connection drop the current connection (C16.R7).",
    "C17": "Every deferLater attempt of the Connector is entered into _pending_connectors before the function ends (C17.R14).",
    "C19": "Input._get_word_completions returns the wordlist's completions of the prefix as typed, nothing edited or remembered (C19.R8).",
    "C20": "Only Manager.use_hints hands hints to the Connector (C20.R9).",
}


# rules added after the tenth seed round (turn shift; "equivalent" API substitution)
ROUND10 = {
    "C14": "The pattern that sends a peer phase to int() is one or more digits anchored at both ends, so an unknown phase such as '1x' is ignored and never raises (C14.R10).",
    "C02": "The handler of a server `message` hands it to the Mailbox by a direct call in the same turn, so that an exception while processing a (forged) peer message reaches ws_message's try/except and Boss.error (C02.R9).",
    "C09": "WSClient.onOpen / onMessage / onClose forward to the connector by direct calls in the same turn: open and close of one connection cannot be re-ordered (C09.R11).",
    "C10": "to_be4 / from_be4 use one unsigned 4-byte big-endian format - the seqnum / ack codec of the exactly-once argument (C10.R13). SubchannelConnectorEndpoint.connect has no yield point between registering the subchannel with Inbound and attaching its protocol (C10.R14).",
    "C13": "SubchannelConnectorEndpoint.connect has no yield point between subchannel_local_open() and _set_protocol / makeConnection: nothing can arrive for a half-built subchannel (C13.R10).",
    "C11": "Peer-hint handlers never hash an unchecked peer value into a set (C11.R12, the instance of C20.R10): an unhashable hint type would lose the whole hints message and with it the route to re-converge on.",
    "C20": "Membership tests of peer values in the hint handlers are against lists / tuples, or follow an isinstance(.., str) check - never a set literal / frozenset constant, which hashes the value (C20.R10).",
}
