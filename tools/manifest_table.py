"""Per-property claim texts for MANIFEST.json (see tools/gen_manifest.py)."""


def fill(claim, na):
    claim("C14",
          "typestate analysis (abstract interpretation of the composed Automat machine sources) + CFG handler rule",
          "Decides the reachability clause of the property on the source itself: the product of the 13 client machines and "
          "RendezvousConnector is explored abstractly under the environment of DESIGN.md section 3 (all API orders, connection "
          "loss/re-open anywhere, every conformant server delivery incl. duplicates, reordering, third participant, undecryptable "
          "bodies); any reachable undeclared (state,input) pair or failing assertion on a tracked attribute is reported with its "
          "event path and call stack. Plus: the catch-all handlers of ws_message/ws_open report to Boss.error on every path. "
          "Sound w.r.t. the abstraction (data abstracted to constants/top, control kept); not a test: nothing is executed.",
          "T1 Automat/ast semantics; T3 the environment table (who may call the client and when) is hand-written and reviewed; "
          "dilation Manager internals are outside this product (C17/C11 rules cover them)",
          "DESIGN.md 2.1, 3, 4/C14")
