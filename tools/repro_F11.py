#!/venv/bin/python
"""F11 (C14/C17, found by the two-party dilation product): a Connector that is stopped between `add_candidate` and
the eventual `accept` it scheduled receives `accept` in its terminal state `stopped`: automat NoTransition.

Reached e.g. when the Leader's L2 handshake completes (consider -> eventually(accept)) and, in the same reactor
turn, the application closes the wormhole (Manager CONNECTING.stop -> stop_connecting) or a RECONNECT arrives.
Run: PYTHONPATH=<tree>/src /venv/bin/python tools/repro_F11.py   (exit 1 = defect present, 0 = absent)"""
import sys
from unittest import mock
from wormhole.test.dilate.test_connector import make_connector
from wormhole._dilation import roles

import twisted.logger
errors = []
twisted.logger.globalLogPublisher.addObserver(lambda ev: errors.append(ev) if ev.get("isError") else None)

bad = 0
for role in (roles.LEADER, roles.FOLLOWER):
    c, h = make_connector(listen=False, role=role)
    p1 = mock.Mock()
    c._pending_connections.add(p1)      # as _track_pending_connection does for a real protocol
    c.add_candidate(p1)                 # handshake done / KCM seen: consider -> eventually(accept, p1)
    c.stop()                            # Manager CONNECTING.stop / rx_RECONNECT -> stop_connecting
    try:
        h.eq.flush_sync()               # the eventual accept reaches the stopped Connector (EventualQueue logs what it raises)
        if errors:
            ev = errors.pop(); errors[:] = []
            f = ev.get("log_failure") or ev.get("failure")
            raise (f.value if f is not None else RuntimeError(str(ev.get("log_text") or ev)[-300:]))
    except Exception as e:
        print("role %r: %s: %s" % (role, type(e).__name__, e))
        bad += 1
        continue
    assert h.manager.mock_calls == [], h.manager.mock_calls     # a stopped Connector must not select anything
    assert mock.call.disconnect() in p1.mock_calls, p1.mock_calls
    print("role %r: late accept ignored, pending connection was disconnected" % (role,))
sys.exit(1 if bad else 0)
