#!/usr/bin/env python3
"""Round-4 adversary prompt for one property: table/wiring/constant and guard/argument styles. Only the property text goes in."""
import json, sys
pid, wt = sys.argv[1], sys.argv[2]
prop = [json.loads(l) for l in open('/verif/properties.jsonl') if json.loads(l)['id'] == pid][0]
print(f"""You are playing the adversary for a verification experiment on the magic-wormhole Python library (Twisted/Automat, PAKE-secured file transfer).

Your own scratch git worktree of the repository is at {wt} . Do ALL work there. Never modify or read anything under /repo or /verif (they are off limits); do not use the network (there is none). Do not use `git stash` (the worktree shares its git directory; undo with `git checkout -- src`) and do not kill processes you did not start.

How to run things:
  - interpreter: /venv/bin/python  (has twisted, automat, pytest, hypothesis, spake2, pynacl ... installed)
  - ALWAYS set PYTHONPATH={wt}/src so that `import wormhole` resolves to YOUR worktree, e.g.
      cd {wt} && PYTHONPATH={wt}/src /venv/bin/python -m pytest -q -p no:cacheprovider --timeout=900 -n 4
    On the unmodified tree this gives "438 passed, 31 skipped" in about 15 s.

The property under test (this is all you are given):

{json.dumps(prop, indent=1)}

TASK. Produce TWO changes to the library source (files under src/wormhole, NOT under src/wormhole/test), each of which BREAKS this property while the code still imports/compiles and the WHOLE existing test suite still passes (438 passed). Each must be a realistic regression (something a plausible commit could contain) and must need something specific to manifest; not something the happy path exposes at once. The two changes must be of these two prescribed STYLES and must attack DIFFERENT clauses/mechanisms of the property:

  patch7.diff - TABLE / WIRING / CONSTANT: change DATA rather than logic: one row of an Automat transition table (`X.upon(input, enter=..., outputs=[...])`: a different target state, one output missing / added / replaced by a sibling, a row moved to the wrong state), a wiring / registration call (which collaborator, callback or observer is connected to what), a constant, a format string, a width, a dictionary key, a default value, a table of names. No `if` is touched.

  patch8.diff - GUARD / ARGUMENT: alter ONE condition or ONE argument: a test against the wrong (same-typed) variable or attribute, `and` <-> `or`, an off-by-one in a comparison, a test that is inverted in one branch only, a missing `not`, a check made on the value BEFORE instead of AFTER it was normalised / decoded, two same-typed arguments swapped at a call site, the wrong one of two similar methods / attributes used (e.g. the sender-side one on the receiver side), a stale local used instead of the refreshed one.

Avoid the most obvious spot for this property (the first function anyone would look at); prefer a collaborator, a less-travelled row of a state machine, or a helper. Keep each change small (a few lines).

For each, write a DEMONSTRATION: a stand-alone script (demo7.py / demo8.py, run as `cd {wt} && PYTHONPATH={wt}/src /venv/bin/python demo7.py`) that exits non-zero WITH the change and exits 0 WITHOUT it, by exercising the real library code (drive the real classes with fakes/mocks for the network where needed, e.g. twisted.internet.task.Clock, fake transports, mock.Mock for neighbours as the existing tests do). The demo must show the behavioural violation of the property (not just that the source text differs), and must not assert anything about the path of the worktree.

DELIVERABLES (in {wt}):
  - patch7.diff, patch8.diff : each the `git diff -- src` of ONE change alone against the clean tree (demo files NOT included), applicable with `git apply`
  - demo7.py, demo8.py
  - notes.md : for each patch: style, which clause of the property it breaks, what it needs in order to manifest, the exact commands you ran and their results
Before finishing, VERIFY for each patch: (1) full suite passes with the patch applied (438 passed), (2) demo fails with the patch, (3) demo passes on the clean tree. Leave the worktree's src/ CLEAN at the end, with the patch/demo/notes files untracked in {wt}.
Report back one short paragraph per patch (what it changes, why tests miss it, how the demo triggers it).""")
