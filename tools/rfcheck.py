#!/venv/bin/python
"""False-alarm regression: run property checks (in-process) on the behaviour-preserving refactorings kept in
/verif/seeded/refactors/*.diff.  Any VIOLATION / ANALYSIS-ERROR printed here is a false alarm (or fail-closed) of the checker.

usage: rfcheck.py [--a3] [--only C05_2,C07_1] Cxx [Cxx ...]
Trees are built under /tmp/rft/<name>/src from /repo's working tree + the diff (rebuilt when stale)."""
import glob
import os
import shutil
import subprocess
import sys
from concurrent.futures import ProcessPoolExecutor

sys.path.insert(0, "/verif")
RFDIR = os.environ.get("RFDIR", "/verif/seeded/refactors")
TREES = "/tmp/rft"


def build(name):
    d = os.path.join(TREES, name)
    stamp = os.path.join(d, ".stamp")
    head = subprocess.run("git -C /repo rev-parse HEAD", shell=True, capture_output=True, text=True).stdout.strip()
    diff = os.path.join(RFDIR, name + ".diff")
    want = head + str(os.path.getmtime(diff))
    if os.path.exists(stamp) and open(stamp).read() == want:
        return d
    shutil.rmtree(d, ignore_errors=True)
    os.makedirs(d)
    shutil.copytree("/repo/src", os.path.join(d, "src"), ignore=shutil.ignore_patterns("__pycache__", "*.pyc", "test"))
    p = subprocess.run("git apply --exclude='src/wormhole/test/*' %s" % diff, shell=True, cwd=d, capture_output=True, text=True)
    if p.returncode:
        return None
    open(stamp, "w").write(want)
    return d


def one(args):
    name, pids, a3 = args
    d = build(name)
    if d is None:
        return name, [("-", "DOES-NOT-APPLY", "")]
    from sa.srcmodel import SourceTree, AnalysisError
    from sa.driver import evaluate
    out = []
    try:
        tree = SourceTree.load(d)
    except Exception as e:
        return name, [("-", "LOAD-ERROR", str(e))]
    for pid in pids:
        try:
            rep, mod = evaluate(pid, "quick", tree, skip_a3=not a3)
            for v in rep.unlisted():
                out.append((pid, "VIOLATION", v["key"] + "  :: " + v.get("what", "")[:150]))
        except AnalysisError as e:
            out.append((pid, "ANALYSIS-ERROR", str(e)[:200]))
        except Exception as e:
            import traceback
            out.append((pid, "CRASH", traceback.format_exc()[-400:]))
    return name, out


def main():
    args = sys.argv[1:]
    a3 = "--a3" in args
    args = [a for a in args if a != "--a3"]
    only = None
    if "--only" in args:
        i = args.index("--only")
        only = set(args[i + 1].split(","))
        del args[i:i + 2]
    pids = args or ["C%02d" % i for i in range(1, 21)]
    names = sorted(os.path.basename(p)[:-5] for p in glob.glob(RFDIR + "/*.diff"))
    if only:
        names = [n for n in names if n in only]
    nbad = 0
    with ProcessPoolExecutor(max_workers=int(os.environ.get("VERIF_JOBS", "14"))) as ex:
        for name, out in ex.map(one, [(n, pids, a3) for n in names]):
            for pid, kind, txt in out:
                nbad += 1
                print("%-7s %s %-14s %s" % (name, pid, kind, txt), flush=True)
    print("refactorings=%d properties=%d alarms=%d" % (len(names), len(pids), nbad))


if __name__ == "__main__":
    main()
