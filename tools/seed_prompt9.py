#!/usr/bin/env python3
"""Round-9 adversary prompt for one property: additive feature / new path, and optimisation. Only the property text goes in."""
import json, sys
pid, wt = sys.argv[1], sys.argv[2]
prop = [json.loads(l) for l in open('/verif/properties.jsonl') if json.loads(l)['id'] == pid][0]
print(f"""You are playing the adversary for a verification experiment on the magic-wormhole Python library (Twisted/Automat, PAKE-secured file transfer).

Your own scratch git worktree of the repository is at {wt} . Do ALL work there. Never modify or read anything under /repo or /verif (they are off limits); do not use the network (there is none). Do not use `git stash` (the worktree shares its git directory; undo with `git checkout -- src`) and do not kill processes you did not start.

How to run things:
  - interpreter: /venv/bin/python  (has twisted, automat, pytest, hypothesis, spake2, pynacl ... installed)
  - ALWAYS set PYTHONPATH={wt}/src so that `import wormhole` resolves to YOUR worktree, e.g.
      cd {wt} && PYTHONPATH={wt}/src /venv/bin/python -m pytest -q -p no:cacheprovider --timeout=900 -n 4
    On the unmodified tree this gives "438 passed, 31 skipped" in about 15 s.

The property under test (this is all you are given):

{json.dumps(prop, indent=1)}

TASK. Produce TWO changes to the library source (files under src/wormhole, NOT under src/wormhole/test), each of which BREAKS this property while the code still imports/compiles and the WHOLE existing test suite still passes (438 passed). Each must be a realistic regression (something a plausible commit could contain) and must need something specific to manifest; not something the happy path exposes at once. The two changes must be of these two prescribed STYLES and must attack DIFFERENT clauses/mechanisms of the property:

  patch18.diff - ADDITIVE FEATURE / NEW PATH: the change ADDS code rather than editing the existing logic: a new optional parameter or option, a new convenience method or second entry point next to an existing one, a retry, a fallback, a "fast path" taken when some condition holds, a new status / progress / logging / timing hook, a new wrapper or helper that ONE caller now goes through, a new message field or record type handled in a new branch, a new subclass or override. The bodies of the existing functions stay (almost) textually as they are - at most one line in them is touched to call or register the new code. The property breaks because the new path bypasses, duplicates, re-orders or pre-empts a mechanism the old path went through (a check, a dedup, a queue, a state machine input, a clean-up, an encoding step, a notification), and only when that new path is actually taken: under a particular input, option, timing or history. The default path must stay correct. Your demo must drive the real code down the new path.

  patch19.diff - OPTIMISATION: a plausible performance or tidiness "improvement" whose fast behaviour is subtly not equivalent: caching / memoising a value that can change (or keying the cache too coarsely), computing something once in __init__ or at first use instead of every time, coalescing or batching several sends / writes / acks / notifications into one, skipping "redundant" work when a cheap test says nothing changed, short-circuiting a loop at the first hit, avoiding a copy (aliasing a list / dict / buffer that is later mutated), replacing a data structure by a cheaper one with different ordering / uniqueness / identity semantics (list -> set, dict -> list of pairs, deque -> list with index, bytes concatenation -> memoryview / bytearray reuse), reusing one object (timer, Deferred, buffer, nonce counter, hasher) across uses that needed a fresh one, lazy initialisation that can now happen too late or twice. In common use the optimised code behaves identically; the property breaks for a specific history, input or interleaving (second use, value changed in between, reconnect, two items equal by value, an empty or very large item, re-entrant call). Your demo must exercise exactly that.

Avoid the most obvious spot for this property (the first function anyone would look at); prefer a collaborator, a less-travelled row of a state machine, or a helper. Keep each change small (a few lines).

For each, write a DEMONSTRATION: a stand-alone script (demo18.py / demo19.py, run as `cd {wt} && PYTHONPATH={wt}/src /venv/bin/python demo18.py`) that exits non-zero WITH the change and exits 0 WITHOUT it, by exercising the real library code (drive the real classes with fakes/mocks for the network where needed, e.g. twisted.internet.task.Clock, fake transports, mock.Mock for neighbours as the existing tests do). The demo must show the behavioural violation of the property (not just that the source text differs), and must not assert anything about the path of the worktree.

DELIVERABLES (in {wt}):
  - patch18.diff, patch19.diff : each the `git diff -- src` of ONE change alone against the clean tree (demo files NOT included), applicable with `git apply`
  - demo18.py, demo19.py
  - notes.md : for each patch: style, which clause of the property it breaks, what it needs in order to manifest, the exact commands you ran and their results
Before finishing, VERIFY for each patch: (1) full suite passes with the patch applied (438 passed), (2) demo fails with the patch, (3) demo passes on the clean tree. Leave the worktree's src/ CLEAN at the end, with the patch/demo/notes files untracked in {wt}.
Report back one short paragraph per patch (what it changes, why tests miss it, how the demo triggers it).""")
