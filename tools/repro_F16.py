#!/venv/bin/python
"""F16 (C13, a row of the clean tree that has the shape of seed C13-11): half-closeable subchannel, the LOCAL side closes its write half
first.  Row `open_half.upon(local_close, enter=write_closed, outputs=[signal_writeConnectionLost, send_close])` runs the application's
writeConnectionLost() before CLOSE is sent.  Automat has already entered write_closed when the outputs run, so if that callback raises,
send_close is skipped and can never be repeated: the peer never learns that this side stopped writing (it never gets
readConnectionLost, and after it closes its own half it waits for a connectionLost that never comes).  The sibling row
`read_closed.upon(local_close, ..)` sends CLOSE first.
Run: PYTHONPATH=<tree>/src /venv/bin/python tools/repro_F16.py   (exit 1 = defect present, 0 = absent)"""
import sys
from unittest import mock
from zope.interface import directlyProvides, alsoProvides
from twisted.internet.interfaces import IHalfCloseableProtocol
from wormhole._interfaces import IDilationManager
from wormhole._dilation.subchannel import SubChannel, _WormholeAddress, SubchannelAddress

m = mock.Mock()
alsoProvides(m, IDilationManager)
sc = SubChannel(4, m, _WormholeAddress(), SubchannelAddress("proto"))
p = mock.Mock()
directlyProvides(p, IHalfCloseableProtocol)
p.writeConnectionLost.side_effect = RuntimeError("application bug in writeConnectionLost")
sc._set_protocol(p)
try:
    sc.loseWriteConnection()
except RuntimeError:
    pass                      # the application sees its own exception
sent = [c for c in m.mock_calls if c[0] == "send_close"]
print("CLOSE sent to the peer:", bool(sent), "; application told:", p.writeConnectionLost.called)
raise SystemExit(0 if sent else 1)
