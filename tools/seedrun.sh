#!/bin/bash
# usage: tools/seedrun.sh <patch.diff> <prop> [<prop> ...]
# applies the patch to /repo, runs the quick checks (no evidence rewrite side effects matter: rerun afterwards), restores /repo
set -u
patch="$1"; shift
cd /repo || exit 9
if ! git diff --quiet; then echo "/repo has uncommitted changes; refusing"; exit 9; fi
if ! git apply --check "$patch" 2>/dev/null; then
  if ! git apply --3way --check "$patch" 2>/dev/null; then echo "PATCH-DOES-NOT-APPLY $patch"; exit 8; fi
  git apply --3way "$patch" >/dev/null 2>&1; git reset -q
else
  git apply "$patch"
fi
cd /verif
rc=0
for p in "$@"; do
  out=$(VERIF_NOWRITE=1 ./vcheck "$p" 2>&1); code=$?
  echo "== $p exit=$code"
  echo "$out" | grep -E "^(VIOLATION|ANALYSIS-ERROR|KNOWN|  what|  rule)" | head -12
done
git -C /repo checkout -- . ; git -C /repo status --short | head -3
