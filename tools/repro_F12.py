#!/venv/bin/python
"""F12 (C15, inbound flow control; interface disagreement between two modules): Inbound pauses / resumes the peer connection with
`self._connection.pauseProducing()` / `.resumeProducing()`, and the object it is given (Manager.connector_connection_made ->
Inbound.use_connection(c)) is a DilatedConnectionProtocol, a twisted Protocol that defines neither method.  An application protocol on
a subchannel that calls `self.transport.pauseProducing()` while a connection exists gets an AttributeError instead of back-pressure
(the unit tests hand Inbound a mock connection).
Run: PYTHONPATH=<tree>/src /venv/bin/python tools/repro_F12.py   (exit 1 = defect present, 0 = absent)"""
import sys
from unittest import mock
from zope.interface import alsoProvides
from twisted.internet.interfaces import ITransport
from wormhole._interfaces import IDilationManager, IDilationConnector
from wormhole._dilation.inbound import Inbound
from wormhole._dilation.connection import DilatedConnectionProtocol
from wormhole._dilation.roles import LEADER
from wormhole._dilation.subchannel import _WormholeAddress
from wormhole.eventual import EventualQueue
from twisted.internet.task import Clock

eq = EventualQueue(Clock())
connector = mock.Mock()
alsoProvides(connector, IDilationConnector)
noise = mock.Mock()
p = DilatedConnectionProtocol(eq, LEADER, "desc", connector, noise, b"out\n", b"in\n")
transport = mock.Mock()
alsoProvides(transport, ITransport)
p.transport = transport           # as makeConnection() does

manager = mock.Mock()
alsoProvides(manager, IDilationManager)
i = Inbound(manager, _WormholeAddress())
i.use_connection(p)               # what Manager.connector_connection_made does with the selected connection
sc = mock.Mock()
try:
    i.subchannel_pauseProducing(sc)       # SubChannel.pauseProducing() -> manager -> here
    i.subchannel_resumeProducing(sc)
except AttributeError as e:
    print("DEFECT:", e)
    sys.exit(1)
names = [c[0] for c in transport.mock_calls]
assert names == ["pauseProducing", "resumeProducing"], names
print("inbound back-pressure reaches the transport:", names)
sys.exit(0)
