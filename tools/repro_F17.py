#!/venv/bin/python
"""F17 (C17, noted in passing by a round-6 sub-agent): Dilator.stop() calls Manager.stop() and only afterwards attaches
`when_stopped().addCallback(lambda _: T.stoppedD())`.  Manager.stop() runs the application's status callback (StoppedPeer) as the last
output of its row; if that callback raises, the exception leaves Dilator.stop() before the callback is attached: the Manager IS stopped
(notify_stopped ran first), but the Terminator never hears stoppedD and the wormhole's closed notification never fires.
Run: PYTHONPATH=<tree>/src /venv/bin/python tools/repro_F17.py   (exit 1 = defect present, 0 = absent)"""
import sys
from unittest import mock
from twisted.internet.task import Clock, Cooperator
from zope.interface import alsoProvides
from wormhole.eventual import EventualQueue
from wormhole._interfaces import ISend, ITerminator
from wormhole._dilation.manager import Dilator
from wormhole._status import StoppedPeer

clock = Clock()
eq = EventualQueue(clock)
coop = Cooperator(scheduler=eq.eventually)
send = mock.Mock(); alsoProvides(send, ISend)
term = mock.Mock(); alsoProvides(term, ITerminator)
dil = Dilator(clock, eq, coop, ["ged"])
dil.wire(send, term)


def status(st):
    if isinstance(st.peer_connection, StoppedPeer):
        raise KeyError("application bug: no label for StoppedPeer")


dil.got_key(b"k" * 32)
dil.dilate(status_update=status)
dil.got_wormhole_versions({"can-dilate": ["ged"]})       # Manager: WANTING
from wormhole.util import dict_to_bytes
with mock.patch("wormhole._dilation.manager.Connector", return_value=mock.Mock()):
    dil.received_dilate(dict_to_bytes({"type": "please", "side": "0" * 16, "use-version": "ged"}))     # Manager: CONNECTING
try:
    dil.stop()                                           # what Terminator.stop_dilator does
except KeyError:
    pass
for _ in range(3):
    clock.advance(1)
    eq.flush_sync()
told = [c for c in term.mock_calls if c[0] == "stoppedD"]
print("Terminator told stoppedD:", bool(told))
raise SystemExit(0 if told else 1)
