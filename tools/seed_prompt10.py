#!/usr/bin/env python3
"""Round-10 adversary prompt for one property: work moved to another reactor turn, and "equivalent" API substitution. Only the property text goes in."""
import json, sys
pid, wt = sys.argv[1], sys.argv[2]
prop = [json.loads(l) for l in open('/verif/properties.jsonl') if json.loads(l)['id'] == pid][0]
print(f"""You are playing the adversary for a verification experiment on the magic-wormhole Python library (Twisted/Automat, PAKE-secured file transfer).

Your own scratch git worktree of the repository is at {wt} . Do ALL work there. Never modify or read anything under /repo or /verif (they are off limits); do not use the network (there is none). Do not use `git stash` (the worktree shares its git directory; undo with `git checkout -- src`) and do not kill processes you did not start.

How to run things:
  - interpreter: /venv/bin/python  (has twisted, automat, pytest, hypothesis, spake2, pynacl ... installed)
  - ALWAYS set PYTHONPATH={wt}/src so that `import wormhole` resolves to YOUR worktree, e.g.
      cd {wt} && PYTHONPATH={wt}/src /venv/bin/python -m pytest -q -p no:cacheprovider --timeout=900 -n 4
    On the unmodified tree this gives "438 passed, 31 skipped" in about 15 s.

The property under test (this is all you are given):

{json.dumps(prop, indent=1)}

TASK. Produce TWO changes to the library source (files under src/wormhole, NOT under src/wormhole/test), each of which BREAKS this property while the code still imports/compiles and the WHOLE existing test suite still passes (438 passed). Each must be a realistic regression (something a plausible commit could contain) and must need something specific to manifest; not something the happy path exposes at once. The two changes must be of these two prescribed STYLES and must attack DIFFERENT clauses/mechanisms of the property:

  patch20.diff - TURN SHIFT: the change moves WHEN something happens relative to the reactor turn, without changing WHAT is done: a synchronous call becomes `reactor.callLater(0, ..)` / `eventual_queue.eventually(..)` / `deferLater(..)` / `d.addCallback(..)` on an already-fired Deferred (or the reverse: something that was deferred to a later turn is now done at once); a notification is delivered before instead of after the state it reports was updated (or after instead of before); a `yield` / `await` point is added or removed in an inlineCallbacks function so that other events can (or can no longer) interleave; a callback is fired directly instead of through the eventual queue; a loop that handled all queued items in one turn now handles one per turn (or the reverse). With nothing else happening in between, the result is the same. The property breaks when something specific arrives, is called, or is cancelled in the newly opened (or newly closed) window: a second message in the same TCP segment, a close() in between, a re-entrant call from the application's callback, a connection loss before the deferred part runs, two events whose relative order now depends on the queue. Your demo must produce exactly that interleaving on the real objects (use twisted.internet.task.Clock and drive the turns yourself).

  patch21.diff - "EQUIVALENT" API SUBSTITUTION: a library / builtin call is replaced by another that a reviewer would take for equivalent, and is not for some inputs: `binascii.hexlify/unhexlify` <-> `bytes.hex()/bytes.fromhex()` (whitespace, odd length, str vs bytes), `int(x, 16)` <-> `int.from_bytes`, `struct.pack` formats, `json.dumps(..).encode()` options (sort_keys, separators, ensure_ascii), `str.split("-")` <-> `str.partition` / `rsplit` / `split("-", 1)`, `re.match` <-> `re.search` <-> `re.fullmatch`, `^..$` <-> `\\A..\\Z`, `str.isdigit` <-> `isdecimal` <-> `[0-9]`, `os.path.join/abspath/normpath/realpath/basename` <-> each other or pathlib, `startswith(dir)` <-> `commonpath`, `dict.get(k) or default` <-> `dict.get(k, default)`, `x in list` <-> `x in set/dict` (hashability), `sorted` <-> `list.sort` / `max` / `min` with ties, `==` <-> `is`, `hmac.compare_digest` <-> `==`, `os.urandom` <-> `random`, `unicodedata.normalize` forms, `str.lower()` <-> `casefold()`, `bytes + bytes` <-> `bytearray` (aliasing), `dict(a, **b)` <-> `{{**b, **a}}` (precedence), `zip` <-> `zip_longest`, `time.time` <-> `reactor.seconds`, `Deferred.addBoth` <-> `addCallback`, `callback` <-> `errback`, `loseConnection` <-> `abortConnection`, `discard` <-> `remove`, `list(d)` <-> iterating `d` directly. The common inputs give the same result; the property breaks for a specific legal (or attacker-chosen) input: an empty string, a trailing newline, a non-ASCII digit, an odd-length hex string, a duplicate, a tie, a name with several separators, a falsy-but-present value. Your demo must feed exactly that input to the real code.

Avoid the most obvious spot for this property (the first function anyone would look at); prefer a collaborator, a less-travelled row of a state machine, or a helper. Keep each change small (a few lines).

For each, write a DEMONSTRATION: a stand-alone script (demo20.py / demo21.py, run as `cd {wt} && PYTHONPATH={wt}/src /venv/bin/python demo20.py`) that exits non-zero WITH the change and exits 0 WITHOUT it, by exercising the real library code (drive the real classes with fakes/mocks for the network where needed, e.g. twisted.internet.task.Clock, fake transports, mock.Mock for neighbours as the existing tests do). The demo must show the behavioural violation of the property (not just that the source text differs), and must not assert anything about the path of the worktree.

DELIVERABLES (in {wt}):
  - patch20.diff, patch21.diff : each the `git diff -- src` of ONE change alone against the clean tree (demo files NOT included), applicable with `git apply`
  - demo20.py, demo21.py
  - notes.md : for each patch: style, which clause of the property it breaks, what it needs in order to manifest, the exact commands you ran and their results
Before finishing, VERIFY for each patch: (1) full suite passes with the patch applied (438 passed), (2) demo fails with the patch, (3) demo passes on the clean tree. Leave the worktree's src/ CLEAN at the end, with the patch/demo/notes files untracked in {wt}.
Report back one short paragraph per patch (what it changes, why tests miss it, how the demo triggers it).""")
