#!/venv/bin/python
"""Print the markdown table of filed seeds (from seeded/*/meta.json + patch.diff). usage: seed_table.py [k ...]  (e.g. 3 4)"""
import glob, json, os, re, sys
ks = set(sys.argv[1:])
rows = []
for d in sorted(glob.glob("/verif/seeded/C*-*")):
    name = os.path.basename(d)
    if ks and name.split("-")[1] not in ks:
        continue
    m = json.load(open(os.path.join(d, "meta.json")))
    files = sorted(set(re.findall(r"^\+\+\+ b/src/wormhole/(\S+)", open(os.path.join(d, "patch.diff")).read(), re.M)))
    own = m["checks_reporting"].get(m["property"], [])
    others = sorted(k for k in m["checks_reporting"] if k != m["property"] and "analysis-error" not in k)
    rows.append("| %s | %s | %s | %s |" % (name, ", ".join(files), "; ".join("`%s`" % k[:110] for k in own[:2]) or "**not reported**",
                                          ", ".join(others) or "-"))
print("| seed | files changed | reported by its own property's check (first keys) | also reported by |\n|---|---|---|---|")
print("\n".join(rows))
