#!/usr/bin/env python3
"""Round-7 adversary prompt for one property: particular interleaving / re-entrancy, and unusual input / boundary value. Only the property text goes in."""
import json, sys
pid, wt = sys.argv[1], sys.argv[2]
prop = [json.loads(l) for l in open('/verif/properties.jsonl') if json.loads(l)['id'] == pid][0]
print(f"""You are playing the adversary for a verification experiment on the magic-wormhole Python library (Twisted/Automat, PAKE-secured file transfer).

Your own scratch git worktree of the repository is at {wt} . Do ALL work there. Never modify or read anything under /repo or /verif (they are off limits); do not use the network (there is none). Do not use `git stash` (the worktree shares its git directory; undo with `git checkout -- src`) and do not kill processes you did not start.

How to run things:
  - interpreter: /venv/bin/python  (has twisted, automat, pytest, hypothesis, spake2, pynacl ... installed)
  - ALWAYS set PYTHONPATH={wt}/src so that `import wormhole` resolves to YOUR worktree, e.g.
      cd {wt} && PYTHONPATH={wt}/src /venv/bin/python -m pytest -q -p no:cacheprovider --timeout=900 -n 4
    On the unmodified tree this gives "438 passed, 31 skipped" in about 15 s.

The property under test (this is all you are given):

{json.dumps(prop, indent=1)}

TASK. Produce TWO changes to the library source (files under src/wormhole, NOT under src/wormhole/test), each of which BREAKS this property while the code still imports/compiles and the WHOLE existing test suite still passes (438 passed). Each must be a realistic regression (something a plausible commit could contain) and must need something specific to manifest; not something the happy path exposes at once. The two changes must be of these two prescribed STYLES and must attack DIFFERENT clauses/mechanisms of the property:

  patch13.diff - PARTICULAR INTERLEAVING / RE-ENTRANCY: the change is harmless under the usual order of events and breaks the property only under ONE specific but legal ordering of independent events: two events that normally arrive A-then-B arriving B-then-A (a reply overtaking another, a timer firing in the same reactor turn as a message, the peer's message arriving before our own echo, connection N+1 established before connection N is reported lost); a callback that RE-ENTERS the object that is calling it (the application calling send / close / write / pauseProducing / get_* from inside a delivery callback, a state-machine output that feeds an input back into the same or an upstream machine); an API call made between two halves of an internal hand-over (after X was recorded but before Y was notified); two operations started concurrently whose completions cross. Typical shapes: a check-then-act whose check is now stale, iteration over a container that the callee mutates, state updated after instead of before the outgoing call, a flag read in a different turn than it is written, a hand-over that was atomic and is now split over two reactor turns. Your demo must construct exactly that ordering (deterministically: drive the real classes by hand with a Clock / EventualQueue / fake transports, no sleeping, no real sockets, no threads racing).

  patch14.diff - UNUSUAL INPUT / BOUNDARY VALUE: the change is correct for every ordinary value and breaks the property only for a legal but unusual input or at a boundary: empty (b"", "", [], {{}}, zero-length file/record/write, zero words), exactly at a size limit or one past it (a payload of exactly N or N+1 bytes where N is a frame / chunk / Noise packet / length-prefix limit), the first or last value of a counter range (0, 1, 2**32-1), maximum or minimum numeric fields, non-ASCII / non-BMP / combining / un-normalised Unicode, bytes vs str, names containing separators, dots, NULs or trailing whitespace/newlines, duplicate or permuted list entries, very long values, unusual-but-valid JSON types (bool where int is expected, float with integral value, nested empties), an equal-priority tie, a value equal to a sentinel the code uses internally (None, 0, "", -1), a phase/side/subchannel id that collides with a reserved one. Typical shapes: `<` vs `<=`, truthiness test where `is None` was meant, slicing off by one, a default that is also a legal value, a format/parse pair that disagrees only at the edge, a regular expression or split that treats one character differently. Your demo must feed exactly that input.

Avoid the most obvious spot for this property (the first function anyone would look at); prefer a collaborator, a less-travelled row of a state machine, or a helper. Keep each change small (a few lines).

For each, write a DEMONSTRATION: a stand-alone script (demo13.py / demo14.py, run as `cd {wt} && PYTHONPATH={wt}/src /venv/bin/python demo13.py`) that exits non-zero WITH the change and exits 0 WITHOUT it, by exercising the real library code (drive the real classes with fakes/mocks for the network where needed, e.g. twisted.internet.task.Clock, fake transports, mock.Mock for neighbours as the existing tests do). The demo must show the behavioural violation of the property (not just that the source text differs), and must not assert anything about the path of the worktree.

DELIVERABLES (in {wt}):
  - patch13.diff, patch14.diff : each the `git diff -- src` of ONE change alone against the clean tree (demo files NOT included), applicable with `git apply`
  - demo13.py, demo14.py
  - notes.md : for each patch: style, which clause of the property it breaks, what it needs in order to manifest, the exact commands you ran and their results
Before finishing, VERIFY for each patch: (1) full suite passes with the patch applied (438 passed), (2) demo fails with the patch, (3) demo passes on the clean tree. Leave the worktree's src/ CLEAN at the end, with the patch/demo/notes files untracked in {wt}.
Report back one short paragraph per patch (what it changes, why tests miss it, how the demo triggers it).""")
