#!/venv/bin/python
"""Confirm a seeded change myself and file it under /verif/seeded/<id>-<k>/.

For each seed (property id, k): fresh scratch worktree of /repo HEAD (outside /repo and /verif), apply the patch
(the sub-agent's patch, or a hand-rebased one when the tree has moved on), then
  1. the pinned test suite on the patched tree must pass (438 passed),
  2. the demonstration must FAIL on the patched tree and PASS on the clean tree,
  3. every check of /verif is run against the patched tree (VERIF_REPO=<worktree>, evidence not rewritten).
Writes patch.diff, the demo and meta.json; removes the worktree.
"""
import json
import os
import re
import shutil
import subprocess
import sys
from concurrent.futures import ThreadPoolExecutor

VERIF = "/verif"
SEED = os.environ.get("SEED_DIR", "/tmp/seed")
SCRATCH = "/tmp/sv"
PY = "/venv/bin/python"


def sh(cmd, cwd=None, env=None, timeout=1800):
    e = dict(os.environ)
    e.update(env or {})
    p = subprocess.run(cmd, shell=True, cwd=cwd, env=e, stdout=subprocess.PIPE, stderr=subprocess.STDOUT, text=True, timeout=timeout)
    return p.returncode, p.stdout


def verify(pid, k):
    src = os.path.join(SEED, pid)
    cand = [os.path.join(src, "patch%d.rebased.diff" % k), os.path.join(src, "patch%d.diff" % k)]
    demo = os.path.join(src, "demo%d.py" % k)
    wt = os.path.join(SCRATCH, "%s_%d" % (pid, k))
    meta = {"seed": "%s-%d" % (pid, k), "property": pid, "source": "fresh sub-agent given only the property text and its own worktree"}
    os.makedirs(SCRATCH, exist_ok=True)
    sh("git -C /repo worktree remove --force %s" % wt)
    rc, out = sh("git -C /repo worktree add --detach %s HEAD -q" % wt)
    if rc:
        meta["error"] = "worktree: " + out
        return meta
    try:
        patch = None
        for c in cand:
            if os.path.exists(c) and sh("git apply --check %s" % c, cwd=wt)[0] == 0:
                patch = c
                break
        if patch is None:
            meta["error"] = "patch does not apply to the current tree (needs a hand rebase)"
            return meta
        meta["patch_used"] = os.path.basename(patch)
        env = {"PYTHONPATH": os.path.join(wt, "src")}
        # demo on the clean tree
        rc_clean, out_clean = sh("%s %s" % (PY, demo), cwd=wt, env=env, timeout=900)
        sh("git apply %s" % patch, cwd=wt)
        rc_p, out_p = sh("%s %s" % (PY, demo), cwd=wt, env=env, timeout=900)
        rc_s, out_s = sh("%s -m pytest -q -p no:cacheprovider --timeout=900 -n 4" % PY, cwd=wt, env=env, timeout=1800)
        m = re.search(r"(\d+) passed", out_s)
        meta["suite_with_patch"] = out_s.strip().splitlines()[-1] if out_s.strip() else ""
        meta["suite_passed"] = bool(m) and int(m.group(1)) == 438 and "failed" not in meta["suite_with_patch"]
        meta["demo_clean_exit"] = rc_clean
        meta["demo_patched_exit"] = rc_p
        meta["demo_patched_tail"] = out_p.strip().splitlines()[-3:]
        meta["confirmed"] = meta["suite_passed"] and rc_clean == 0 and rc_p != 0
        # all checks against the patched tree
        rc_v, out_v = sh("./vcheck all", cwd=VERIF, env={"VERIF_REPO": wt, "VERIF_NOWRITE": "1"}, timeout=3600)
        caught = {}
        cur = None
        for line in out_v.splitlines():
            mm = re.match(r"VIOLATION property=(C\d+)", line)
            if mm:
                cur = mm.group(1)
                caught.setdefault(cur, [])
            mk = re.match(r"\s+rule=(\S+) key=(.*)", line)
            if mk and cur:
                caught[cur].append(mk.group(2)[:160])
            me = re.match(r"ANALYSIS-ERROR property=(C\d+) (.*)", line)
            if me:
                caught.setdefault(me.group(1) + "(analysis-error)", []).append(me.group(2)[:160])
        meta["checks_reporting"] = caught
        meta["caught_by_own_property"] = pid in caught
        # file it
        dst = os.path.join(VERIF, "seeded", "%s-%d" % (pid, k))
        os.makedirs(dst, exist_ok=True)
        rc, diff = sh("git diff -- src", cwd=wt)
        with open(os.path.join(dst, "patch.diff"), "w") as fh:
            fh.write(diff)
        shutil.copy(demo, os.path.join(dst, "demo.py"))
        notes = os.path.join(src, "notes.md")
        if os.path.exists(notes):
            shutil.copy(notes, os.path.join(dst, "agent_notes.md"))
        meta["what_i_ran"] = ["git worktree add --detach <scratch> HEAD; git apply patch.diff",
                              "PYTHONPATH=<scratch>/src /venv/bin/python -m pytest -q -p no:cacheprovider --timeout=900 -n 4   (pinned suite)",
                              "PYTHONPATH=<scratch>/src /venv/bin/python demo.py   on the clean and on the patched tree",
                              "VERIF_REPO=<scratch> VERIF_NOWRITE=1 ./vcheck all"]
        return meta
    finally:
        sh("git -C /repo worktree remove --force %s" % wt)
        shutil.rmtree(wt, ignore_errors=True)


def main():
    seeds = []
    args = sys.argv[1:]
    if args:
        for a in args:
            pid, k = a.split("-")
            seeds.append((pid, int(k)))
    else:
        for i in range(1, 21):
            for k in (1, 2, 3, 4, 5, 6):
                if os.path.exists(os.path.join(SEED, "C%02d" % i, "patch%d.diff" % k)):
                    seeds.append(("C%02d" % i, k))
    with ThreadPoolExecutor(max_workers=5) as ex:
        for meta in ex.map(lambda s: verify(*s), seeds):
            dst = os.path.join(VERIF, "seeded", meta["seed"])
            if "error" not in meta:
                with open(os.path.join(dst, "meta.json"), "w") as fh:
                    json.dump(meta, fh, indent=1)
            print(meta["seed"], "ERROR " + meta["error"] if "error" in meta else
                  "confirmed=%s suite=%s demo(clean,patched)=(%s,%s) caught_by_own=%s reporting=%s" % (
                      meta["confirmed"], meta["suite_passed"], meta["demo_clean_exit"], meta["demo_patched_exit"],
                      meta["caught_by_own_property"], sorted(meta["checks_reporting"])), flush=True)


if __name__ == "__main__":
    main()
