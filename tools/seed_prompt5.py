#!/usr/bin/env python3
"""Round-5 adversary prompt for one property: two cooperating sites, and free-style hardest-to-spot. Only the property text goes in."""
import json, sys
pid, wt = sys.argv[1], sys.argv[2]
prop = [json.loads(l) for l in open('/verif/properties.jsonl') if json.loads(l)['id'] == pid][0]
print(f"""You are playing the adversary for a verification experiment on the magic-wormhole Python library (Twisted/Automat, PAKE-secured file transfer).

Your own scratch git worktree of the repository is at {wt} . Do ALL work there. Never modify or read anything under /repo or /verif (they are off limits); do not use the network (there is none). Do not use `git stash` (the worktree shares its git directory; undo with `git checkout -- src`) and do not kill processes you did not start.

How to run things:
  - interpreter: /venv/bin/python  (has twisted, automat, pytest, hypothesis, spake2, pynacl ... installed)
  - ALWAYS set PYTHONPATH={wt}/src so that `import wormhole` resolves to YOUR worktree, e.g.
      cd {wt} && PYTHONPATH={wt}/src /venv/bin/python -m pytest -q -p no:cacheprovider --timeout=900 -n 4
    On the unmodified tree this gives "438 passed, 31 skipped" in about 15 s.

The property under test (this is all you are given):

{json.dumps(prop, indent=1)}

TASK. Produce TWO changes to the library source (files under src/wormhole, NOT under src/wormhole/test), each of which BREAKS this property while the code still imports/compiles and the WHOLE existing test suite still passes (438 passed). Each must be a realistic regression (something a plausible commit could contain) and must need something specific to manifest; not something the happy path exposes at once. The two changes must be of these two prescribed STYLES and must attack DIFFERENT clauses/mechanisms of the property:

  patch9.diff - TWO COOPERATING SITES: two small edits in two DIFFERENT functions (better: different classes or files), each of which is harmless and plausible on its own - applied alone, each leaves the property intact (your demo must pass with either half alone) - but together they break the property. Typical shapes: one site relaxes an invariant that the other site silently relied on; a producer changes the representation / unit / ordering / default of a value and one of its consumers is "forgotten"; a check is moved from callee to caller and one caller is missed; a state update is moved into a helper that one path does not call; a cache / flag / counter gets a second writer. In notes.md say which half is which and show that each alone is benign.

  patch10.diff - YOUR BEST SHOT: the single most deceptive regression you can find for this property, of any kind - the one you believe a careful human reviewer AND a code-aware static checker that knows this code base well would both wave through. Think of: arithmetic / boundary / encoding details, values that are only wrong for rare inputs, aliasing and shared mutable defaults, iteration order of sets and dicts, re-entrancy through callbacks, exceptions that change which later statements run, Deferred / eventual-queue timing, state that survives a reconnect (or fails to), Python truthiness (0, b"", empty containers, None), integer vs string comparison, default arguments, late binding in closures, class-level vs instance-level attributes. It should need a specific input, schedule, fault or multi-step history to manifest.

Avoid the most obvious spot for this property (the first function anyone would look at); prefer a collaborator, a less-travelled row of a state machine, or a helper. Keep each change small (a few lines per site).

For each, write a DEMONSTRATION: a stand-alone script (demo9.py / demo10.py, run as `cd {wt} && PYTHONPATH={wt}/src /venv/bin/python demo9.py`) that exits non-zero WITH the change and exits 0 WITHOUT it, by exercising the real library code (drive the real classes with fakes/mocks for the network where needed, e.g. twisted.internet.task.Clock, fake transports, mock.Mock for neighbours as the existing tests do). The demo must show the behavioural violation of the property (not just that the source text differs), and must not assert anything about the path of the worktree.

DELIVERABLES (in {wt}):
  - patch9.diff, patch10.diff : each the `git diff -- src` of ONE change alone against the clean tree (demo files NOT included), applicable with `git apply`
  - demo9.py, demo10.py
  - notes.md : for each patch: style, which clause of the property it breaks, what it needs in order to manifest, the exact commands you ran and their results
Before finishing, VERIFY for each patch: (1) full suite passes with the patch applied (438 passed), (2) demo fails with the patch, (3) demo passes on the clean tree. Leave the worktree's src/ CLEAN at the end, with the patch/demo/notes files untracked in {wt}.
Report back one short paragraph per patch (what it changes, why tests miss it, how the demo triggers it).""")
