#!/usr/bin/env python3
"""Prompt for a sub-agent that writes BEHAVIOUR-PRESERVING refactorings (false-alarm probes). Only the property text goes in."""
import json, sys
pid, wt = sys.argv[1], sys.argv[2]
prop = [json.loads(l) for l in open('/verif/properties.jsonl') if json.loads(l)['id'] == pid][0]
print(f"""You are helping to test a verification effort for the magic-wormhole Python library (Twisted/Automat, PAKE-secured file transfer) by playing a careful MAINTAINER.

Your own scratch git worktree of the repository is at {wt} . Do ALL work there. Never modify or read anything under /repo or /verif (off limits); there is no network.

How to run things:
  - interpreter: /venv/bin/python ; ALWAYS set PYTHONPATH={wt}/src so that `import wormhole` resolves to YOUR worktree, e.g.
      cd {wt} && PYTHONPATH={wt}/src /venv/bin/python -m pytest -q -p no:cacheprovider --timeout=900 -n 4
    On the unmodified tree this gives "438 passed, 31 skipped" in about 15 s.

A semantic property of the library (this is all you are given about the verification effort):

{json.dumps(prop, indent=1)}

TASK. Produce FOUR independent BEHAVIOUR-PRESERVING refactorings of the source code that implements this property (the files under "anchors", i.e. library code under src/wormhole, NOT tests). Each must leave the observable behaviour of the library exactly as it is - the property above must obviously still hold, no API or wire-format change - and the whole test suite must still pass (438 passed). They should be realistic maintenance edits a reviewer would accept, of DIFFERENT kinds, and they should touch the very code the property's mechanisms rely on (not unrelated code). Ideas - use a different kind for each:
  1. rename locals / parameters / private helper methods / Automat output methods or states consistently (keep public API names and anything tests reference);
  2. extract a helper method or inline one; hoist a sub-expression into a local or inline a local; split one statement into two;
  3. rewrite control flow equivalently (if/else inversion with early return, `if not a: raise` <-> `if a: ... else: raise`, loop <-> comprehension, elif chain <-> dict dispatch or nested ifs, De Morgan, comparison flipped with swapped operands);
  4. replace an idiom by an equivalent one (`"%d" % x` <-> f-string or str(x), `d.pop(k)` <-> `v = d[k]; del d[k]`, list used as queue <-> collections.deque with the matching pop side, `x[:] = []` <-> `x.clear()`, struct/hex formatting equivalents, constants moved to module level or given a name);
  5. reorder independent statements / independent table rows / independent dict keys; add logging, comments, type hints, docstrings, assertions that cannot fail;
  6. move a function between classes/modules of the same package with its call sites updated (only if tests do not import it from the old place).
Make each refactoring substantial enough to matter (several lines, in the heart of the mechanism), but keep behaviour identical. Do NOT fix bugs, do NOT change behaviour "for the better", do NOT touch tests.

DELIVERABLES (in {wt}): refactor1.diff .. refactor4.diff - each the `git diff -- src` of ONE refactoring alone against the clean tree (applicable with `git apply`), plus notes.md saying for each: what kind of edit, which functions, why behaviour is unchanged, and the result of the full test suite with it applied (must be 438 passed). Verify each one separately: apply it to the clean tree, run the full suite, save the diff, then `git checkout -- src`. Leave src/ clean at the end.
Report back one short paragraph per refactoring.""")
