#!/venv/bin/python
"""Quick confirmation of freshly delivered seeds (used for round 10, when time was short): like verify_seed.py (scratch worktree, pinned
suite on the patched tree, demo on the clean and on the patched tree, files seeded/<id>-<k>/) but only the seed's OWN property check is
run against the patched tree; tools/refresh_meta.py fills in the neighbours afterwards.
usage: SEED_DIR=/tmp/seed fastverify.py <k> [<k> ...]      e.g. fastverify.py 20 21"""
import json
import os
import re
import shutil
import subprocess
import sys
from concurrent.futures import ThreadPoolExecutor

SEED = os.environ.get("SEED_DIR", "/tmp/seed")
PY = "/venv/bin/python"
ROUND = int(os.environ.get("SEED_ROUND", "10"))


def sh(cmd, cwd=None, env=None, timeout=1500):
    e = dict(os.environ)
    e.update(env or {})
    try:
        p = subprocess.run(cmd, shell=True, cwd=cwd, env=e, stdout=subprocess.PIPE, stderr=subprocess.STDOUT, text=True, timeout=timeout)
        return p.returncode, p.stdout
    except subprocess.TimeoutExpired:
        return 124, "TIMEOUT"


def verify(a):
    pid, k = a
    src = os.path.join(SEED, pid)
    patch = os.path.join(src, "patch%d.diff" % k)
    demo = os.path.join(src, "demo%d.py" % k)
    wt = "/tmp/sv/%s_%d" % (pid, k)
    os.makedirs("/tmp/sv", exist_ok=True)
    sh("git -C /repo worktree remove --force %s" % wt)
    sh("git -C /repo worktree add --detach %s HEAD -q" % wt)
    meta = {"seed": "%s-%d" % (pid, k), "property": pid, "breaks_property": pid, "round": ROUND,
            "source": "fresh sub-agent given only the property text and its own worktree", "patch_used": os.path.basename(patch)}
    try:
        env = {"PYTHONPATH": os.path.join(wt, "src")}
        rc_clean, _ = sh("%s %s" % (PY, demo), cwd=wt, env=env, timeout=600)
        if sh("git apply %s" % patch, cwd=wt)[0]:
            meta["error"] = "patch does not apply"
            return meta
        rc_p, out_p = sh("%s %s" % (PY, demo), cwd=wt, env=env, timeout=600)
        rc_s, out_s = sh("%s -m pytest -q -p no:cacheprovider --timeout=300 -n 3" % PY, cwd=wt, env=env, timeout=1200)
        m = re.search(r"(\d+) passed", out_s)
        last = out_s.strip().splitlines()[-1] if out_s.strip() else ""
        meta.update(suite_with_patch=last, suite_passed=bool(m) and int(m.group(1)) == 438 and "failed" not in last,
                    demo_clean_exit=rc_clean, demo_patched_exit=rc_p, demo_patched_tail=out_p.strip().splitlines()[-3:])
        meta["confirmed"] = meta["suite_passed"] and rc_clean == 0 and rc_p != 0
        rc_v, out_v = sh("./vcheck %s" % pid, cwd="/verif", env={"VERIF_REPO": wt, "VERIF_NOWRITE": "1"}, timeout=900)
        keys = [mk.group(2)[:160] for mk in (re.match(r"\s+rule=(\S+) key=(.*)", l) for l in out_v.splitlines()) if mk]
        ae = [l[:160] for l in out_v.splitlines() if l.startswith("ANALYSIS-ERROR")]
        meta["checks_reporting"] = {pid: keys} if keys else ({pid + "(analysis-error)": ae} if ae else {})
        meta["caught_by_own_property"] = bool(keys)
        dst = "/verif/seeded/%s-%d" % (pid, k)
        os.makedirs(dst, exist_ok=True)
        with open(os.path.join(dst, "patch.diff"), "w") as fh:
            fh.write(sh("git diff -- src", cwd=wt)[1])
        shutil.copy(demo, os.path.join(dst, "demo.py"))
        if os.path.exists(os.path.join(src, "notes.md")):
            shutil.copy(os.path.join(src, "notes.md"), os.path.join(dst, "agent_notes.md"))
        meta["what_i_ran"] = ["git worktree add --detach <scratch> HEAD; git apply patch.diff",
                              "PYTHONPATH=<scratch>/src /venv/bin/python -m pytest -q -p no:cacheprovider --timeout=300 -n 3   (pinned suite)",
                              "PYTHONPATH=<scratch>/src /venv/bin/python demo.py   on the clean and on the patched tree",
                              "VERIF_REPO=<scratch> VERIF_NOWRITE=1 ./vcheck <own property>"]
        with open(os.path.join(dst, "meta.json"), "w") as fh:
            json.dump(meta, fh, indent=1)
        return meta
    finally:
        sh("git -C /repo worktree remove --force %s" % wt)
        shutil.rmtree(wt, ignore_errors=True)


def main():
    ks = [int(a) for a in sys.argv[1:]]
    seeds = [("C%02d" % i, k) for i in range(1, 21) for k in ks if os.path.exists(os.path.join(SEED, "C%02d" % i, "patch%d.diff" % k))]
    with ThreadPoolExecutor(max_workers=int(os.environ.get("VERIF_JOBS", "7"))) as ex:
        for m in ex.map(verify, seeds):
            print(m["seed"], m.get("error") or "confirmed=%s suite=%s demo=(%s,%s) own=%s %s" % (
                m["confirmed"], m["suite_passed"], m["demo_clean_exit"], m["demo_patched_exit"], m["caught_by_own_property"],
                (list(m["checks_reporting"].values()) or [[""]])[0][:2]), flush=True)


if __name__ == "__main__":
    main()
