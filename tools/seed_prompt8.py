#!/usr/bin/env python3
"""Round-8 adversary prompt for one property: option / mode dependent, and resource lifecycle. Only the property text goes in."""
import json, sys
pid, wt = sys.argv[1], sys.argv[2]
prop = [json.loads(l) for l in open('/verif/properties.jsonl') if json.loads(l)['id'] == pid][0]
print(f"""You are playing the adversary for a verification experiment on the magic-wormhole Python library (Twisted/Automat, PAKE-secured file transfer).

Your own scratch git worktree of the repository is at {wt} . Do ALL work there. Never modify or read anything under /repo or /verif (they are off limits); do not use the network (there is none). Do not use `git stash` (the worktree shares its git directory; undo with `git checkout -- src`) and do not kill processes you did not start.

How to run things:
  - interpreter: /venv/bin/python  (has twisted, automat, pytest, hypothesis, spake2, pynacl ... installed)
  - ALWAYS set PYTHONPATH={wt}/src so that `import wormhole` resolves to YOUR worktree, e.g.
      cd {wt} && PYTHONPATH={wt}/src /venv/bin/python -m pytest -q -p no:cacheprovider --timeout=900 -n 4
    On the unmodified tree this gives "438 passed, 31 skipped" in about 15 s.

The property under test (this is all you are given):

{json.dumps(prop, indent=1)}

TASK. Produce TWO changes to the library source (files under src/wormhole, NOT under src/wormhole/test), each of which BREAKS this property while the code still imports/compiles and the WHOLE existing test suite still passes (438 passed). Each must be a realistic regression (something a plausible commit could contain) and must need something specific to manifest; not something the happy path exposes at once. The two changes must be of these two prescribed STYLES and must attack DIFFERENT clauses/mechanisms of the property:

  patch16.diff - OPTION / MODE DEPENDENT: the change is correct in the default configuration and in the mode the tests and most users exercise, and breaks the property only under a legal NON-DEFAULT option, mode or combination: the delegate API instead of the Deferred API (or the other way round); `input_code()` / `allocate_code(n)` with a non-default word count instead of `set_code()`; a non-empty or unusual `versions` dict, a custom appid or relay URL; `dilate()` called with `expected_subprotocols`, `ping_interval`, `no_listen`, `status_update`, a transit relay, or called before / after the key is known; transit with `no_listen=True`, relay-only, Tor, or several relays of different priority; the receiver's `--output-file`, `--accept-file`, directory vs file vs text transfers, `--zeromode`, `--verify`, `--hide-progress`, `--code-length`; journalled mode; being the Follower instead of the Leader; the side that connects second instead of first. Typical shapes: a branch for the rare mode that was "simplified" to do what the common mode does, an option read once too early (before it is set) or cached, a default applied where an explicit falsy value was given, two code paths that should agree (delegate / Deferred, sender / receiver, leader / follower) and no longer do. Your demo must run the real code in exactly that configuration, and should also show that the default configuration still behaves.

  patch17.diff - RESOURCE LIFECYCLE: something that is acquired, armed or registered in one place and must be released, cancelled or unregistered exactly once somewhere else - a `callLater` timer handle, a listening port, an outbound connection attempt, a file handle / temporary file / staging file, a producer registration, a waiting Deferred in an observer or queue, a subchannel id, a nameplate claim, an open mailbox, an entry in a "pending" set or dict - and the change makes one particular path leak it (never released: something stays open, keeps firing, keeps a reference, blocks shutdown), release it twice (the second release raises, or releases something that has meanwhile been re-acquired by someone else), or release it too early (while still in use). The normal path must stay correct. Typical shapes: clean-up moved into the success branch only, an early return added before the clean-up, a handle overwritten before it was cancelled, `discard` -> `remove` (or the reverse) on a set that may not contain the element, a `finally` narrowed to an `except`, a registration keyed by something that is not unique, clean-up that iterates over a container while it is being modified. Your demo must show the leaked / doubly released / prematurely released resource on that path by observing the real objects (open ports, pending DelayedCalls on a Clock, files on disk, entries left in the container, a second `stopProducing`, ...).

Avoid the most obvious spot for this property (the first function anyone would look at); prefer a collaborator, a less-travelled row of a state machine, or a helper. Keep each change small (a few lines).

For each, write a DEMONSTRATION: a stand-alone script (demo16.py / demo17.py, run as `cd {wt} && PYTHONPATH={wt}/src /venv/bin/python demo16.py`) that exits non-zero WITH the change and exits 0 WITHOUT it, by exercising the real library code (drive the real classes with fakes/mocks for the network where needed, e.g. twisted.internet.task.Clock, fake transports, mock.Mock for neighbours as the existing tests do). The demo must show the behavioural violation of the property (not just that the source text differs), and must not assert anything about the path of the worktree.

DELIVERABLES (in {wt}):
  - patch16.diff, patch17.diff : each the `git diff -- src` of ONE change alone against the clean tree (demo files NOT included), applicable with `git apply`
  - demo16.py, demo17.py
  - notes.md : for each patch: style, which clause of the property it breaks, what it needs in order to manifest, the exact commands you ran and their results
Before finishing, VERIFY for each patch: (1) full suite passes with the patch applied (438 passed), (2) demo fails with the patch, (3) demo passes on the clean tree. Leave the worktree's src/ CLEAN at the end, with the patch/demo/notes files untracked in {wt}.
Report back one short paragraph per patch (what it changes, why tests miss it, how the demo triggers it).""")
