#!/usr/bin/env python3
"""Print the adversary prompt for one property (used to brief a fresh sub-agent).
Only the property text goes in; nothing from /verif's machinery."""
import json, sys
pid, wt = sys.argv[1], sys.argv[2]
prop = None
for l in open('/verif/properties.jsonl'):
    p = json.loads(l)
    if p['id'] == pid:
        prop = p
assert prop
print(f"""You are playing the adversary for a verification experiment on the magic-wormhole Python library (Twisted/Automat, PAKE-secured file transfer).

Your own scratch git worktree of the repository is at {wt} . Do ALL work there. Never modify or read anything under /repo or /verif (they are off limits); do not use the network (there is none).

How to run things:
  - interpreter: /venv/bin/python  (has twisted, automat, pytest, hypothesis, spake2, pynacl ... installed)
  - ALWAYS set PYTHONPATH={wt}/src so that `import wormhole` resolves to YOUR worktree, e.g.
      cd {wt} && PYTHONPATH={wt}/src /venv/bin/python -m pytest -q -p no:cacheprovider --timeout=900 -n 4
    On the unmodified tree this gives "438 passed, 31 skipped" in about 15 s.

The property under test (this is all you are given):

{json.dumps(prop, indent=1)}

TASK. Produce a change to the library source (files under src/wormhole, NOT under src/wormhole/test) that BREAKS this property while the code still imports/compiles and the WHOLE existing test suite still passes (438 passed). The change should look like a realistic regression (a plausible refactor, "optimisation", clean-up, merge accident or misunderstanding), and it should need something specific to manifest: a particular interleaving or arrival order, a connection loss / crash / fault at a particular point, a multi-step sequence of operations, an unusual input, or two cooperating edits at different sites that each look fine alone. Do NOT pick a change that ordinary use or the obvious happy path would expose at once. Subtle is better than blunt; small is better than large (a few lines).

Also write a DEMONSTRATION: a stand-alone script {wt}/demo1.py (run as `cd {wt} && PYTHONPATH={wt}/src /venv/bin/python demo1.py`, it may also be a pytest file if you say how to run it) that exits non-zero / fails WITH your change and exits 0 / passes WITHOUT it, by exercising the real library code (drive the real classes with fakes/mocks for the network where needed, e.g. twisted.internet.task.Clock, fake transports, mock.Mock for neighbours as the existing tests do). The demo must show the behavioural property violation (not just that the source text differs).

If you have time, produce a SECOND, different mutation that attacks a different mechanism/clause of the same property (patch2.diff / demo2.py). Two good ones are better than one; do not produce more than two.

DELIVERABLES (in {wt}):
  - patch1.diff : `git diff -- src` of the change alone (demo files NOT included), applicable with `git apply` to the clean tree
  - demo1.py    : the demonstration
  - (optionally patch2.diff, demo2.py)
  - notes.md    : for each patch: which clause of the property it breaks, what it needs in order to manifest, the exact commands you ran and their results (suite with patch: N passed; demo with patch: fails; demo without patch: passes)
Before finishing, VERIFY all three facts yourself for each patch: (1) full suite passes with the patch applied, (2) demo fails with the patch, (3) demo passes on the clean tree (`git stash` / `git checkout -- src`). Leave the worktree's src/ CLEAN (unpatched) at the end, with the patch/demo/notes files left untracked in {wt}.
Report back a short summary: per patch one paragraph (what it changes, why tests miss it, how the demo triggers it).""")
