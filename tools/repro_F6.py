# F6 candidate: peer's dilate-0 (please) delivered before its version (server reordering), dilate() already called
import json
from twisted.internet.task import Clock, Cooperator
from wormhole.eventual import EventualQueue
from wormhole._boss import Boss
from wormhole.journal import ImmediateJournal
from wormhole.timing import DebugTiming
from wormhole.wormhole import _DeferredWormhole
from wormhole.util import bytes_to_hexstr, dict_to_bytes, hexstr_to_bytes
from wormhole._key import derive_phase_key, encrypt_data
from spake2 import SPAKE2_Symmetric
from wormhole.util import to_bytes
clock=Clock(); eq=EventualQueue(clock)
w=_DeferredWormhole(clock, eq, _enable_dilate=True)
versions={"app_versions":{}, "can-dilate":["ged"], "dilation-abilities":[]}
b=Boss(w,"side1","ws://localhost:4000/v1","appid",versions,("py","x"),clock,eq,Cooperator(scheduler=eq.eventually),ImmediateJournal(),None,DebugTiming())
w._set_boss(b)
sent=[]
class WS:
    def sendMessage(self,payload,binary): sent.append(json.loads(payload))
def srv(**msg): b._RC.ws_message(dict_to_bytes(msg))
b._RC.ws_open(WS())
w.set_code("4-purple-sausages")
w.dilate(no_listen=True)
srv(type="claimed",mailbox="mb1")
# honest peer side2 computes its messages
sp=SPAKE2_Symmetric(to_bytes("4-purple-sausages"), idSymmetric=to_bytes("appid"))
msg1=sp.start()
our_pake=[m for m in sent if m.get("type")=="add" and m.get("phase")=="pake"][0]
key=sp.finish(hexstr_to_bytes(json.loads(hexstr_to_bytes(our_pake["body"]).decode())["pake_v1"]))
def enc(phase, d): return bytes_to_hexstr(encrypt_data(derive_phase_key(key,"side2",phase), dict_to_bytes(d)))
srv(type="message",side="side2",phase="pake",body=bytes_to_hexstr(dict_to_bytes({"pake_v1":bytes_to_hexstr(msg1)})))
try:
    # reordered: dilate-0 first, version second
    srv(type="message",side="side2",phase="dilate-0",body=enc("dilate-0",{"type":"please","side":"ffffffffffffffff","use-version":"ged"}))
    print("dilate-0 accepted")
    srv(type="message",side="side2",phase="version",body=enc("version",versions))
    print("version accepted")
except Exception as e:
    print("RAISED", type(e).__name__, str(e)[:150])
res=[]; w.close().addBoth(res.append); clock.advance(0); clock.advance(0)
print("close verdict:", res)
