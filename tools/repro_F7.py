# F7 (C17.R5): inbound L2 connections accepted by the Connector's own listener must be closed by Connector.stop()
from unittest import mock
from twisted.internet.task import Clock
from twisted.internet.defer import succeed
from twisted.internet.address import IPv4Address
from twisted.internet.testing import StringTransport
from zope.interface import alsoProvides
from wormhole.eventual import EventualQueue
from wormhole._dilation import connector as cmod
from wormhole._dilation.connector import Connector
from wormhole._dilation.roles import LEADER
from wormhole._interfaces import IDilationManager
clock = Clock(); eq = EventualQueue(clock)
mgr = mock.Mock(); alsoProvides(mgr, IDilationManager)
factories = []
class FakeEP:
    def listen(self, f):
        factories.append(f)
        lp = mock.Mock(); lp.getHost.return_value = mock.Mock(port=4001)
        return succeed(lp)
with mock.patch.object(cmod, "build_noise", return_value=mock.Mock()), \
        mock.patch.object(cmod, "serverFromString", return_value=FakeEP()):
    c = Connector(b"k" * 32, None, mgr, clock, eq, False, None, None, "aa" * 8, LEADER)
    c._start_listener(["127.0.0.1"])
    fin = factories[0]
    pin = fin.buildProtocol(IPv4Address("TCP", "1.2.3.4", 55)); tin = StringTransport(); pin.makeConnection(tin)
    c.stop()
print("after Connector.stop(): inbound connection disconnecting =", tin.disconnecting)
raise SystemExit(0 if tin.disconnecting else 1)
