#!/venv/bin/python
"""Run property checks against /repo + a patch, without touching /repo: copy of src under /tmp, patch applied there.
usage: trypatch.py <patch.diff> <pid> [<pid> ...] [--no-a3]"""
import os, shutil, subprocess, sys, tempfile
sys.path.insert(0, "/verif")


def main():
    args = [a for a in sys.argv[1:] if not a.startswith("--")]
    a3 = "--no-a3" not in sys.argv
    patch, pids = os.path.abspath(args[0]), args[1:]
    d = tempfile.mkdtemp(prefix="tp_", dir="/tmp")
    try:
        shutil.copytree("/repo/src", os.path.join(d, "src"), ignore=shutil.ignore_patterns("__pycache__", "*.pyc", "test"))
        p = subprocess.run("git apply --exclude='src/wormhole/test/*' %s" % patch, shell=True, cwd=d, capture_output=True, text=True)
        if p.returncode:
            print("DOES-NOT-APPLY", p.stderr[:300])
            return 3
        from sa.srcmodel import SourceTree, AnalysisError
        from sa.driver import evaluate
        tree = SourceTree.load(d)
        for pid in pids:
            try:
                rep, mod = evaluate(pid, "quick", tree, skip_a3=not a3)
                print("== %s: %d violation(s)" % (pid, len(rep.unlisted())))
                for v in rep.unlisted()[:8]:
                    print("   %s\n      what: %s\n      site: %s" % (v["key"], v["what"][:300], v.get("site")))
                    if v.get("trace"):
                        print("      trace: %s" % (v["trace"],))
            except AnalysisError as e:
                print("== %s: ANALYSIS-ERROR %s" % (pid, e))
    finally:
        shutil.rmtree(d, ignore_errors=True)


if __name__ == "__main__":
    sys.exit(main())
