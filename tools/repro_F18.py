#!/venv/bin/python
"""F18 (C08, noted in passing by a round-6 sub-agent; decided by the typestate product since): close() while an `allocate` is
outstanding leaves the nameplate claimed on the server.  docs/server-protocol.rst: "Allocating a nameplate automatically claims it".
The client learns the nameplate only from the `allocated` reply; when the application closes before that reply has been processed
the Nameplate machine is still in S0 (no nameplate), reports nameplate_done at once, the Terminator finishes, closed fires - and
the claim the server made on this side's behalf is never released (the nameplate stays allocated until the server prunes it).
Whole real client (wormhole.create) against an in-process server that implements the documented allocate-claims rule.
Run: PYTHONPATH=<tree>/src /venv/bin/python tools/repro_F18.py   (exit 1 = defect present, 0 = absent)"""
import json
import sys
from unittest import mock
from twisted.internet import defer, task
from wormhole import wormhole, _rendezvous
from wormhole.eventual import EventualQueue


class Server:
    def __init__(self):
        self.claims = {}
        self.next_np = 7

    def receive(self, conn, msg):
        t = msg["type"]
        conn.outbox.append({"type": "ack", "id": msg.get("id")})
        if t == "bind":
            conn.side = msg["side"]
        elif t == "allocate":
            np = str(self.next_np)
            self.claims.setdefault(np, set()).add(conn.side)          # "Allocating a nameplate automatically claims it"
            conn.outbox.append({"type": "allocated", "nameplate": np})
        elif t == "claim":
            self.claims.setdefault(msg["nameplate"], set()).add(conn.side)
            conn.outbox.append({"type": "claimed", "mailbox": "mb-" + msg["nameplate"]})
        elif t == "release":
            np = msg.get("nameplate")
            for k in ([np] if np else list(self.claims)):
                self.claims.get(k, set()).discard(conn.side)
                if not self.claims.get(k):
                    self.claims.pop(k, None)
            conn.outbox.append({"type": "released"})
        elif t == "open":
            pass
        elif t == "close":
            conn.outbox.append({"type": "closed"})


class Conn:
    def __init__(self, server, rc):
        self.server, self.rc, self.alive, self.side, self.outbox = server, rc, True, None, []

    def sendMessage(self, payload, isBinary):
        self.server.receive(self, json.loads(payload.decode("utf-8")))

    def pump(self):
        while self.alive and self.outbox:
            self.rc.ws_message(json.dumps(self.outbox.pop(0)).encode("utf-8"))

    def drop(self):
        if self.alive:
            self.alive = False
            self.rc.ws_close(True, None, "dropped")


class FakeClientService:
    conn = None

    def __init__(self, endpoint, factory, **kw):
        pass

    def whenConnected(self, failAfterFailures=None):
        return defer.Deferred()

    def startService(self):
        pass

    def stopService(self):
        if FakeClientService.conn:
            FakeClientService.conn.drop()
        return defer.succeed(None)


def run(close_before_reply):
    clock = task.Clock()
    eq = EventualQueue(clock)
    with mock.patch.object(_rendezvous.internet, "ClientService", FakeClientService), \
            mock.patch.object(_rendezvous.RendezvousConnector, "_make_endpoint", lambda self, url: mock.Mock()):
        w = wormhole.create("example.org/f18", "ws://sim.invalid:4000/v1", clock, _eventual_queue=eq)
    rc = w._boss._RC
    server = Server()
    conn = FakeClientService.conn = Conn(server, rc)
    conn.outbox.append({"type": "welcome", "welcome": {}})
    w.allocate_code()
    rc.ws_open(conn)                      # bind + allocate go out; the server claims and queues `allocated`
    result = []

    def settle():
        for _ in range(20):
            conn.pump()
            clock.advance(0)
            eq.flush_sync()
    if not close_before_reply:
        settle()                          # `allocated` processed: the client claims for itself
    w.close().addBoth(result.append)
    settle()
    return bool(result), dict(server.claims)


ok_closed, ok_claims = run(close_before_reply=False)
closed, claims = run(close_before_reply=True)
print("close() after  the `allocated` reply: closed=%s, claims left on the server: %r" % (ok_closed, ok_claims))
print("close() before the `allocated` reply: closed=%s, claims left on the server: %r" % (closed, claims))
raise SystemExit(1 if (claims or ok_claims or not closed or not ok_closed) else 0)
