#!/venv/bin/python
"""F14 (C20, noted in passing by a round-6 sub-agent): the dilation Connector dials a peer hint for which no endpoint exists.
`endpoint_from_hint_obj` returns None for a hint it cannot turn into an endpoint - with Tor, every private IPv4 address or IPv6
address the peer lists (txtorcon's stream_via raises ValueError), i.e. the LAN addresses every peer advertises.  transit.py skips such a
hint (`if not ep: continue`); `Connector._schedule_connection` hands None to `_connect`, which calls `None.connect(..)`:
an AttributeError inside the connection attempt, reported through log.err.
Run: PYTHONPATH=<tree>/src /venv/bin/python tools/repro_F14.py   (exit 1 = defect present, 0 = absent)"""
import sys
from unittest import mock
from twisted.internet.task import Clock
from twisted.python import log
from zope.interface import alsoProvides
from wormhole.eventual import EventualQueue
from wormhole._dilation import connector as cmod
from wormhole._dilation.connector import Connector
from wormhole._dilation.roles import LEADER
from wormhole._interfaces import IDilationManager
from wormhole._hints import parse_hint

errors = []
log.addObserver(lambda ev: errors.append(ev) if ev.get("isError") else None)
clock = Clock()
eq = EventualQueue(clock)
mgr = mock.Mock()
alsoProvides(mgr, IDilationManager)
tor = mock.Mock()
tor.stream_via.side_effect = ValueError("non-public address")     # what txtorcon does for 192.168.x.y
with mock.patch.object(cmod, "build_noise", return_value=mock.Mock()):
    c = Connector(b"k" * 32, None, mgr, clock, eq, True, tor, None, "aa" * 8, LEADER)
    h = parse_hint({"type": "direct-tcp-v1", "hostname": "192.168.1.17", "port": 4001, "priority": 0.0})
    assert h is not None
    c.got_hints([h]) if hasattr(c, "got_hints") else c._use_hints([h])
    clock.advance(10)
    eq.flush_sync()
print("errors logged while handling the peer's hint:", [str(e.get("failure").value) if e.get("failure") else e for e in errors])
raise SystemExit(1 if errors else 0)
