#!/venv/bin/python
"""Confirm corpus diffs myself: each applies to /repo HEAD and keeps the pinned suite at 438 passed.
usage: verify_corpus.py <diff> ..."""
import os, subprocess, sys, shutil
from concurrent.futures import ThreadPoolExecutor


def sh(cmd, cwd=None, env=None):
    e = dict(os.environ); e.update(env or {})
    p = subprocess.run(cmd, shell=True, cwd=cwd, env=e, stdout=subprocess.PIPE, stderr=subprocess.STDOUT, text=True)
    return p.returncode, p.stdout


def one(d):
    d = os.path.abspath(d)
    wt = "/tmp/vc/" + os.path.basename(d).replace(".diff", "") + "_" + str(abs(hash(d)) % 10000)
    sh("git -C /repo worktree remove --force %s" % wt)
    os.makedirs("/tmp/vc", exist_ok=True)
    rc, out = sh("git -C /repo worktree add --detach %s HEAD -q" % wt)
    try:
        if sh("git apply %s" % d, cwd=wt)[0]:
            return d, "DOES-NOT-APPLY"
        rc, out = sh("/venv/bin/python -m pytest -q -p no:cacheprovider --timeout=900 -n 3", cwd=wt, env={"PYTHONPATH": wt + "/src"})
        last = out.strip().splitlines()[-1] if out.strip() else ""
        return d, ("ok" if "438 passed" in last and "failed" not in last else "SUITE: " + last)
    finally:
        sh("git -C /repo worktree remove --force %s" % wt)
        shutil.rmtree(wt, ignore_errors=True)


with ThreadPoolExecutor(max_workers=4) as ex:
    bad = 0
    for d, res in ex.map(one, sys.argv[1:]):
        if res != "ok":
            bad += 1
        print("%-60s %s" % (d[-60:], res), flush=True)
    print("diffs=%d not-ok=%d" % (len(sys.argv) - 1, bad))
