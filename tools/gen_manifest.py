#!/venv/bin/python
"""Generate /verif/MANIFEST.json from the table below (kept next to the checks it describes).
A property is claimed iff sa/props/<id>.py exists and it has an entry in CLAIMS."""
import json
import os
import subprocess
import sys

VERIF = os.path.dirname(os.path.dirname(os.path.abspath(__file__)))
sys.path.insert(0, VERIF)

BASE = json.load(open("/root/.vp/BASELINE.json"))

# id -> (technique, level text, level note, design ref)
CLAIMS = {}


def claim(pid, technique, text, note, ref):
    from tools.manifest_table import ROUND3, ROUND4, ROUND5, ROUND6, ROUND7, ROUND8, ROUND9, ROUND10
    if pid in ROUND3:
        text = text.rstrip() + " Added after the third seed round: " + ROUND3[pid]
    if pid in ROUND5:
        text = text.rstrip() + " Added after the fourth and fifth seed rounds: " + ROUND5[pid]
    if pid in ROUND6:
        text = text.rstrip() + " Added after the sixth seed round (fault at a point / multi-step history): " + ROUND6[pid]
    if pid in ROUND7:
        text = text.rstrip() + " Added after the seventh seed round (one interleaving / boundary input): " + ROUND7[pid]
    if pid in ROUND8:
        text = text.rstrip() + " Added after the eighth seed round (non-default mode / resource lifecycle): " + ROUND8[pid]
    if pid in ROUND9:
        text = text.rstrip() + " Added after the ninth seed round (additive feature / new path, optimisation): " + ROUND9[pid]
    if pid in ROUND10:
        text = text.rstrip() + " Added after the tenth seed round (turn shift, 'equivalent' API substitution): " + ROUND10[pid]
    if pid in ROUND4:
        text = text.rstrip() + " " + ROUND4[pid]
        technique = technique + " + two-party typestate product of the dilation machines (abstract interpretation of Manager / TrafficTimer / Connector sources, EF-reachability)"
        note = note + "; T5 (link and mailbox-channel model of the two-party product)"
    CLAIMS[pid] = (technique, text, note, ref)


NOT_APPLICABLE = {}

from tools.manifest_table import fill  # noqa: E402

fill(claim, NOT_APPLICABLE)

props = [json.loads(l)["id"] for l in open(os.path.join(VERIF, "properties.jsonl"))]
checks = []
na = []
for pid in props:
    have = os.path.exists(os.path.join(VERIF, "sa", "props", pid + ".py"))
    if have and pid in CLAIMS:
        tech, text, note, ref = CLAIMS[pid]
        checks.append({
            "property_id": pid,
            "quick_cmd": "./vcheck %s --tier quick" % pid,
            "thorough_cmd": "./vcheck %s --tier thorough" % pid,
            "evidence_file": "/verif/evidence/%s.json" % pid,
            "replay_cmd_template": "./vcheck replay {path}",
            "engine": "sa",
            "level_claimed": {"category": "other", "text": text, "design_ref": ref},
            "level_note": note,
            "technique": tech,
        })
    else:
        na.append({"property_id": pid,
                   "reason": NOT_APPLICABLE.get(pid, "no check is registered for this property yet (under construction); nothing is claimed")})

try:
    commits = subprocess.check_output(["git", "-C", "/repo", "log", "--format=%h %s", "cdb22c3..HEAD"], text=True).strip().splitlines()
except Exception:
    commits = []
hook_commits = [c.split()[0] for c in commits if not c.split(" ", 1)[1].startswith("fix:")]

manifest = {
    "version": 1,
    "setup_cmd": "/venv/bin/python -m compileall -q /verif/sa /verif/tools && chmod +x /verif/vcheck",
    "hooks": {
        "guard": "MAGIC_WORMHOLE_VERIF",
        "enable": "no hooks: the checks read /repo's source (Python ast) and never import or execute it; the guard name is reserved and unused",
        "baseline_off_cmd": BASE["cmd"],
        "source_commits": hook_commits,
        "add_only": True,
    },
    "engines": [
        {"name": "sa", "path": "/verif/sa",
         "serves_properties": [c["property_id"] for c in checks],
         "kind_free_text": "repository-specific static analysis in pure stdlib Python over the ast of /repo/src/wormhole: "
                           "Automat table extraction + whole-client typestate analysis (abstract interpretation of the machine "
                           "sources), per-machine table rules, statement-level CFG queries (must-pass-through, guard dominance, "
                           "ordering), def-use/taint/plumbing, attribute write-discipline, JSON type-guard analysis, "
                           "writer/reader sibling agreement; ./vcheck <id> --tier quick|thorough"}
    ],
    "checks": checks,
    "not_applicable": na,
    "notes": "Static analysis only: every deciding step inspects /repo's current source on each run and names a construct "
             "(file:line, function, transition row, call path). Exit 0 held / 1 VIOLATION / 2 ANALYSIS-ERROR (cannot decide: "
             "vanished anchor or unknown idiom - never a silent pass). Genuine defects found and repaired are listed in "
             "/verif/known_findings.json ('fixed:' entries, one fix: commit each in /repo). DESIGN.md sections 4 and 8 say per "
             "property which clauses are decided and which behavioural remainders are not claimed.",
}
with open(os.path.join(VERIF, "MANIFEST.json"), "w") as fh:
    json.dump(manifest, fh, indent=1)
print("claimed:", [c["property_id"] for c in checks])
print("not applicable:", [n["property_id"] for n in na])
try:
    import jsonschema  # only in the tooling venv
except ImportError:
    jsonschema = None
