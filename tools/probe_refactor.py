#!/venv/bin/python
"""False-alarm probe: run every check against behaviour-preserving refactorings written by sub-agents.

usage: probe_refactor.py [Cxx ...]      reads /tmp/rf/<id>/refactor<k>.diff
For each diff: fresh scratch worktree of /repo HEAD, apply, pinned suite must pass (438), then
`VERIF_REPO=<worktree> ./vcheck all`.  Any VIOLATION or ANALYSIS-ERROR on such a tree is a false alarm
(or fail-closed) of the checker and is printed with its key.  Results are appended to /verif/seeded/refactor_probes.json.
"""
import glob
import json
import os
import re
import shutil
import subprocess
import sys
from concurrent.futures import ThreadPoolExecutor

RF = "/tmp/rf"
SCRATCH = "/tmp/rfv"
PY = "/venv/bin/python"


def sh(cmd, cwd=None, env=None, timeout=3600):
    e = dict(os.environ)
    e.update(env or {})
    p = subprocess.run(cmd, shell=True, cwd=cwd, env=e, stdout=subprocess.PIPE, stderr=subprocess.STDOUT, text=True, timeout=timeout)
    return p.returncode, p.stdout


def probe(path):
    pid = os.path.basename(os.path.dirname(path))
    name = "%s/%s" % (pid, os.path.basename(path))
    wt = os.path.join(SCRATCH, name.replace("/", "_").replace(".diff", ""))
    os.makedirs(SCRATCH, exist_ok=True)
    sh("git -C /repo worktree remove --force %s" % wt)
    sh("git -C /repo worktree add --detach %s HEAD -q" % wt)
    res = {"refactor": name}
    try:
        if sh("git apply %s" % path, cwd=wt)[0] != 0:
            res["error"] = "does not apply"
            return res
        env = {"PYTHONPATH": os.path.join(wt, "src")}
        rc, out = sh("%s -m pytest -q -p no:cacheprovider --timeout=900 -n 4" % PY, cwd=wt, env=env)
        res["suite"] = out.strip().splitlines()[-1] if out.strip() else ""
        res["suite_ok"] = "438 passed" in res["suite"] and "failed" not in res["suite"]
        rc, out = sh("./vcheck all", cwd="/verif", env={"VERIF_REPO": wt, "VERIF_NOWRITE": "1"})
        alarms = []
        cur = None
        for line in out.splitlines():
            m = re.match(r"VIOLATION property=(C\d+)", line)
            if m:
                cur = m.group(1)
            mk = re.match(r"\s+rule=(\S+) key=(.*)", line)
            if mk and cur:
                alarms.append(("VIOLATION", cur, mk.group(2)[:200]))
            me = re.match(r"ANALYSIS-ERROR property=(C\d+) (.*)", line)
            if me:
                alarms.append(("ANALYSIS-ERROR", me.group(1), me.group(2)[:200]))
        res["alarms"] = alarms
        rc, diff = sh("git diff --stat -- src", cwd=wt)
        res["stat"] = diff.strip().splitlines()[-1] if diff.strip() else ""
        return res
    finally:
        sh("git -C /repo worktree remove --force %s" % wt)
        shutil.rmtree(wt, ignore_errors=True)


def main():
    ids = sys.argv[1:] or sorted(os.path.basename(d) for d in glob.glob(RF + "/C*"))
    paths = []
    for i in ids:
        paths += sorted(glob.glob(os.path.join(RF, i, "refactor*.diff")))
    out = []
    with ThreadPoolExecutor(max_workers=4) as ex:
        for r in ex.map(probe, paths):
            out.append(r)
            print(r["refactor"], "ERROR " + r["error"] if "error" in r else "suite_ok=%s alarms=%d %s" % (r["suite_ok"], len(r["alarms"]), r["stat"]), flush=True)
            for a in r.get("alarms", []):
                print("    ", a, flush=True)
    dst = "/verif/seeded/refactor_probes.json"
    old = json.load(open(dst)) if os.path.exists(dst) else []
    old = [o for o in old if o["refactor"] not in {r["refactor"] for r in out}] + out
    with open(dst, "w") as fh:
        json.dump(old, fh, indent=1)


if __name__ == "__main__":
    main()
