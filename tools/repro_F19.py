#!/venv/bin/python
"""F19 (C03, reported by a round-7 sub-agent as a gap of the F13 repair): a get_message() Deferred that the application cancels AFTER
SequenceObserver.fire() has paired it with a message but BEFORE the eventual turn that delivers it (addTimeout firing in the same
reactor turn as the message's arrival): fire() has already popped the Deferred from _observers and the message from _results, the
scheduled d.callback(message) raises AlreadyCalledError (logged by the EventualQueue) and the message is gone.
Also checks the order with pipelined reads: readers that stay must receive the events in order.
Run: PYTHONPATH=<tree>/src /venv/bin/python tools/repro_F19.py   (exit 1 = defect present, 0 = absent)"""
import sys
from twisted.internet.task import Clock
from twisted.python import log
from wormhole.eventual import EventualQueue
from wormhole.observer import SequenceObserver

errors = []
log.addObserver(lambda ev: errors.append(ev) if ev.get("isError") else None)


def scenario(pipelined):
    clock = Clock()
    eq = EventualQueue(clock)
    o = SequenceObserver(eq)
    got = []
    d1 = o.when_next_event()
    d1.addCallbacks(lambda m: got.append(("d1", m)), lambda f: None)
    d2 = None
    if pipelined:
        d2 = o.when_next_event()
        d2.addCallback(lambda m: got.append(("d2", m)))
    o.fire(b"m0")                       # paired with d1, delivery scheduled for the next turn
    if pipelined:
        o.fire(b"m1")
    d1.cancel()                         # e.g. d1.addTimeout(..) expiring in this very turn
    eq.flush_sync()
    if not pipelined:
        o.fire(b"m1")
    for name in ("d3", "d4"):
        o.when_next_event().addCallback(lambda m, name=name: got.append((name, m)))
        eq.flush_sync()
    return [m for (_n, m) in got]


a = scenario(False)
b = scenario(True)
print("single reader cancelled after pairing; later reads got:", a)
print("pipelined readers, the first cancelled after pairing; reads got:", b)
print("errors logged:", len(errors))
ok = a[:2] == [b"m0", b"m1"] and b[:2] == [b"m0", b"m1"] and not errors
raise SystemExit(0 if ok else 1)
