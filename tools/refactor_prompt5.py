#!/usr/bin/env python3
"""Round-5 prompt for BEHAVIOUR-PRESERVING refactorings (false-alarm probes): error-path/callback plumbing and representation/boundary rewrites. Only the property text goes in."""
import json, sys
pid, wt = sys.argv[1], sys.argv[2]
prop = [json.loads(l) for l in open('/verif/properties.jsonl') if json.loads(l)['id'] == pid][0]
print(f"""You are helping to test a verification effort for the magic-wormhole Python library (Twisted/Automat, PAKE-secured file transfer) by playing a careful MAINTAINER.

Your own scratch git worktree of the repository is at {wt} . Do ALL work there. Never modify or read anything under /repo or /verif (off limits); there is no network. Do not use `git stash` (the worktree shares its git directory); to undo use `git checkout -- src`. Do not kill processes you did not start.

How to run things:
  - interpreter: /venv/bin/python ; ALWAYS set PYTHONPATH={wt}/src so that `import wormhole` resolves to YOUR worktree, e.g.
      cd {wt} && PYTHONPATH={wt}/src /venv/bin/python -m pytest -q -p no:cacheprovider --timeout=900 -n 4
    On the unmodified tree this gives "438 passed, 31 skipped" in about 15 s.

A semantic property of the library (this is all you are given about the verification effort):

{json.dumps(prop, indent=1)}

TASK. Produce TWO independent BEHAVIOUR-PRESERVING refactorings of the source code that implements this property (the files under "anchors", i.e. library code under src/wormhole, NOT tests). Each must leave the observable behaviour of the library exactly as it is - the property above must obviously still hold, no API or wire-format change - and the whole test suite must still pass (438 passed). They must be realistic maintenance edits a reviewer would accept, touch the very code the property's mechanisms rely on, and be of these two kinds (one each):

  refactor11.diff - ERROR PATHS AND CALLBACK PLUMBING, tidied: rewrite HOW this mechanism wires its callbacks, Deferred chains, exception handlers, clean-up and notifications, without changing WHAT happens on any path - including the paths on which a collaborator fails, a Deferred errbacks or is cancelled, or an application callback raises or re-enters. Typical moves: addErrback/addBoth chains <-> addCallbacks <-> inlineCallbacks try/except/finally; lambdas and closures <-> bound methods <-> functools.partial; a chain written on one line vs a local Deferred variable; guard clauses and early returns in handlers; try/finally <-> context manager; hoisting a repeated clean-up sequence into a private helper; splitting or merging private helper methods of a state machine's outputs (the transition tables - which outputs run, in which order, in which state - must stay exactly as they are). If an ordering of two statements matters on some failure path, keep it.

  refactor12.diff - PRIVATE REPRESENTATIONS AND BOUNDARY TESTS, rewritten: change how private data is held and how sentinels, emptiness and limits are tested, without changing the result for ANY input - including empty strings / byte strings / lists, zero, None, the first and last value of every counter range, and values that are falsy but legal. Typical moves: list <-> collections.deque (same end!), set <-> dict keys, tuple <-> small NamedTuple record, `x is None` spelled through a named sentinel or a helper predicate, `not a < b` <-> `a >= b`, `len(x) == 0` <-> `not x` ONLY where x can never be a legal falsy non-empty-equivalent value, chained comparisons, constants extracted to module level, range checks through a helper, dict.get with explicit default, slicing rewritten with explicit bounds. Do not turn an `is None` test into a truthiness test (or back) where the value could be 0, "", b"", [] or {{}} - that would change behaviour.

Make each refactoring substantial enough to matter (several lines, in the heart of the mechanism), but keep behaviour identical. Do NOT fix bugs, do NOT change behaviour "for the better", do NOT touch tests, keep public API names and anything tests reference.

DELIVERABLES (in {wt}): refactor11.diff, refactor12.diff - each the `git diff -- src` of ONE refactoring alone against the clean tree (applicable with `git apply`), plus notes.md saying for each: what was done, which functions, why behaviour is unchanged, and the result of the full test suite with it applied (must be 438 passed). Verify each one separately: apply it to the clean tree, run the full suite, save the diff, then `git checkout -- src`. Leave src/ clean at the end.
Report back one short paragraph per refactoring.""")
