#!/venv/bin/python
"""F21 (C14, reported by a round-7 sub-agent): an application that calls close() from the callback of the input helper's
when_wordlist_is_available() Deferred.  Nameplate row `S2B.rx_claimed: [I_got_wordlist, M_got_mailbox]`: I_got_wordlist ends in
Input.notify_wordlist_waiters, which fires that Deferred synchronously - application code runs between the two outputs.  Its close()
closes the Mailbox machine, and the second output then delivers got_mailbox to a Mailbox that has no row for it: NoTransition inside
the handler of `claimed`; close() reports that internal error instead of LonelyError.
Whole real client (wormhole.create, network replaced).   Run: PYTHONPATH=<tree>/src /venv/bin/python tools/repro_F21.py
(exit 1 = defect present, 0 = absent)"""
import json
import sys
from unittest import mock
from twisted.internet import defer, task
from twisted.python import log
from wormhole import wormhole, _rendezvous
from wormhole.errors import LonelyError
from wormhole.eventual import EventualQueue

errors = []
log.addObserver(lambda ev: errors.append(ev) if ev.get("isError") else None)


class Conn:
    def __init__(self, rc):
        self.rc, self.alive, self.outbox, self.sent = rc, True, [], []

    def sendMessage(self, payload, isBinary):
        msg = json.loads(payload.decode("utf-8"))
        self.sent.append(msg["type"])
        self.outbox.append({"type": "ack", "id": msg.get("id")})
        t = msg["type"]
        if t == "claim":
            self.outbox.append({"type": "claimed", "mailbox": "mb1"})
        elif t == "release":
            self.outbox.append({"type": "released"})
        elif t == "close":
            self.outbox.append({"type": "closed"})
        elif t == "list":
            self.outbox.append({"type": "nameplates", "nameplates": [{"id": "4"}]})

    def pump(self):
        while self.alive and self.outbox:
            self.rc.ws_message(json.dumps(self.outbox.pop(0)).encode("utf-8"))

    def drop(self):
        if self.alive:
            self.alive = False
            self.rc.ws_close(True, None, "dropped")


class FakeClientService:
    conn = None

    def __init__(self, endpoint, factory, **kw):
        pass

    def whenConnected(self, failAfterFailures=None):
        return defer.Deferred()

    def startService(self):
        pass

    def stopService(self):
        if FakeClientService.conn:
            FakeClientService.conn.drop()
        return defer.succeed(None)


clock = task.Clock()
eq = EventualQueue(clock)
with mock.patch.object(_rendezvous.internet, "ClientService", FakeClientService), \
        mock.patch.object(_rendezvous.RendezvousConnector, "_make_endpoint", lambda self, url: mock.Mock()):
    w = wormhole.create("example.org/f21", "ws://sim.invalid:4000/v1", clock, _eventual_queue=eq)
rc = w._boss._RC
conn = FakeClientService.conn = Conn(rc)
conn.outbox.append({"type": "welcome", "welcome": {}})
result = []
helper = w.input_code()
helper.when_wordlist_is_available().addCallback(lambda _: w.close().addBoth(result.append))     # the application gives up here
escaped = []
try:
    rc.ws_open(conn)
    helper.choose_nameplate("4")
    for _ in range(20):
        conn.pump()
        clock.advance(0)
        eq.flush_sync()
except Exception as e:              # noqa
    escaped.append(e)
verdict = result[0].value if result and hasattr(result[0], "value") else (result[0] if result else None)
print("close() verdict:", repr(verdict), "; exceptions escaping:", escaped, "; errors logged:", len(errors))
ok = isinstance(verdict, LonelyError) and not escaped and not errors
raise SystemExit(0 if ok else 1)
