#!/venv/bin/python
"""F20: `python tools/repro_F15.py <json>` runs the same two orders with another peer versions object, e.g. '{"can-dilate": null}' or
'{"can-dilate": [["ged"]]}' (exit 1 unless both orders report OldPeerCannotDilateError).
F15 (C17, noted in passing by a round-6 sub-agent): a peer whose version message is the empty dict `{}` (it announces nothing, so it
cannot dilate) and whose versions arrive BEFORE the application calls dilate(): Dilator.got_wormhole_versions parks `{}` in
_pending_wormhole_versions, and dilate() tests `if self._pending_wormhole_versions:` - `{}` is falsy, so the Manager never hears the
versions, stays WAITING, and a subchannel connect() hangs instead of failing with OldPeerCannotDilateError.  With dilate() first and
`{}` second the error is reported.
Run: PYTHONPATH=<tree>/src /venv/bin/python tools/repro_F15.py   (exit 1 = defect present, 0 = absent)"""
import sys
from unittest import mock
from twisted.internet.task import Clock, Cooperator
from twisted.internet.protocol import Factory, Protocol
from zope.interface import alsoProvides
from wormhole.eventual import EventualQueue
from wormhole._interfaces import ISend, ITerminator
from wormhole._dilation.manager import Dilator, OldPeerCannotDilateError

DILATION_VERSIONS = ["ged"]


import json
VERSIONS = json.loads(sys.argv[1]) if len(sys.argv) > 1 else {}


def _give(dil):
    try:
        dil.got_wormhole_versions(VERSIONS)
    except Exception as e:
        print("   got_wormhole_versions raised %r" % (e,))


def run(versions_first):
    clock = Clock()
    eq = EventualQueue(clock)
    coop = Cooperator(scheduler=eq.eventually)
    send = mock.Mock(); alsoProvides(send, ISend)
    term = mock.Mock(); alsoProvides(term, ITerminator)
    dil = Dilator(clock, eq, coop, DILATION_VERSIONS)
    dil.wire(send, term)
    if versions_first:
        _give(dil)
    dil.got_key(b"k" * 32)
    api = dil.dilate()
    if not versions_first:
        _give(dil)
    out = []
    d = api.connector_for("proto").connect(Factory.forProtocol(Protocol))
    d.addCallbacks(lambda p: out.append("connected"), lambda f: out.append(f.type.__name__))
    for _ in range(5):
        clock.advance(1)
        eq.flush_sync()
    return out or ["PENDING (hangs)"]


a = run(versions_first=False)
b = run(versions_first=True)
print("peer versions: %r" % (VERSIONS,))
print("dilate() first, then versions:", a)
print("versions first, then dilate():", b)
raise SystemExit(0 if a == b == ["OldPeerCannotDilateError"] else 1)
