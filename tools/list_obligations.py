#!/venv/bin/python
"""print every obligation (rule instance) a property's check discharges on /repo: tools/list_obligations.py C04 [--a3]"""
import sys
sys.path.insert(0, "/verif")
from sa.srcmodel import SourceTree
from sa.driver import evaluate
import os
pid = sys.argv[1]
tree = SourceTree.load(os.environ.get("VERIF_REPO", "/repo"))
rep, mod = evaluate(pid, "quick", tree, skip_a3="--a3" not in sys.argv)
for o in rep.obligations:
    print("%-8s %-4s %s  [%s]" % (o["rule"], "ok" if o.get("ok", True) else "FAIL", o.get("instance", o.get("text", ""))[:220], o.get("site", "")))
print(len(rep.obligations), "obligations;", len(rep.violations), "violations")
