#!/venv/bin/python
"""Re-base corpus / seed diffs that no longer apply to /repo HEAD (their context moved because of a `fix:` commit).
For each stale diff: scratch worktree of HEAD, `git apply --3way` (the diffs carry the blob ids of their pre-images, which are in the
repository's history); a clean merge is written back as the new diff, a conflict is reported and left alone.
usage: rebase_corpus.py [--write] <dir-or-diff> ..."""
import glob, os, subprocess, sys, shutil

WT = "/tmp/rebase_wt"


def sh(cmd, cwd=None):
    p = subprocess.run(cmd, shell=True, cwd=cwd, stdout=subprocess.PIPE, stderr=subprocess.STDOUT, text=True)
    return p.returncode, p.stdout


def main():
    write = "--write" in sys.argv
    args = [a for a in sys.argv[1:] if not a.startswith("--")]
    diffs = []
    for a in args:
        diffs += sorted(glob.glob(os.path.join(os.path.abspath(a), "*.diff"))) if os.path.isdir(a) else [os.path.abspath(a)]
    sh("git -C /repo worktree remove --force %s" % WT)
    rc, out = sh("git -C /repo worktree add --detach %s HEAD -q" % WT)
    if rc:
        print(out)
        return 2
    n_ok = n_stale = n_fixed = n_conf = 0
    try:
        for d in diffs:
            sh("git reset -q --hard && git clean -fdq", cwd=WT)
            if sh("git apply --check %s" % d, cwd=WT)[0] == 0:
                n_ok += 1
                continue
            n_stale += 1
            rc, out = sh("git apply --3way %s" % d, cwd=WT)
            conflict = rc != 0 or "<<<<<<<" in sh("git diff", cwd=WT)[1] or sh("git diff --name-only --diff-filter=U", cwd=WT)[1].strip()
            if conflict:
                n_conf += 1
                print("CONFLICT %s" % d)
                continue
            rc, new = sh("git diff HEAD -- src", cwd=WT)
            # must compile
            bad = False
            for f in sh("git diff HEAD --name-only -- src", cwd=WT)[1].split():
                if f.endswith(".py") and sh("/venv/bin/python -m py_compile %s" % f, cwd=WT)[0]:
                    bad = True
            if bad or not new.strip():
                n_conf += 1
                print("BROKEN   %s" % d)
                continue
            n_fixed += 1
            print("rebased  %s" % d)
            if write:
                with open(d, "w") as fh:
                    fh.write(new)
    finally:
        sh("git -C /repo worktree remove --force %s" % WT)
        shutil.rmtree(WT, ignore_errors=True)
    print("applies=%d stale=%d rebased=%d conflicts=%d" % (n_ok, n_stale, n_fixed, n_conf))


if __name__ == "__main__":
    sys.exit(main())
