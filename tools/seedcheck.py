#!/venv/bin/python
"""Detection regression: every filed seed (seeded/<id>-<k>/patch.diff) must be reported by its own property's check.
usage: seedcheck.py [--no-a3] [ids...]   (in-process, trees under /tmp/sdt)"""
import glob, json, os, shutil, subprocess, sys
from concurrent.futures import ProcessPoolExecutor
sys.path.insert(0, "/verif")
TREES = "/tmp/sdt"
A3 = {"C01", "C03", "C08", "C09", "C10", "C11", "C14", "C16", "C17", "C18", "C20"}   # properties with a typestate product (A3 / A5)


def one(args):
    name, a3 = args
    pid = name.split("-")[0]
    d = os.path.join(TREES, name)
    shutil.rmtree(d, ignore_errors=True)
    os.makedirs(d)
    shutil.copytree("/repo/src", os.path.join(d, "src"), ignore=shutil.ignore_patterns("__pycache__", "*.pyc", "test"))
    p = subprocess.run("git apply --exclude='src/wormhole/test/*' /verif/seeded/%s/patch.diff" % name, shell=True, cwd=d, capture_output=True, text=True)
    if p.returncode:
        return name, "DOES-NOT-APPLY", []
    from sa.srcmodel import SourceTree, AnalysisError
    from sa.driver import evaluate
    try:
        tree = SourceTree.load(d)
        rep, mod = evaluate(pid, "quick", tree, skip_a3=not (a3 and pid in A3))
        keys = [v["key"] for v in rep.unlisted()]
        return name, ("caught" if keys else "MISSED"), keys[:3]
    except AnalysisError as e:
        return name, "ANALYSIS-ERROR", [str(e)[:150]]
    except Exception as e:
        import traceback
        return name, "CRASH", [traceback.format_exc()[-300:]]
    finally:
        shutil.rmtree(d, ignore_errors=True)


def main():
    args = sys.argv[1:]
    a3 = "--no-a3" not in args
    args = [a for a in args if not a.startswith("--")]
    names = args or sorted(os.path.basename(os.path.dirname(p)) for p in glob.glob("/verif/seeded/C*-*/patch.diff"))
    # a seed that only worked through a defect of the clean tree that has since been repaired is no longer a breaking change
    names = [n for n in names if not json.load(open("/verif/seeded/%s/meta.json" % n)).get("neutralised_by")]
    bad = 0
    with ProcessPoolExecutor(max_workers=int(os.environ.get("VERIF_JOBS", "8"))) as ex:
        for name, res, keys in ex.map(one, [(n, a3) for n in names]):
            if res != "caught":
                bad += 1
            print("%-7s %-15s %s" % (name, res, "; ".join(keys)[:200]), flush=True)
    print("seeds=%d not-caught=%d" % (len(names), bad))


if __name__ == "__main__":
    main()
