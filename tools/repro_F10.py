# F10: first connection fails at websocket negotiation; app calls close() before the stopService Deferred fires
import json
from unittest import mock
from twisted.internet import defer
from twisted.internet.task import Clock, Cooperator
from wormhole.eventual import EventualQueue
from wormhole._boss import Boss
from wormhole.journal import ImmediateJournal
from wormhole.timing import DebugTiming
from wormhole.wormhole import _DeferredWormhole
from twisted.python import log
import sys
errs=[]
log.addObserver(lambda ev: errs.append(ev) if ev.get("isError") else None)
clock=Clock(); eq=EventualQueue(clock)
w=_DeferredWormhole(clock, eq)
b=Boss(w,"side1","ws://localhost:4000/v1","appid",{"app_versions":{}},("py","x"),clock,eq,Cooperator(scheduler=eq.eventually),ImmediateJournal(),None,DebugTiming())
w._set_boss(b)
# replace the ClientService by one whose stopService returns a Deferred we control
stops=[]
class FakeService:
    def stopService(self):
        d=defer.Deferred(); stops.append(d); return d
    def startService(self): pass
b._RC._connector=FakeService()
# websocket negotiation of the first attempt fails: onClose without onOpen
b._RC.ws_close(False, 1006, "negotiation failed")
d=w.close()
res=[]; d.addBoth(res.append)
# now the service finishes stopping: both Deferreds fire (in order of creation)
for s in stops: s.callback(None)
for i in range(5): clock.advance(0)
print("close() verdict:", res)
print("logged errors:", [str(e.get("failure").value)[:120] if e.get("failure") else e for e in errs])
for i,s in enumerate(stops):
    print("stopService Deferred", i, "final result:", repr(getattr(s, "result", None))[:300])
