#!/usr/bin/env python3
"""Round-3 prompt for BEHAVIOUR-PRESERVING refactorings (false-alarm probes): kinds not covered by round 1. Only the property text goes in."""
import json, sys
pid, wt = sys.argv[1], sys.argv[2]
prop = [json.loads(l) for l in open('/verif/properties.jsonl') if json.loads(l)['id'] == pid][0]
print(f"""You are helping to test a verification effort for the magic-wormhole Python library (Twisted/Automat, PAKE-secured file transfer) by playing a careful MAINTAINER.

Your own scratch git worktree of the repository is at {wt} . Do ALL work there. Never modify or read anything under /repo or /verif (off limits); there is no network. Do not use `git stash` (the worktree shares its git directory); to undo use `git checkout -- src`. Do not kill processes you did not start.

How to run things:
  - interpreter: /venv/bin/python ; ALWAYS set PYTHONPATH={wt}/src so that `import wormhole` resolves to YOUR worktree, e.g.
      cd {wt} && PYTHONPATH={wt}/src /venv/bin/python -m pytest -q -p no:cacheprovider --timeout=900 -n 4
    On the unmodified tree this gives "438 passed, 31 skipped" in about 15 s.

A semantic property of the library (this is all you are given about the verification effort):

{json.dumps(prop, indent=1)}

TASK. Produce FOUR independent BEHAVIOUR-PRESERVING refactorings of the source code that implements this property (the files under "anchors", i.e. library code under src/wormhole, NOT tests). Each must leave the observable behaviour of the library exactly as it is - the property above must obviously still hold, no API or wire-format change - and the whole test suite must still pass (438 passed). They must be realistic maintenance edits a reviewer would accept, touch the very code the property's mechanisms rely on, and be of these four PRESCRIBED kinds (one each):

  refactor1.diff - REORDER / ANNOTATE: reorder statements that are independent of each other, independent Automat transition rows (`X.upon(...)` lines), independent dict keys or class attributes, independent method definitions inside a class; add type hints, docstrings, comments, log.msg()/debug logging, and assertions that cannot fail (e.g. `assert isinstance(x, bytes)` where x always is). Nothing else.

  refactor2.diff - INLINE or MOVE: inline a small private helper method/function into its caller(s) and delete it (the inverse of "extract method"), and/or move a private helper between classes or modules of the package with all call sites updated (only if tests do not import it from the old place), and/or turn a nested closure into a method or a method into a closure / lambda.

  refactor3.diff - MIXED in one function: pick the 2-3 functions at the heart of the mechanism and, INSIDE EACH of them, combine a consistent rename of locals/parameters/private attributes WITH a control-flow restructuring (guard clause <-> if/else, inverted test, merged or split conditions, loop form) AND an idiom swap (string formatting, pop vs index+del, join vs +, named constant), as a real clean-up commit would.

  refactor4.diff - REPRESENTATION: change a PRIVATE data representation equivalently (a tuple <-> a small namedtuple/attrs class, a bool flag <-> a None/not-None attribute or vice versa where equivalent, list <-> deque, set <-> dict keys, two attributes <-> one tuple attribute, string states <-> module constants), or rename Automat STATES (the `@m.state()` methods, private to the class) consistently together with every row using them, or split a class-level table into helper-built rows (e.g. a loop over a literal tuple of inputs for identical ignore-rows). Keep everything observable identical.

Make each refactoring substantial enough to matter (several lines, in the heart of the mechanism), but keep behaviour identical. Do NOT fix bugs, do NOT change behaviour "for the better", do NOT touch tests, keep public API names and anything tests reference.

DELIVERABLES (in {wt}): refactor1.diff .. refactor4.diff - each the `git diff -- src` of ONE refactoring alone against the clean tree (applicable with `git apply`), plus notes.md saying for each: what was done, which functions, why behaviour is unchanged, and the result of the full test suite with it applied (must be 438 passed). Verify each one separately: apply it to the clean tree, run the full suite, save the diff, then `git checkout -- src`. Leave src/ clean at the end.
Report back one short paragraph per refactoring.""")
