#!/usr/bin/env python3
"""Round-2 adversary prompt for one property: different styles of change than round 1. Only the property text goes in."""
import json, sys
pid, wt = sys.argv[1], sys.argv[2]
prop = [json.loads(l) for l in open('/verif/properties.jsonl') if json.loads(l)['id'] == pid][0]
n = int(pid[1:])
big = ("REFACTOR-CARRIED: a realistic, mostly behaviour-preserving refactoring of the mechanism (extract/inline a helper, rename things, restructure control flow, "
       "merge two branches, replace a data structure, move code between methods or classes) of 15-60 changed lines, in which ONE behavioural detail is silently "
       "lost or altered - the kind of thing that slips through review because the diff is mostly noise") if n % 2 else (
      "CROSS-MODULE: the change is NOT in the function that obviously implements the property but in a collaborator - a caller that stops honouring a contract, "
      "a callee whose return value/exception/ordering changes, a wiring or registration step, a state-machine row in a neighbouring machine, a default value, "
      "a helper in util code - or two cooperating edits in different modules that each look fine alone")
print(f"""You are playing the adversary for a verification experiment on the magic-wormhole Python library (Twisted/Automat, PAKE-secured file transfer).

Your own scratch git worktree of the repository is at {wt} . Do ALL work there. Never modify or read anything under /repo or /verif (they are off limits); do not use the network (there is none).

How to run things:
  - interpreter: /venv/bin/python  (has twisted, automat, pytest, hypothesis, spake2, pynacl ... installed)
  - ALWAYS set PYTHONPATH={wt}/src so that `import wormhole` resolves to YOUR worktree, e.g.
      cd {wt} && PYTHONPATH={wt}/src /venv/bin/python -m pytest -q -p no:cacheprovider --timeout=900 -n 4
    On the unmodified tree this gives "438 passed, 31 skipped" in about 15 s.

The property under test (this is all you are given):

{json.dumps(prop, indent=1)}

TASK. Produce TWO changes to the library source (files under src/wormhole, NOT under src/wormhole/test), each of which BREAKS this property while the code still imports/compiles and the WHOLE existing test suite still passes (438 passed). Each must be a realistic regression and must need something specific to manifest (a particular interleaving / arrival order, a connection loss or fault at a particular point, a multi-step sequence, an unusual or hostile input); not something the happy path exposes at once. The two changes must be of these two prescribed STYLES and must attack DIFFERENT clauses/mechanisms of the property:

  patch3.diff - {big}.

  patch4.diff - MINIMAL: a one-token or one-line change (a comparison operator, an off-by-one, a constant, `and`/`or`, a swapped argument, a target state of one transition row, one output dropped from or added to a row, a removed guard/assert/early-return, a changed default, `is`/`==`, a different attribute of similar name) at a place that is NOT the first one anyone would think of for this property.

For each, write a DEMONSTRATION: a stand-alone script (demo3.py / demo4.py, run as `cd {wt} && PYTHONPATH={wt}/src /venv/bin/python demo3.py`) that exits non-zero WITH the change and exits 0 WITHOUT it, by exercising the real library code (drive the real classes with fakes/mocks for the network where needed, e.g. twisted.internet.task.Clock, fake transports, mock.Mock for neighbours as the existing tests do). The demo must show the behavioural violation of the property (not just that the source text differs).

DELIVERABLES (in {wt}):
  - patch3.diff, patch4.diff : each the `git diff -- src` of ONE change alone against the clean tree (demo files NOT included), applicable with `git apply`
  - demo3.py, demo4.py
  - notes.md : for each patch: style, which clause of the property it breaks, what it needs in order to manifest, the exact commands you ran and their results
Before finishing, VERIFY for each patch: (1) full suite passes with the patch applied (438 passed), (2) demo fails with the patch, (3) demo passes on the clean tree. Leave the worktree's src/ CLEAN at the end, with the patch/demo/notes files untracked in {wt}.
Report back one short paragraph per patch (what it changes, why tests miss it, how the demo triggers it).""")
