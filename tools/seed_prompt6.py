#!/usr/bin/env python3
"""Round-6 adversary prompt for one property: fault at a particular point, and multi-step history. Only the property text goes in."""
import json, sys
pid, wt = sys.argv[1], sys.argv[2]
prop = [json.loads(l) for l in open('/verif/properties.jsonl') if json.loads(l)['id'] == pid][0]
print(f"""You are playing the adversary for a verification experiment on the magic-wormhole Python library (Twisted/Automat, PAKE-secured file transfer).

Your own scratch git worktree of the repository is at {wt} . Do ALL work there. Never modify or read anything under /repo or /verif (they are off limits); do not use the network (there is none). Do not use `git stash` (the worktree shares its git directory; undo with `git checkout -- src`) and do not kill processes you did not start.

How to run things:
  - interpreter: /venv/bin/python  (has twisted, automat, pytest, hypothesis, spake2, pynacl ... installed)
  - ALWAYS set PYTHONPATH={wt}/src so that `import wormhole` resolves to YOUR worktree, e.g.
      cd {wt} && PYTHONPATH={wt}/src /venv/bin/python -m pytest -q -p no:cacheprovider --timeout=900 -n 4
    On the unmodified tree this gives "438 passed, 31 skipped" in about 15 s.

The property under test (this is all you are given):

{json.dumps(prop, indent=1)}

TASK. Produce TWO changes to the library source (files under src/wormhole, NOT under src/wormhole/test), each of which BREAKS this property while the code still imports/compiles and the WHOLE existing test suite still passes (438 passed). Each must be a realistic regression (something a plausible commit could contain) and must need something specific to manifest; not something the happy path exposes at once. The two changes must be of these two prescribed STYLES and must attack DIFFERENT clauses/mechanisms of the property:

  patch11.diff - FAULT AT A PARTICULAR POINT: the change is harmless as long as nothing goes wrong, and breaks the property only when a collaborator FAILS or something is LOST at one particular moment: a transport write that raises, a connection that drops between two specific statements / messages, a Deferred that errbacks (or is cancelled) instead of firing, a callback supplied by the application that raises, a server reply that never arrives, a timer that fires just before / after an event, a disk that fills up, a peer that vanishes half-way through a handshake. Typical shapes: cleanup that is skipped on that path, state updated before the operation that then fails, a retry that repeats a non-idempotent step, an exception handler that swallows / mislabels the failure, a resource (listener, timer, file, registration, claim) that is left behind. Your demo must inject exactly that fault.

  patch12.diff - MULTI-STEP HISTORY: the change is invisible in any single operation and in the first use of anything; it needs a HISTORY of at least three steps to manifest: the second or third reconnect / generation / transfer / subchannel / code attempt, something closed and opened again, a value carried over from an earlier session step (counter, cache, set, flag, stored callback) that is now stale, doubled, never reset or reset too often, wrap-around of a counter, a queue that is drained twice, a registration that accumulates. Your demo must walk through that history.

Avoid the most obvious spot for this property (the first function anyone would look at); prefer a collaborator, a less-travelled row of a state machine, or a helper. Keep each change small (a few lines).

For each, write a DEMONSTRATION: a stand-alone script (demo11.py / demo12.py, run as `cd {wt} && PYTHONPATH={wt}/src /venv/bin/python demo11.py`) that exits non-zero WITH the change and exits 0 WITHOUT it, by exercising the real library code (drive the real classes with fakes/mocks for the network where needed, e.g. twisted.internet.task.Clock, fake transports, mock.Mock for neighbours as the existing tests do). The demo must show the behavioural violation of the property (not just that the source text differs), and must not assert anything about the path of the worktree.

DELIVERABLES (in {wt}):
  - patch11.diff, patch12.diff : each the `git diff -- src` of ONE change alone against the clean tree (demo files NOT included), applicable with `git apply`
  - demo11.py, demo12.py
  - notes.md : for each patch: style, which clause of the property it breaks, what it needs in order to manifest, the exact commands you ran and their results
Before finishing, VERIFY for each patch: (1) full suite passes with the patch applied (438 passed), (2) demo fails with the patch, (3) demo passes on the clean tree. Leave the worktree's src/ CLEAN at the end, with the patch/demo/notes files untracked in {wt}.
Report back one short paragraph per patch (what it changes, why tests miss it, how the demo triggers it).""")
