#!/venv/bin/python
"""F13 (C03, found by reading after a sub-agent's side remark): a get_message() Deferred that the application cancels (e.g. through
Deferred.addTimeout) stays in SequenceObserver._observers; the next message that arrives is handed to that dead Deferred - twisted
silently drops a callback() on a cancelled Deferred - and is lost: the application's later get_message() calls see the sequence with
one record missing.
Run: PYTHONPATH=<tree>/src /venv/bin/python tools/repro_F13.py   (exit 1 = defect present, 0 = absent)"""
import sys
from twisted.internet.task import Clock
from twisted.internet.defer import CancelledError
from wormhole.eventual import EventualQueue
from wormhole.observer import SequenceObserver

clock = Clock()
eq = EventualQueue(clock)
o = SequenceObserver(eq)
got, errs = [], []
d1 = o.when_next_event()                     # w.get_message()
d1.addCallbacks(got.append, lambda f: errs.append(f.type))
d1.addTimeout(5, clock)                      # the application gives up waiting after 5 s
clock.advance(6)
eq.flush_sync()
assert errs and got == [], (errs, got)       # the read timed out (TimeoutError / CancelledError)
for m in (b"record-0", b"record-1"):         # the peer's messages arrive afterwards
    o.fire(m)
eq.flush_sync()
for _ in range(2):                           # the application reads again
    o.when_next_event().addCallback(got.append)
eq.flush_sync()
print("received:", got)
if got != [b"record-0", b"record-1"]:
    print("DEFECT: a message was swallowed by the cancelled read")
    sys.exit(1)
sys.exit(0)
