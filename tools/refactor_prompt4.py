#!/usr/bin/env python3
"""Round-4 prompt for BEHAVIOUR-PRESERVING refactorings (false-alarm probes): free-style clean-up and modernisation. Only the property text goes in."""
import json, sys
pid, wt = sys.argv[1], sys.argv[2]
prop = [json.loads(l) for l in open('/verif/properties.jsonl') if json.loads(l)['id'] == pid][0]
print(f"""You are helping to test a verification effort for the magic-wormhole Python library (Twisted/Automat, PAKE-secured file transfer) by playing a careful MAINTAINER.

Your own scratch git worktree of the repository is at {wt} . Do ALL work there. Never modify or read anything under /repo or /verif (off limits); there is no network. Do not use `git stash` (the worktree shares its git directory); to undo use `git checkout -- src`. Do not kill processes you did not start.

How to run things:
  - interpreter: /venv/bin/python ; ALWAYS set PYTHONPATH={wt}/src so that `import wormhole` resolves to YOUR worktree, e.g.
      cd {wt} && PYTHONPATH={wt}/src /venv/bin/python -m pytest -q -p no:cacheprovider --timeout=900 -n 4
    On the unmodified tree this gives "438 passed, 31 skipped" in about 15 s.

A semantic property of the library (this is all you are given about the verification effort):

{json.dumps(prop, indent=1)}

TASK. Produce TWO independent BEHAVIOUR-PRESERVING refactorings of the source code that implements this property (the files under "anchors", i.e. library code under src/wormhole, NOT tests). Each must leave the observable behaviour of the library exactly as it is - the property above must obviously still hold, no API or wire-format change - and the whole test suite must still pass (438 passed). They must be realistic maintenance edits a reviewer would accept, touch the very code the property's mechanisms rely on, and be of these two kinds (one each):

  refactor9.diff - CLEAN-UP PULL REQUEST, your own way: the clean-up you would really submit for the 2-4 functions / the state machine at the heart of this mechanism - whatever mixture of renaming, extracting or inlining helpers, restructuring control flow, reordering, changing a private representation, commenting and logging you judge makes the code better. You choose; do it the way YOU would, not the way of any list.

  refactor10.diff - MODERNISE: bring the same code up to current Python style without changing behaviour: f-strings / .format, comprehensions <-> loops, `with` blocks, early returns, `in (..)` for chains of `==`, dict.get / setdefault / pop with default, enumerate / zip, conditional expressions, assignment expressions where they help, type annotations, dataclass-like small records for ad-hoc tuples, module constants for repeated literals, `match`-free dispatch tables instead of if/elif chains (or the reverse), context-free helper functions instead of methods that do not use self.

Make each refactoring substantial enough to matter (several lines, in the heart of the mechanism), but keep behaviour identical. Do NOT fix bugs, do NOT change behaviour "for the better", do NOT touch tests, keep public API names and anything tests reference.

DELIVERABLES (in {wt}): refactor9.diff, refactor10.diff - each the `git diff -- src` of ONE refactoring alone against the clean tree (applicable with `git apply`), plus notes.md saying for each: what was done, which functions, why behaviour is unchanged, and the result of the full test suite with it applied (must be 438 passed). Verify each one separately: apply it to the clean tree, run the full suite, save the diff, then `git checkout -- src`. Leave src/ clean at the end.
Report back one short paragraph per refactoring.""")
