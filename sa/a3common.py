"""Shared driver for the properties decided (in part) by the typestate engine A3."""
import os
from concurrent.futures import ProcessPoolExecutor

from .automat_x import Program
from . import typestate as ts

_CACHE = {}

QUICK_ENVS = ["quick", "dilation", "dilation-oldpeer"]
THOROUGH_ENVS = ["quick", "dilation", "dilation-oldpeer", "dilate", "reentrant", "phases4", "phases-dilate", "phases-unknown", "postclose", "dilation-full"]


class Summary:
    """picklable digest of one exploration"""

    def __init__(self, r):
        self.env = r.env.describe()
        self.envname = r.env.name
        self.nstates, self.ntrans, self.exhaustive, self.wall = r.nstates, r.ntrans, r.exhaustive, r.wall
        self.viol = [dict(kind=v.kind, detail=v.detail, stack=list(v.stack), site=v.site,
                          path=list(getattr(v, "path", []))) for v in r.viol.values()]
        self.inv_fail = {"%s[%s] awaiting %s" % k: p for k, p in r.inv_fail.items()}
        self.connected_states = r.connected_states
        self.closing_states, self.n_stuck, self.stuck = r.closing_states, r.n_stuck, \
            [(p, m) for (p, m) in r.stuck]
        self.closed_states = r.closed_states
        self.awaiting = list(r.awaiting)
        self.fired_rows = sorted(r.fired_rows)
        self.app_events = sorted(r.app_events)
        self.events_used = dict(r.events_used)
        self.unknown_handlers = list(r.unknown_handlers)


def _explore(args):
    files, root, envname, seed = args
    from .srcmodel import SourceTree, AnalysisError
    try:
        tree = SourceTree(files, root)
        return Summary(ts.explore(tree, envname, seed))
    except AnalysisError as e:
        return ("analysis-error", str(e))


def explorations(tree, tier, seed=0, rep=None, extra=()):
    """run the environments of the tier; returns {envname: Summary}.  Cached per process by file digest.
    With rep.skip_a3 set (first pass of the checker self-test) nothing is explored and {} is returned."""
    from .srcmodel import AnalysisError
    if rep is not None and getattr(rep, "skip_a3", False):
        return {}
    envs = QUICK_ENVS if tier == "quick" else THOROUGH_ENVS
    envs = list(envs) + [e for e in extra if e not in envs]     # environments one property asks for on top of its tier's
    dig = (tuple(sorted((p, hash(t)) for p, t in tree.files.items())), seed)
    out = {}
    todo = []
    for e in envs:
        if (dig, e) in _CACHE:
            out[e] = _CACHE[(dig, e)]
        else:
            todo.append(e)
    if len(todo) == 1:
        res = [_explore((tree.files, tree.root, todo[0], seed))]
    elif todo:
        jobs = min(len(todo), int(os.environ.get("VERIF_JOBS", "16")))
        with ProcessPoolExecutor(max_workers=jobs) as ex:
            res = list(ex.map(_explore, [(tree.files, tree.root, e, seed) for e in todo]))
    else:
        res = []
    for e, r in zip(todo, res):
        if isinstance(r, tuple):
            raise AnalysisError("typestate exploration (%s environment): %s" % (e, r[1]))
        _CACHE[(dig, e)] = r
        out[e] = r
    # mark the client files as consulted (the engine reads them through Program)
    for p in tree.paths():
        if "/_dilation/" not in p and "/cli/" not in p:
            tree.consulted.add(p)
    return out


def fill_extra(rep, sums):
    if not sums:
        return
    q = sums.get("quick") or list(sums.values())[0]
    rep.extra["states"] = sum(s.nstates for s in sums.values())
    rep.extra["transitions"] = sum(s.ntrans for s in sums.values())
    rep.extra["exhaustive"] = all(s.exhaustive for s in sums.values())
    rep.extra["environments"] = [dict(s.env, states=s.nstates, transitions=s.ntrans, exhaustive=s.exhaustive,
                                      wall_s=round(s.wall, 1), closing_states=s.closing_states,
                                      connected_states=s.connected_states) for s in sums.values()]
    rep.extra["machine_rows_exercised"] = len(q.fired_rows)
    rep.evaluations += sum(s.ntrans for s in sums.values())
    if "T3" not in rep.trusted:
        rep.trusted.append("T3")
