"""Engine A4: helpers for per-machine table rules (evaluated on the extracted Automat tables)."""
import ast
import collections

from .automat_x import output_calls, output_call_names, row_call_names
from .astutil import dotted


def colouring(m, con="connected", lost="lost"):
    """connectivity colouring of the states of a machine that is told connected/lost:
    state -> subset of {'A' (disconnected), 'B' (connected)} reachable from the initial state (A)."""
    col = collections.defaultdict(set)
    col[m.initial].add("A")
    work = [(m.initial, "A")]
    while work:
        s, c = work.pop()
        for row in m.rows_from(s):
            c2 = "B" if row.inp == con else "A" if row.inp == lost else c
            if c2 not in col[row.enter]:
                col[row.enter].add(c2)
                work.append((row.enter, c2))
    return col


def rows_calling(m, suffix, depth=4):
    """rows having an output that (transitively through self.<method>) calls something ending in `suffix`
    -> list of (row, output name)"""
    res = []
    for row in m.rows.values():
        for o in row.outputs:
            if any(c == suffix or c.endswith(suffix) for c in output_call_names(m, o, depth)):
                res.append((row, o))
    return res


def row_calls(m, row, depth=4):
    return row_call_names(m, row, depth)


def reachable_states(m, start=None, avoid_inputs=()):
    start = start or m.initial
    seen = {start}
    work = [start]
    while work:
        s = work.pop()
        for row in m.rows_from(s):
            if row.inp in avoid_inputs:
                continue
            if row.enter not in seen:
                seen.add(row.enter)
                work.append(row.enter)
    return seen


def simple_paths(m, target, start=None, maxlen=12):
    """all simple (state-repetition-free, self loops skipped) row paths start -> target"""
    start = start or m.initial
    res = []

    def dfs(s, rows, seen):
        if s == target and rows:
            res.append(rows)
            return
        if len(rows) >= maxlen:
            return
        for row in m.rows_from(s):
            if row.enter != row.src and row.enter not in seen:
                dfs(row.enter, rows + [row], seen | {row.enter})
    dfs(start, [], {start})
    return res


def inputs_on_all_paths(m, target, start=None):
    """set of inputs that occur on every simple path start -> target (None if no path)"""
    ps = simple_paths(m, target, start)
    if not ps:
        return None
    common = None
    for p in ps:
        s = {r.inp for r in p}
        common = s if common is None else (common & s)
    return common


def assigns_in_output(m, oname, attr):
    """value expressions assigned to self.<attr> inside output `oname`"""
    fn = m.outputs.get(oname) or m.methods.get(oname)
    out = []
    if fn is None:
        return out
    from .astutil import resolve_local
    for n in ast.walk(fn):
        if isinstance(n, ast.Assign):
            for t in n.targets:
                if isinstance(t, ast.Attribute) and isinstance(t.value, ast.Name) and t.value.id == "self" \
                        and t.attr == attr:
                    v = n.value
                    if isinstance(v, ast.Name):
                        v = resolve_local(fn, v)     # `result = X(); self._result = result`
                    out.append(v)
    return out


def output_raises(m, oname):
    """exception class names raised unconditionally at the top level of output `oname`"""
    fn = m.outputs.get(oname)
    out = []
    if fn is None:
        return out
    for st in fn.body:
        if isinstance(st, ast.Raise) and st.exc is not None:
            f = st.exc.func if isinstance(st.exc, ast.Call) else st.exc
            out.append(dotted(f) or "?")
    return out


def reachable_avoiding_rows(m, row_pred, start=None):
    """states reachable from start without traversing a row satisfying row_pred"""
    start = start or m.initial
    seen = {start}
    work = [start]
    while work:
        s = work.pop()
        for row in m.rows_from(s):
            if row_pred(row):
                continue
            if row.enter not in seen:
                seen.add(row.enter)
                work.append(row.enter)
    return seen


def held_states(m, acquire_suffix, release_input):
    """states in which the resource may be held at the server: reachable through a row whose outputs call something
    ending in acquire_suffix, without having passed a row on release_input since"""
    acq = [r for r in m.rows.values() if any(c.endswith(acquire_suffix) for c in row_call_names(m, r))]
    seen = set()
    work = [r.enter for r in acq]
    while work:
        s = work.pop()
        if s in seen:
            continue
        seen.add(s)
        for row in m.rows_from(s):
            if row.inp == release_input:
                continue
            work.append(row.enter)
    return seen


def opened_states(m, suffix):
    """states entered by rows whose outputs call something ending in suffix"""
    return {r.enter for r in m.rows.values() if any(c.endswith(suffix) for c in row_call_names(m, r))}
