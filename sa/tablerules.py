"""Engine A4: helpers for per-machine table rules (evaluated on the extracted Automat tables)."""
import ast
import collections

from .automat_x import output_calls, output_call_names, row_call_names
from .astutil import dotted


def colouring(m, con="connected", lost="lost"):
    """connectivity colouring of the states of a machine that is told connected/lost:
    state -> subset of {'A' (disconnected), 'B' (connected)} reachable from the initial state (A)."""
    col = collections.defaultdict(set)
    col[m.initial].add("A")
    work = [(m.initial, "A")]
    while work:
        s, c = work.pop()
        for row in m.rows_from(s):
            c2 = "B" if row.inp == con else "A" if row.inp == lost else c
            if c2 not in col[row.enter]:
                col[row.enter].add(c2)
                work.append((row.enter, c2))
    return col


def rows_calling(m, suffix, depth=4):
    """rows having an output that (transitively through self.<method>) calls something ending in `suffix`
    -> list of (row, output name)"""
    res = []
    for row in m.rows.values():
        for o in row.outputs:
            if any(c == suffix or c.endswith(suffix) for c in output_call_names(m, o, depth)):
                res.append((row, o))
    return res


def row_calls(m, row, depth=4):
    return row_call_names(m, row, depth)


def reachable_states(m, start=None, avoid_inputs=()):
    start = start or m.initial
    seen = {start}
    work = [start]
    while work:
        s = work.pop()
        for row in m.rows_from(s):
            if row.inp in avoid_inputs:
                continue
            if row.enter not in seen:
                seen.add(row.enter)
                work.append(row.enter)
    return seen


def simple_paths(m, target, start=None, maxlen=12):
    """all simple (state-repetition-free, self loops skipped) row paths start -> target"""
    start = start or m.initial
    res = []

    def dfs(s, rows, seen):
        if s == target and rows:
            res.append(rows)
            return
        if len(rows) >= maxlen:
            return
        for row in m.rows_from(s):
            if row.enter != row.src and row.enter not in seen:
                dfs(row.enter, rows + [row], seen | {row.enter})
    dfs(start, [], {start})
    return res


def inputs_on_all_paths(m, target, start=None):
    """set of inputs that occur on every simple path start -> target (None if no path)"""
    ps = simple_paths(m, target, start)
    if not ps:
        return None
    common = None
    for p in ps:
        s = {r.inp for r in p}
        common = s if common is None else (common & s)
    return common


def assigns_in_output(m, oname, attr):
    """value expressions assigned to self.<attr> inside output `oname`"""
    fn = m.outputs.get(oname) or m.methods.get(oname)
    out = []
    if fn is None:
        return out
    from .astutil import resolve_local
    for n in ast.walk(fn):
        if isinstance(n, ast.Assign):
            for t in n.targets:
                if isinstance(t, ast.Attribute) and isinstance(t.value, ast.Name) and t.value.id == "self" \
                        and t.attr == attr:
                    v = n.value
                    if isinstance(v, ast.Name):
                        v = resolve_local(fn, v)     # `result = X(); self._result = result`
                    out.append(v)
    return out


def output_raises(m, oname):
    """exception class names raised unconditionally at the top level of output `oname`"""
    fn = m.outputs.get(oname)
    out = []
    if fn is None:
        return out
    for st in fn.body:
        if isinstance(st, ast.Raise) and st.exc is not None:
            f = st.exc.func if isinstance(st.exc, ast.Call) else st.exc
            out.append(dotted(f) or "?")
    return out


def reachable_avoiding_rows(m, row_pred, start=None):
    """states reachable from start without traversing a row satisfying row_pred"""
    start = start or m.initial
    seen = {start}
    work = [start]
    while work:
        s = work.pop()
        for row in m.rows_from(s):
            if row_pred(row):
                continue
            if row.enter not in seen:
                seen.add(row.enter)
                work.append(row.enter)
    return seen


def held_states(m, acquire_suffix, release_input):
    """states in which the resource may be held at the server: reachable through a row whose outputs call something
    ending in acquire_suffix, without having passed a row on release_input since"""
    acq = [r for r in m.rows.values() if any(c.endswith(acquire_suffix) for c in row_call_names(m, r))]
    seen = set()
    work = [r.enter for r in acq]
    while work:
        s = work.pop()
        if s in seen:
            continue
        seen.add(s)
        for row in m.rows_from(s):
            if row.inp == release_input:
                continue
            work.append(row.enter)
    return seen


def opened_states(m, suffix):
    """states entered by rows whose outputs call something ending in suffix"""
    return {r.enter for r in m.rows.values() if any(c.endswith(suffix) for c in row_call_names(m, r))}


def calls_application(m, name, app_attrs=("_protocol",), depth=4):
    """the Call nodes of output `name` (followed through self.<method>()) that run application-supplied code:
    (a) a direct call of a stored callable - `self.<attr>(..)` where <attr> is no method, output or input of the class (a callback the
        application handed in, e.g. the status callback);
    (b) any call whose callee expression mentions `self.<a>` for a in app_attrs (the application's protocol object, also when adapted:
        IHalfCloseableProtocol(self._protocol).writeConnectionLost())"""
    defs = set(m.methods) | set(m.outputs) | set(m.inputs) | set(m.states)
    out = []
    for c in output_calls(m, name, depth):
        f = c.func
        if isinstance(f, ast.Attribute) and isinstance(f.value, ast.Name) and f.value.id == "self" and f.attr not in defs:
            out.append(c)
            continue
        if any(isinstance(x, ast.Attribute) and isinstance(x.value, ast.Name) and x.value.id == "self" and x.attr in app_attrs
               for x in ast.walk(f)):
            out.append(c)
    return out


def application_outputs_last(rep, rule, m, why, app_attrs=("_protocol",), min_rows=1):
    """Automat enters the new state BEFORE it runs a row's outputs, and an exception from one output skips the rest for good (the input
    cannot be repeated: the state has moved on).  So in every row the outputs that run application-supplied code - the only ones that
    can raise for reasons outside this package - come after every output that does the machine's own work (telling the peer, the
    manager, the timer)."""
    n = 0
    for row in m.rows.values():
        flags = [bool(calls_application(m, o, app_attrs)) for o in row.outputs]
        if True not in flags:
            continue
        n += 1
        first = flags.index(True)
        late = [o for o, f in zip(row.outputs[first:], flags[first:]) if not f]
        rep.check(rule, "%s %s.%s: the outputs that call the application (%s) run after the machine's own (%s)"
                  % (m.name, row.src, row.inp, ", ".join(o for o, f in zip(row.outputs, flags) if f),
                     ", ".join(o for o, f in zip(row.outputs, flags) if not f) or "-"),
                  not late, row.site, key="%s:%s[%s].%s:application-last" % (rule, m.name, row.src, row.inp),
                  what="%s %s.%s runs %s (application code) before %s: if the application's callback raises, the state has already "
                       "changed and %s never happens - %s" % (m.name, row.src, row.inp, row.outputs[first], ", ".join(late), ", ".join(late), why))
    if n < min_rows:
        from .srcmodel import AnalysisError
        raise AnalysisError("%s: fewer rows with application-calling outputs than expected in %s (%d < %d)" % (rule, m.name, n, min_rows))
    return n


def fires_deferred_directly(m, name, depth=4):
    """Call nodes of output `name` that fire a Deferred in place - `<d>.callback(..)` / `<d>.errback(..)` as a call, not as a function
    handed to eventually(): whoever holds that Deferred (the application, for the input helper's when_wordlist_is_available()) runs
    its callbacks inside this output"""
    out = []
    for c in output_calls(m, name, depth):
        f = c.func
        if isinstance(f, ast.Attribute) and f.attr in ("callback", "errback") and isinstance(f.value, ast.Name):
            out.append(c)
    return out


def reaches_application(prog, m, name, app_attrs=("_protocol",), depth=3, _seen=None):
    """does output `name` of machine m run application code synchronously: itself (calls_application / fires_deferred_directly), or
    through an input it feeds to a neighbouring machine (resolved through the wiring) whose row outputs do"""
    _seen = _seen if _seen is not None else set()
    key = (m.name, name)
    if key in _seen or depth < 0:
        return None
    _seen.add(key)
    direct = calls_application(m, name, app_attrs) + fires_deferred_directly(m, name)
    if direct:
        return "%s.%s" % (m.name, name)
    for c in output_calls(m, name):
        d = dotted(c.func) or ""
        parts = d.split(".")
        if len(parts) == 3 and parts[0] == "self":
            tgt = m.wiring.get(parts[1])
            m2 = prog.machines.get(tgt) if isinstance(tgt, str) else None
            if m2 is not None and parts[2] in m2.inputs:
                for row in m2.rows_on(parts[2]):
                    for o2 in row.outputs:
                        r = reaches_application(prog, m2, o2, app_attrs, depth - 1, _seen)
                        if r:
                            return "%s -> %s" % ("%s.%s" % (m.name, name), r)
    return None
