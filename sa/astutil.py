"""Small structural helpers over `ast` (no text matching of expressions)."""
import ast

FUNC_TYPES = (ast.FunctionDef, ast.AsyncFunctionDef, ast.Lambda)


def dotted(node):
    """'self._W.received' for a Name/Attribute chain, else None."""
    parts = []
    while isinstance(node, ast.Attribute):
        parts.append(node.attr)
        node = node.value
    if isinstance(node, ast.Name):
        parts.append(node.id)
        return ".".join(reversed(parts))
    return None


def is_self_attr(node, attr=None):
    return (isinstance(node, ast.Attribute) and isinstance(node.value, ast.Name)
            and node.value.id == "self" and (attr is None or node.attr == attr))


def walk_shallow(node):
    """ast.walk that does not descend into nested function/lambda/class bodies."""
    todo = [node]
    first = True
    while todo:
        n = todo.pop()
        if not first and isinstance(n, FUNC_TYPES + (ast.ClassDef,)):
            yield n  # the def itself is visible, its body is not
            continue
        first = False
        yield n
        todo.extend(ast.iter_child_nodes(n))


def calls(node, shallow=False):
    it = walk_shallow(node) if shallow else ast.walk(node)
    return [n for n in it if isinstance(n, ast.Call)]


def call_name(call):
    return dotted(call.func)


def calls_named(node, name, shallow=False):
    """calls whose dotted callee equals `name` (e.g. 'self._W.received') or,
    if name starts with '.', ends with that attribute name."""
    out = []
    for c in calls(node, shallow):
        d = dotted(c.func)
        if d is None:
            if name.startswith(".") and isinstance(c.func, ast.Attribute) and c.func.attr == name[1:]:
                out.append(c)
            continue
        if d == name or (name.startswith(".") and (d.endswith(name) or d == name[1:])):
            out.append(c)
    return out


def params(fn, skip_self=True):
    a = fn.args
    names = [x.arg for x in a.posonlyargs + a.args]
    if skip_self and names and names[0] in ("self", "cls"):
        names = names[1:]
    names += [x.arg for x in a.kwonlyargs]
    return names


def parent(node):
    return getattr(node, "_parent", None)


def ancestors(node):
    n = parent(node)
    while n is not None:
        yield n
        n = parent(n)


def enclosing_function(node):
    for a in ancestors(node):
        if isinstance(a, (ast.FunctionDef, ast.AsyncFunctionDef)):
            return a
    return None


def enclosing_class(node):
    for a in ancestors(node):
        if isinstance(a, ast.ClassDef):
            return a
    return None


def enclosing_stmt(node):
    n = node
    while n is not None and not isinstance(n, ast.stmt):
        n = parent(n)
    return n


def const(node, types=None):
    """value of an ast.Constant (optionally type-restricted), else the sentinel NOCONST"""
    if isinstance(node, ast.Constant) and (types is None or isinstance(node.value, types)):
        return node.value
    return NOCONST


class _NoConst:
    def __repr__(self):
        return "NOCONST"


NOCONST = _NoConst()


def same_expr(a, b):
    """structural equality of two expressions (ignores positions and ctx)"""
    if type(a) is not type(b):
        return False
    if isinstance(a, ast.AST):
        for f in a._fields:
            if f == "ctx":
                continue
            if not same_expr(getattr(a, f, None), getattr(b, f, None)):
                return False
        return True
    if isinstance(a, list):
        return len(a) == len(b) and all(same_expr(x, y) for x, y in zip(a, b))
    return a == b


def names_loaded(node):
    return {n.id for n in ast.walk(node) if isinstance(n, ast.Name)}


def local_defs(fn, name):
    """all value expressions assigned to local `name` in fn (flow-insensitive);
    tuple-unpacking / for / with / except targets yield the marker OPAQUE."""
    out = []
    for n in walk_shallow(fn):
        if isinstance(n, ast.Assign):
            for t in n.targets:
                if isinstance(t, ast.Name) and t.id == name:
                    out.append(n.value)
                elif isinstance(t, (ast.Tuple, ast.List)) and any(
                        isinstance(e, ast.Name) and e.id == name for e in ast.walk(t)):
                    out.append(OPAQUE)
        elif isinstance(n, ast.AnnAssign) and isinstance(n.target, ast.Name) and n.target.id == name and n.value:
            out.append(n.value)
        elif isinstance(n, ast.AugAssign) and isinstance(n.target, ast.Name) and n.target.id == name:
            out.append(OPAQUE)
        elif isinstance(n, (ast.For, ast.AsyncFor)):
            if any(isinstance(e, ast.Name) and e.id == name for e in ast.walk(n.target)):
                out.append(OPAQUE)
        elif isinstance(n, (ast.With, ast.AsyncWith)):
            for it in n.items:
                if it.optional_vars is not None and any(
                        isinstance(e, ast.Name) and e.id == name for e in ast.walk(it.optional_vars)):
                    out.append(OPAQUE)
        elif isinstance(n, ast.ExceptHandler) and n.name == name:
            out.append(OPAQUE)
        elif isinstance(n, ast.NamedExpr) and isinstance(n.target, ast.Name) and n.target.id == name:
            out.append(n.value)
    return out


class _Opaque:
    def __repr__(self):
        return "OPAQUE"


OPAQUE = _Opaque()


def resolve_local(fn, expr, depth=4):
    """If expr is a Name with exactly one plain definition in fn and is not a
    parameter, return that definition (recursively); otherwise expr itself."""
    seen = 0
    while isinstance(expr, ast.Name) and seen < depth:
        if expr.id in params(fn, skip_self=False):
            return expr
        defs = local_defs(fn, expr.id)
        if len(defs) != 1 or defs[0] is OPAQUE:
            return expr
        expr = defs[0]
        seen += 1
    return expr


def strip_yield(expr):
    """`yield X` -> X (inlineCallbacks idiom)"""
    while isinstance(expr, (ast.Yield, ast.Await)) and expr.value is not None:
        expr = expr.value
    return expr


def stmt_index_path(stmt):
    """list of (parent_field, index) pairs locating stmt inside its function"""
    path = []
    n = stmt
    while n is not None and not isinstance(n, (ast.FunctionDef, ast.AsyncFunctionDef)):
        p = parent(n)
        if p is None:
            break
        for f in p._fields:
            v = getattr(p, f, None)
            if isinstance(v, list) and n in v:
                path.append((f, v.index(n)))
                break
        n = p
    return list(reversed(path))


def block_of(stmt):
    """the statement list containing stmt and its index there"""
    p = parent(stmt)
    if p is None:
        return None, None
    for f in p._fields:
        v = getattr(p, f, None)
        if isinstance(v, list) and stmt in v:
            return v, v.index(stmt)
    return None, None


def decorator_names(fn):
    out = []
    for d in fn.decorator_list:
        if isinstance(d, ast.Call):
            d = d.func
        n = dotted(d)
        if n:
            out.append(n)
    return out


def short(node, n=90):
    try:
        s = ast.unparse(node)
    except Exception:
        s = "<%s>" % type(node).__name__
    s = " ".join(s.split())
    return s if len(s) <= n else s[:n - 3] + "..."


def concat_terms(node):
    """operands of a concatenation written with `+` or as <empty constant>.join([..]) / .join((..))"""
    if isinstance(node, ast.BinOp) and isinstance(node.op, ast.Add):
        return concat_terms(node.left) + concat_terms(node.right)
    if isinstance(node, ast.Call) and isinstance(node.func, ast.Attribute) and node.func.attr == "join" \
            and isinstance(node.func.value, ast.Constant) and node.func.value.value in (b"", "") \
            and len(node.args) == 1 and isinstance(node.args[0], (ast.List, ast.Tuple)) and not node.keywords \
            and not any(isinstance(e, ast.Starred) for e in node.args[0].elts):
        out = []
        for e in node.args[0].elts:
            out.extend(concat_terms(e))
        return out
    return [node]


def int_to_decimal_str_of(node):
    """X if node renders the integer X in decimal: "%d" % X, "%d" % (X,), str(X), f"{X}", f"{X:d}", "{}".format(X),
    "{:d}".format(X); else None"""
    if isinstance(node, ast.BinOp) and isinstance(node.op, ast.Mod) and isinstance(node.left, ast.Constant) \
            and node.left.value in ("%d", "%s", "%i"):
        r = node.right
        if isinstance(r, ast.Tuple) and len(r.elts) == 1:
            r = r.elts[0]
        return None if isinstance(r, ast.Tuple) else r
    if isinstance(node, ast.Call) and isinstance(node.func, ast.Name) and node.func.id == "str" and len(node.args) == 1 \
            and not node.keywords:
        return node.args[0]
    if isinstance(node, ast.JoinedStr) and len(node.values) == 1 and isinstance(node.values[0], ast.FormattedValue):
        fv = node.values[0]
        spec = fv.format_spec
        spec_ok = spec is None or (isinstance(spec, ast.JoinedStr) and len(spec.values) == 1
                                   and isinstance(spec.values[0], ast.Constant) and spec.values[0].value in ("d", ""))
        if fv.conversion in (-1, 115) and spec_ok:
            return fv.value
    if isinstance(node, ast.Call) and isinstance(node.func, ast.Attribute) and node.func.attr == "format" \
            and isinstance(node.func.value, ast.Constant) and node.func.value.value in ("{}", "{:d}", "{0}", "{0:d}") \
            and len(node.args) == 1 and not node.keywords:
        return node.args[0]
    return None


def prefixed_int_str_of(node, prefix):
    """X if node renders  prefix + <decimal of the integer X>:  "p%d" % X, f"p{X}", f"p{X:d}", "p{}".format(X), "p" + str(X)"""
    if isinstance(node, ast.BinOp) and isinstance(node.op, ast.Mod) and isinstance(node.left, ast.Constant) \
            and node.left.value in (prefix + "%d", prefix + "%s", prefix + "%i"):
        r = node.right
        if isinstance(r, ast.Tuple) and len(r.elts) == 1:
            r = r.elts[0]
        return None if isinstance(r, ast.Tuple) else r
    if isinstance(node, ast.JoinedStr) and len(node.values) == 2 and isinstance(node.values[0], ast.Constant) \
            and node.values[0].value == prefix and isinstance(node.values[1], ast.FormattedValue):
        return int_to_decimal_str_of(ast.JoinedStr(values=[node.values[1]]))
    if isinstance(node, ast.Call) and isinstance(node.func, ast.Attribute) and node.func.attr == "format" \
            and isinstance(node.func.value, ast.Constant) and node.func.value.value in (prefix + "{}", prefix + "{:d}", prefix + "{0}") \
            and len(node.args) == 1 and not node.keywords:
        return node.args[0]
    if isinstance(node, ast.BinOp) and isinstance(node.op, ast.Add) and isinstance(node.left, ast.Constant) and node.left.value == prefix:
        return int_to_decimal_str_of(node.right)
    return None


def hyphen_joined(node):
    """[a, b] if node is  a + "-" + b  or  "-".join((a, b)) / "-".join([a, b])  else None"""
    if isinstance(node, ast.BinOp) and isinstance(node.op, ast.Add) and isinstance(node.left, ast.BinOp) and isinstance(node.left.op, ast.Add) \
            and isinstance(node.left.right, ast.Constant) and node.left.right.value == "-":
        return [node.left.left, node.right]
    if isinstance(node, ast.Call) and isinstance(node.func, ast.Attribute) and node.func.attr == "join" and isinstance(node.func.value, ast.Constant) \
            and node.func.value.value == "-" and len(node.args) == 1 and isinstance(node.args[0], (ast.Tuple, ast.List)) and len(node.args[0].elts) == 2:
        return list(node.args[0].elts)
    return None


def callback_function(expr, enclosing_fn=None, methods=None):
    """the function a callback expression denotes: a lambda, a closure of enclosing_fn (by name), a bound method
    self.<m> of the class (methods: name -> FunctionDef), or functools.partial(<one of those>, ..); else None"""
    if isinstance(expr, ast.Lambda):
        return expr
    if isinstance(expr, ast.Call) and dotted(expr.func) in ("functools.partial", "partial") and expr.args:
        return callback_function(expr.args[0], enclosing_fn, methods)
    if isinstance(expr, ast.Name) and enclosing_fn is not None:
        for n in ast.walk(enclosing_fn):
            if isinstance(n, (ast.FunctionDef, ast.AsyncFunctionDef)) and n is not enclosing_fn and n.name == expr.id:
                return n
    if methods is not None and is_self_attr(expr) and expr.attr in methods:
        return methods[expr.attr]
    return None


def clone(n):
    """structural copy of a syntax tree WITHOUT the analysis annotations (`_parent` links and caches): copy.deepcopy would follow
    `_parent` up to the module and copy the whole file for every node"""
    if isinstance(n, ast.AST):
        new = n.__class__()
        for f in n._fields:
            if hasattr(n, f):
                setattr(new, f, clone(getattr(n, f)))
        for a in n._attributes:
            if hasattr(n, a):
                setattr(new, a, getattr(n, a))
        return new
    if isinstance(n, list):
        return [clone(x) for x in n]
    return n
