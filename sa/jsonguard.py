"""Engine B': flow-sensitive JSON type-guard analysis (C20).

A small abstract interpreter over the type lattice P({dict, list, str, int, float, bool, none}) for values that
come from peer-controlled JSON, with per-key facts for dict values (presence and value types), narrowing through
isinstance / `in` / not / and / or / early return / continue, namedtuple construction with per-field values, and
container element types.  It reports every operation that can raise on a type the value may still have:
subscript or .get on a non-dict, subscript without a presence guard, iteration over a non-iterable, hashing of a
possibly unhashable value (set member, dict key), ordering of possibly incomparable values, %d formatting and
int()/float() of a non-number, attribute access on a hint object of the wrong class.  A raise that an enclosing
try/except of the same function catches is not reported.  Unknown statement kinds are an analysis error.
"""
import ast
import re

from .srcmodel import AnalysisError

ALLTAGS = frozenset("dict list str int float bool none".split())
NUM = frozenset(("int", "float", "bool"))


def J(tags=ALLTAGS, facts=()):
    return frozenset([("json", frozenset(tags), frozenset(facts))])


def PY(kind):
    return frozenset([("py", kind)])


NONE = PY("none")
OTHER = PY("other")
TOPJ = J()


def OBJ(cls, fields):
    return frozenset([("obj", cls, tuple(sorted(fields.items())))])


def CONT(kind, elems=frozenset()):
    return frozenset([(kind, elems)])


def DICTC(k=frozenset(), v=frozenset()):
    return frozenset([("dictc", k, v)])


PYTYPE_TAGS = {"dict": {"dict"}, "list": {"list"}, "str": {"str"}, "int": {"int", "bool"}, "float": {"float"}, "bool": {"bool"}}
PYKIND_OF_TYPE = {"dict": {"dictc"}, "list": {"list"}, "str": {"str"}, "int": {"int", "bool"}, "float": {"float"}, "bool": {"bool"},
                  "tuple": {"tuple"}, "set": {"set"}}
EXC_OF_KIND = {"INDEX": "IndexError", "SUBSCRIPT": "TypeError", "KEYERROR": "KeyError", "ITERATE": "TypeError", "HASH": "TypeError", "ORDER": "TypeError",
               "ATTR": "AttributeError", "FORMAT": "TypeError", "CONVERT": "TypeError", "CONTAINS": "TypeError", "CONSTRUCT": None}
EXC_PARENTS = {"KeyError": ("LookupError",), "IndexError": ("LookupError",)}


def type_names(node):
    if isinstance(node, ast.Tuple):
        out = []
        for e in node.elts:
            out += type_names(e)
        return out
    if isinstance(node, ast.Name):
        return [node.id]
    return ["?"]


def split_isinstance(val, tnames):
    t, f = set(), set()
    for a in val:
        if a[0] == "json":
            want = set()
            for n in tnames:
                want |= PYTYPE_TAGS.get(n, set())
            yes = a[1] & want
            no = a[1] - want
            if yes:
                t.add(("json", frozenset(yes), a[2] if "dict" in yes else frozenset()))
            if no:
                f.add(("json", frozenset(no), a[2] if "dict" in no else frozenset()))
        elif a[0] == "py":
            kinds = set()
            for n in tnames:
                kinds |= PYKIND_OF_TYPE.get(n, {n})
            if a[1] in ("other", "converted"):
                t.add(a)
                f.add(a)
            elif a[1] in kinds:
                t.add(a)
            else:
                f.add(a)
        elif a[0] == "obj":
            (t if a[1] in tnames else f).add(a)
        else:
            kinds = set()
            for n in tnames:
                kinds |= PYKIND_OF_TYPE.get(n, {n})
            (t if a[0] in kinds else f).add(a)
    return frozenset(t), frozenset(f)


def truthy_split(val):
    t, f = set(), set()
    for a in val:
        if a == ("py", "none"):
            f.add(a)
        elif a[0] == "json":
            if a[1] - {"none"}:
                t.add(("json", a[1] - {"none"}, a[2]))
            f.add(a)
        elif a[0] == "obj":
            t.add(a)
        else:
            t.add(a)
            f.add(a)
    return frozenset(t), frozenset(f)


def keyfact(atom, key):
    for (k, p, tags) in atom[2]:
        if k == key:
            return (p, tags)
    return None


def with_fact(atom, key, present, tags):
    facts = {f for f in atom[2] if f[0] != key}
    facts.add((key, present, frozenset(tags)))
    return ("json", atom[1], frozenset(facts))


class Env(dict):
    def cp(self):
        return Env(self)


def join_env(a, b):
    if a is None:
        return b
    if b is None:
        return a
    out = Env()
    for k in set(a) | set(b):
        if isinstance(k, str) and k.startswith("\0src:"):
            if a.get(k) == b.get(k):        # provenance survives a join only when both paths agree on it
                out[k] = a[k]
            continue
        out[k] = a.get(k, frozenset()) | b.get(k, frozenset())
    return out


SRC = "\0src:"
EQ = "\0="


def const_fact(atom, key):
    for (k, p, vals) in atom[2]:
        if k == key + EQ:
            return vals
    return None


class Analyzer:
    @staticmethod
    def _source_of(e, env):
        """(dict variable, constant key, default constant or None) when e reads one key of a JSON dict held in a variable"""
        if isinstance(e, ast.Call) and isinstance(e.func, ast.Attribute) and e.func.attr == "get" and isinstance(e.func.value, ast.Name) \
                and e.func.value.id in env and e.args and isinstance(e.args[0], ast.Constant) and isinstance(e.args[0].value, str):
            dflt = e.args[1].value if len(e.args) > 1 and isinstance(e.args[1], ast.Constant) else (None if len(e.args) == 1 else "\0?")
            return (e.func.value.id, e.args[0].value, dflt)
        if isinstance(e, ast.Subscript) and isinstance(e.value, ast.Name) and e.value.id in env and isinstance(e.slice, ast.Constant) \
                and isinstance(e.slice.value, str):
            return (e.value.id, e.slice.value, "\0none")
        return None

    def _refine_by_constants(self, name, consts, env):
        """x (read from d[k]) compared with string constants: split d's atoms into those for which x may be one of `consts`
        and those for which it may be something else"""
        srcs = env.get(SRC + name)
        if not srcs or len(srcs) != 1:
            return None
        (_tag, dname, key, dflt) = next(iter(srcs))
        if dname not in env:
            return None
        consts = frozenset(consts)
        tv, fv = set(), set()
        for a in env[dname]:
            if a[0] != "json" or "dict" not in a[1]:
                tv.add(a)
                fv.add(a)
                continue
            known = const_fact(a, key)
            if known is not None:
                if known & consts:
                    tv.add(("json", a[1], frozenset({f for f in a[2] if f[0] != key + EQ} | {(key + EQ, "c", known & consts)})))
                if known - consts:
                    fv.add(("json", a[1], frozenset({f for f in a[2] if f[0] != key + EQ} | {(key + EQ, "c", known - consts)})))
                continue
            kf = keyfact(a, key)
            tags = kf[1] if kf else ALLTAGS
            if "str" in tags and not (isinstance(dflt, str) and dflt in consts and not dflt.startswith("\0")):
                # equal to a constant that is not the default: the key is present and holds that string
                t_atom = with_fact(a, key, "y", {"str"})
                tv.add(("json", t_atom[1], frozenset(t_atom[2] | {(key + EQ, "c", consts)})))
            elif "str" in tags:
                tv.add(a)
            fv.add(a)
        et, ef = env.cp(), env.cp()
        et[dname] = frozenset(tv)
        ef[dname] = frozenset(fv)
        return (et if tv else None), (ef if fv else None)

    def __init__(self, funcs, namedtuples, selfattrs=None, file_of=None):
        self.funcs = funcs                  # name -> FunctionDef
        self.namedtuples = namedtuples      # class name -> [fields]
        self.selfattrs = selfattrs if selfattrs is not None else {}
        self.file_of = file_of or {}
        self.depth = 0
        self.sinks = []                     # dicts
        self.stack = []
        self.handlers = []                  # stack of sets of caught exception names (per function frame, reset on inline)
        self.constructions = []             # (class, fields) seen for hint objects built from JSON
        self.ops = 0

    # ------------------------------------------------------------------ sinks
    def sink(self, node, kind, detail):
        exc = EXC_OF_KIND.get(kind)
        if exc is not None:
            for hs in self.handlers:
                if "*" in hs or "Exception" in hs or "BaseException" in hs or exc in hs or any(p in hs for p in EXC_PARENTS.get(exc, ())):
                    return
        fn = self.stack[-1] if self.stack else "?"
        key = (fn, kind, detail)
        for s in self.sinks:
            if s["key"] == key:
                return
        self.sinks.append({"key": key, "func": fn, "kind": kind, "detail": detail, "lineno": getattr(node, "lineno", 0),
                           "file": self.file_of.get(fn, "?"), "via": list(self.stack)})

    # ------------------------------------------------------------------ expressions
    def ev(self, e, env):
        self.ops += 1
        if isinstance(e, ast.Constant):
            v = e.value
            if v is None:
                return NONE
            return PY(type(v).__name__ if type(v).__name__ in ("str", "int", "float", "bool") else "other")
        if isinstance(e, ast.Name):
            if e.id in env:
                return env[e.id]
            return OTHER
        if isinstance(e, ast.JoinedStr):
            for v in e.values:
                if isinstance(v, ast.FormattedValue):
                    self.ev(v.value, env)
            return PY("str")
        if isinstance(e, ast.Attribute):
            if isinstance(e.value, ast.Name) and e.value.id == "self":
                return self.selfattrs.get(e.attr, OTHER)
            base = self.ev(e.value, env)
            out = set()
            for a in base:
                if a[0] == "obj":
                    d = dict(a[2])
                    if e.attr in d:
                        out |= d[e.attr]
                    elif a[1] in self.namedtuples and e.attr not in self.namedtuples[a[1]] and not e.attr.startswith("_"):
                        self.sink(e, "ATTR", "%s object has no attribute %r: %s" % (a[1], e.attr, ast.unparse(e)))
                        out |= OTHER
                    else:
                        out |= OTHER
                elif a[0] == "json":
                    self.sink(e, "ATTR", "attribute .%s on a JSON value of types %s: %s" % (e.attr, sorted(a[1]), ast.unparse(e)))
                    out |= OTHER
                elif a == ("py", "none"):
                    self.sink(e, "ATTR", "attribute .%s on a value that may be None: %s" % (e.attr, ast.unparse(e)))
                    out |= OTHER
                else:
                    out |= OTHER
            return frozenset(out)
        if isinstance(e, (ast.List, ast.Tuple, ast.Set)):
            el = frozenset()
            for x in e.elts:
                el |= self.ev(x, env)
            kind = {"List": "list", "Tuple": "tuple", "Set": "set"}[type(e).__name__]
            if kind == "set":
                self.hash_check(e, el, "set literal element")
            return CONT(kind, el)
        if isinstance(e, ast.Dict):
            k = frozenset()
            v = frozenset()
            for kk, vv in zip(e.keys, e.values):
                if kk is not None:
                    k |= self.ev(kk, env)
                v |= self.ev(vv, env)
            return DICTC(k, v)
        if isinstance(e, (ast.ListComp, ast.GeneratorExp, ast.SetComp)):
            return self.comp(e, env, "set" if isinstance(e, ast.SetComp) else "list")
        if isinstance(e, ast.Subscript):
            return self.subscript(e, env)
        if isinstance(e, ast.Call):
            return self.call(e, env)
        if isinstance(e, ast.BinOp):
            self.ev(e.left, env)
            self.ev(e.right, env)
            if isinstance(e.op, ast.Mod) and isinstance(e.left, ast.Constant) and isinstance(e.left.value, str):
                self.percent(e, e.left.value, e.right, env)
                return PY("str")
            return OTHER
        if isinstance(e, ast.Compare):
            lv = self.ev(e.left, env)
            for op, c in zip(e.ops, e.comparators):
                cv = self.ev(c, env)
                if isinstance(op, (ast.In, ast.NotIn)):
                    self.contains_check(e, lv, cv)
                if isinstance(op, (ast.Lt, ast.LtE, ast.Gt, ast.GtE)):
                    self.order_check(e, lv | cv, "comparison")
            return PY("bool")
        if isinstance(e, ast.BoolOp):
            out = frozenset()
            cur = env
            for v in e.values:
                if cur is None:
                    break
                out |= self.ev(v, cur)
                a, b = self.cond(v, cur)
                cur = a if isinstance(e.op, ast.And) else b
            return out
        if isinstance(e, ast.UnaryOp):
            self.ev(e.operand, env)
            return PY("bool") if isinstance(e.op, ast.Not) else OTHER
        if isinstance(e, ast.IfExp):
            et, ef = self.cond(e.test, env)
            out = frozenset()
            if et is not None:
                out |= self.ev(e.body, et)
            if ef is not None:
                out |= self.ev(e.orelse, ef)
            return out
        if isinstance(e, ast.Lambda):
            return OTHER
        if isinstance(e, ast.Starred):
            return self.ev(e.value, env)
        if isinstance(e, (ast.Yield, ast.Await)):
            return self.ev(e.value, env) if e.value is not None else NONE
        return OTHER

    def comp(self, e, env, kind):
        env2 = env.cp()
        for g in e.generators:
            it = self.ev(g.iter, env2)
            el = self.iterate(g.iter, it)
            for n in ast.walk(g.target):
                if isinstance(n, ast.Name):
                    env2[n.id] = el
            for c in g.ifs:
                et, ef = self.cond(c, env2)
                env2 = et if et is not None else env2
        elv = self.ev(e.elt, env2)
        if kind == "set":
            self.hash_check(e, elv, "set comprehension element")
        return CONT(kind, elv)

    def iterate(self, node, val):
        out = set()
        for a in val:
            if a[0] == "json":
                bad = a[1] & {"int", "float", "bool", "none"}
                if bad:
                    self.sink(node, "ITERATE", "iteration over a value that may be %s: %s" % (sorted(bad), ast.unparse(node)))
                if "list" in a[1]:
                    out |= TOPJ
                if a[1] & {"str", "dict"}:
                    out |= PY("str")
            elif a[0] in ("list", "tuple", "set"):
                out |= a[1]
            elif a[0] == "dictc":
                out |= a[1]
            elif a == ("py", "none"):
                self.sink(node, "ITERATE", "iteration over a value that may be None: %s" % ast.unparse(node))
            else:
                out |= OTHER
        return frozenset(out)

    def hashable(self, val):
        for a in val:
            if a[0] == "json" and a[1] & {"dict", "list"}:
                return False
            if a[0] in ("list", "set", "dictc"):
                return False
            if a[0] == "tuple" and not self.hashable(a[1]):
                return False
            if a[0] == "obj":
                for (_, fv) in a[2]:
                    if not self.hashable(fv):
                        return False
        return True

    def hash_check(self, node, val, what):
        if not self.hashable(val):
            self.sink(node, "HASH", "%s may be unhashable: %s" % (what, ast.unparse(node)[:80]))

    def order_classes(self, val):
        cl = set()
        for a in val:
            if a[0] == "json":
                if a[1] <= NUM:
                    cl.add("num")
                elif a[1] <= {"str"}:
                    cl.add("str")
                else:
                    cl.add("mixed:" + ",".join(sorted(a[1])))
            elif a[0] == "py":
                cl.add({"int": "num", "float": "num", "bool": "num", "str": "str", "none": "none"}.get(a[1], "other"))
            elif a[0] == "obj":
                sub = []
                for (fn, fv) in a[2]:
                    c = self.order_classes(fv)
                    sub.append("|".join(sorted(c)))
                    if len(c - {"other"}) > 1 or any(x.startswith("mixed") or x == "none" for x in c):
                        cl.add("mixed-field:%s.%s" % (a[1], fn))
                cl.add("tuple:" + ",".join(sub))
            else:
                cl.add(a[0])
        return cl

    def order_check(self, node, val, what):
        cl = self.order_classes(val)
        bad = [c for c in cl if c.startswith("mixed") or c == "none"]
        concrete = {c for c in cl if c not in ("other",)}
        if bad or len(concrete) > 1:
            self.sink(node, "ORDER", "%s over possibly incomparable values %s: %s" % (what, sorted(cl), ast.unparse(node)[:80]))

    def contains_check(self, node, left, cont):
        for a in cont:
            if a[0] == "json" and a[1] & {"int", "float", "bool", "none"}:
                self.sink(node, "CONTAINS", "`in` on a value that may be %s: %s" % (sorted(a[1] & {"int", "float", "bool", "none"}), ast.unparse(node)[:80]))
            if a[0] in ("set", "dictc"):
                self.hash_check(node, left, "membership key")

    def percent(self, node, fmt, right, env):
        specs = re.findall(r"%[-+ 0#]*\d*(?:\.\d+)?([sdrfxi%])", fmt)
        specs = [s for s in specs if s != "%"]
        args = right.elts if isinstance(right, ast.Tuple) else [right]
        for s, a in zip(specs, args):
            if s in "dfxi":
                v = self.ev(a, env)
                cl = self.order_classes(v)
                if cl - {"num", "other"}:
                    self.sink(node, "FORMAT", "%%%s of a possibly non-numeric value: %s" % (s, ast.unparse(a)))

    def subscript(self, e, env):
        base = self.ev(e.value, env)
        key = e.slice
        out = set()
        for a in base:
            if a[0] == "json":
                if a[1] - {"dict"}:
                    self.sink(e, "SUBSCRIPT", "subscript on a value that may be %s: %s" % (sorted(a[1] - {"dict"}), ast.unparse(e)))
                if isinstance(key, ast.Constant):
                    kf = keyfact(a, key.value)
                    if kf is None or kf[0] != "y":
                        self.sink(e, "KEYERROR", "key %r is not known to be present: %s" % (key.value, ast.unparse(e)))
                        out |= TOPJ
                    else:
                        out |= J(kf[1])
                else:
                    out |= TOPJ
            elif a[0] == "dictc":
                self.hash_check(e, self.ev(key, env), "dict key")
                out |= a[2] if a[2] else OTHER
            elif a[0] in ("list", "tuple"):
                # a position in a sequence whose length comes from peer data: it may be empty (slices never raise)
                if isinstance(key, ast.Constant) and isinstance(key.value, int) and not isinstance(key.value, bool) \
                        and getattr(self, "peer_sequences_may_be_empty", False) and a[1]:
                    self.sink(e, "INDEX", "index %d into a sequence built from peer data, which may be empty: %s" % (key.value, ast.unparse(e)[:70]))
                out |= a[1] if a[1] else OTHER
            else:
                out |= OTHER
        return frozenset(out)

    def call(self, e, env):
        f = e.func
        args = [self.ev(a, env) for a in e.args]
        kwargs = {k.arg: self.ev(k.value, env) for k in e.keywords}
        name = f.id if isinstance(f, ast.Name) else None
        if name in self.namedtuples:
            fields = {}
            for fn, v in zip(self.namedtuples[name], args):
                fields[fn] = v
            for k, v in kwargs.items():
                fields[k] = v
            self.constructions.append((name, fields, e, self.stack[-1] if self.stack else "?"))
            return OBJ(name, fields)
        if name == "isinstance":
            return PY("bool")
        if name in ("sorted", "min", "max") and args:
            el = self.iterate(e.args[0], args[0])
            self.order_check(e, el, name + "()")
            return CONT("list", el) if name == "sorted" else el
        if name in ("list", "tuple", "set", "frozenset"):
            el = self.iterate(e.args[0], args[0]) if args else frozenset()
            if name in ("set", "frozenset"):
                self.hash_check(e, el, "set() element")
            return CONT("set" if name == "frozenset" else name, el)
        if name == "filter" and len(args) == 2:
            el = self.iterate(e.args[1], args[1])
            t, _ = truthy_split(el)
            return CONT("list", t)
        if name == "defaultdict":
            if e.args and isinstance(e.args[0], ast.Name) and e.args[0].id in ("list", "set"):
                return DICTC(frozenset(), CONT(e.args[0].id))
            return DICTC()
        if name in ("int", "float") and args:
            for a in args[0]:
                if a[0] == "json":
                    bad = a[1] & {"dict", "list", "none"}
                    if bad:
                        self.sink(e, "CONVERT", "%s() of a value that may be %s: %s" % (name, sorted(bad), ast.unparse(e)))
                    if "str" in a[1]:
                        # ValueError on a non-numeric string
                        saved = EXC_OF_KIND["CONVERT"]
                        EXC_OF_KIND["CONVERT"] = "ValueError"
                        try:
                            self.sink(e, "CONVERT", "%s() of a value that may be a non-numeric str: %s" % (name, ast.unparse(e)))
                        finally:
                            EXC_OF_KIND["CONVERT"] = saved
            if any(a[0] == "json" for a in args[0]):
                return PY("converted")
            return PY(name)
        if isinstance(f, ast.Attribute) and isinstance(f.value, ast.Name) and f.value.id == "math" and args:
            # math.isnan / isinf / floor / ... convert to float first: a JSON integer is unbounded (OverflowError), anything
            # that is not a number is a TypeError
            for a in args[0]:
                tags = a[1] if a[0] == "json" else ({a[1]} if a[0] == "py" else set())
                if a[0] in ("json",) or (a[0] == "py" and a[1] in ("int",)):
                    if "int" in tags and a[0] == "json":
                        saved = EXC_OF_KIND["CONVERT"]
                        EXC_OF_KIND["CONVERT"] = "OverflowError"
                        try:
                            self.sink(e, "CONVERT", "math.%s() of a value that may be an arbitrarily large JSON integer: %s" % (f.attr, ast.unparse(e)))
                        finally:
                            EXC_OF_KIND["CONVERT"] = saved
                    bad = tags & {"dict", "list", "none", "str"}
                    if bad:
                        self.sink(e, "CONVERT", "math.%s() of a value that may be %s: %s" % (f.attr, sorted(bad), ast.unparse(e)))
            return PY("bool" if f.attr.startswith("is") else "float")
        if name in ("len", "str", "repr", "bool", "print"):
            return PY({"len": "int", "str": "str", "repr": "str", "bool": "bool"}.get(name, "none"))
        if name in self.funcs:
            return self.inline(self.funcs[name], args, kwargs)
        if isinstance(f, ast.Attribute):
            recv = self.ev(f.value, env) if not (isinstance(f.value, ast.Name) and f.value.id == "self") else OTHER
            m = f.attr
            if isinstance(f.value, ast.Name) and f.value.id == "self" and m in self.funcs:
                return self.inline(self.funcs[m], args, kwargs)
            if m == "join" and len(args) == 1 and (isinstance(f.value, ast.Constant) and isinstance(f.value.value, str)
                                                   or recv == PY("str")):
                # sep.join(xs): TypeError unless every element is a str
                els = self.iterate(e, args[0])
                notstr = set()
                for a in els:
                    if a[0] == "json" and a[1] - {"str"}:
                        notstr |= (a[1] - {"str"})
                    elif a[0] in ("list", "tuple", "set", "dictc", "obj") or (a[0] == "py" and a[1] not in ("str", "other")):
                        notstr.add(a[1] if a[0] == "py" else a[0])
                if notstr:
                    self.sink(e, "CONVERT", "str.join over elements that may be %s: %s" % (sorted(notstr), ast.unparse(e)[:80]))
                return PY("str")
            out = set()
            for a in recv:
                if m == "get" and (a[0] == "json" or a[0] == "dictc"):
                    if a[0] == "json":
                        if a[1] - {"dict"}:
                            self.sink(e, "ATTR", ".get on a value that may be %s: %s" % (sorted(a[1] - {"dict"}), ast.unparse(e)[:70]))
                        kf = keyfact(a, e.args[0].value) if e.args and isinstance(e.args[0], ast.Constant) else None
                        if kf and kf[0] == "y":
                            out |= J(kf[1])
                        else:
                            out |= J(kf[1]) if kf else TOPJ
                            out |= args[1] if len(args) > 1 else NONE
                    else:
                        self.hash_check(e, args[0], "dict key")
                        out |= a[2] | (args[1] if len(args) > 1 else NONE)
                elif a[0] == "json":
                    self.sink(e, "ATTR", ".%s() on a JSON value of types %s: %s" % (m, sorted(a[1]), ast.unparse(e)[:70]))
                    out |= OTHER
                elif a[0] in ("list", "set") and m in ("append", "add"):
                    if a[0] == "set" and args:
                        self.hash_check(e, args[0], "set member")
                    self.mutate(f.value, env, a, (a[0], a[1] | (args[0] if args else frozenset())))
                    out |= NONE
                elif a[0] == "dictc" and m in ("keys", "values", "items"):
                    out |= CONT("list", a[1] if m == "keys" else a[2])
                elif a[0] == "obj" and m not in ("_replace", "_asdict", "count", "index"):
                    if a[1] in self.namedtuples:
                        self.sink(e, "ATTR", "%s object has no method %r" % (a[1], m))
                    out |= OTHER
                else:
                    out |= OTHER
            return frozenset(out) if out else OTHER
        return OTHER

    def mutate(self, target, env, old, new):
        if isinstance(target, ast.Name) and target.id in env:
            env[target.id] = (env[target.id] - {old}) | {new}
        elif isinstance(target, ast.Attribute) and isinstance(target.value, ast.Name) and target.value.id == "self":
            cur = self.selfattrs.get(target.attr, frozenset())
            self.selfattrs[target.attr] = (cur - {old}) | {new}
        elif isinstance(target, ast.Subscript):
            base = target.value
            if isinstance(base, ast.Name) and base.id in env:
                newv = set()
                for a in env[base.id]:
                    if a[0] == "dictc":
                        kv = self.ev(target.slice, env)
                        newv.add(("dictc", a[1] | kv, (a[2] - {old}) | {new}))
                    else:
                        newv.add(a)
                env[base.id] = frozenset(newv)

    def inline(self, fn, args, kwargs):
        if self.depth > 8:
            return OTHER
        self.depth += 1
        self.stack.append(fn.name)
        saved_handlers = self.handlers
        self.handlers = []
        try:
            env = Env()
            ps = [a.arg for a in fn.args.args]
            if ps and ps[0] == "self":
                ps = ps[1:]
            defaults = fn.args.defaults
            for p, d in zip(ps[len(ps) - len(defaults):], defaults):
                env[p] = self.ev(d, Env())
            for p, v in zip(ps, args):
                env[p] = v
            for k, v in kwargs.items():
                env[k] = v
            ret, _ = self.block(fn.body, env)
            return ret if ret else NONE
        finally:
            self.handlers = saved_handlers
            self.stack.pop()
            self.depth -= 1

    # ------------------------------------------------------------------ conditions
    def cond(self, t, env):
        if isinstance(t, ast.UnaryOp) and isinstance(t.op, ast.Not):
            a, b = self.cond(t.operand, env)
            return b, a
        if isinstance(t, ast.BoolOp):
            if isinstance(t.op, ast.And):
                cur = env
                false_env = None
                for v in t.values:
                    if cur is None:
                        break
                    a, b = self.cond(v, cur)
                    false_env = join_env(false_env, b)
                    cur = a
                return cur, false_env
            cur = env
            true_env = None
            for v in t.values:
                if cur is None:
                    break
                a, b = self.cond(v, cur)
                true_env = join_env(true_env, a)
                cur = b
            return true_env, cur
        if isinstance(t, ast.Call) and isinstance(t.func, ast.Name) and t.func.id == "isinstance" and len(t.args) == 2:
            target = t.args[0]
            tn = type_names(t.args[1])
            if isinstance(target, ast.Name) and target.id in env:
                yes, no = split_isinstance(env[target.id], tn)
                et = env.cp()
                ef = env.cp()
                et[target.id] = yes
                ef[target.id] = no
                return (et if yes else None), (ef if no else None)
            if isinstance(target, ast.Subscript) and isinstance(target.value, ast.Name) and isinstance(target.slice, ast.Constant) \
                    and target.value.id in env:
                self.ev(target, env)
                want = set()
                for n in tn:
                    want |= PYTYPE_TAGS.get(n, set())
                tv, fv = set(), set()
                for a in env[target.value.id]:
                    if a[0] == "json":
                        kf = keyfact(a, target.slice.value)
                        cur = kf[1] if kf else ALLTAGS
                        pres = kf[0] if kf else "m"
                        if cur & want:
                            tv.add(with_fact(a, target.slice.value, pres, cur & want))
                        if cur - want:
                            fv.add(with_fact(a, target.slice.value, pres, cur - want))
                    else:
                        tv.add(a)
                        fv.add(a)
                et = env.cp()
                ef = env.cp()
                et[target.value.id] = frozenset(tv)
                ef[target.value.id] = frozenset(fv)
                return (et if tv else None), (ef if fv else None)
            # isinstance(d.get("k"), T): true only if the key is present with a value of type T (None excluded from T)
            if isinstance(target, ast.Call) and isinstance(target.func, ast.Attribute) and target.func.attr == "get" \
                    and isinstance(target.func.value, ast.Name) and target.func.value.id in env and len(target.args) in (1, 2) \
                    and isinstance(target.args[0], ast.Constant) and (len(target.args) == 1 or (
                        isinstance(target.args[1], ast.Constant) and target.args[1].value is None)):
                self.ev(target, env)
                want = set()
                for n in tn:
                    want |= PYTYPE_TAGS.get(n, set())
                name = target.func.value.id
                key = target.args[0].value
                if "none" not in want:
                    tv = set()
                    for a in env[name]:
                        if a[0] == "json" and "dict" in a[1]:
                            kf = keyfact(a, key)
                            cur = kf[1] if kf else ALLTAGS
                            if cur & want:
                                tv.add(with_fact(a, key, "y", cur & want))
                        else:
                            tv.add(a)
                    et = env.cp()
                    et[name] = frozenset(tv)
                    return (et if tv else None), env
            self.ev(t, env)
            return env, env
        if isinstance(t, ast.Compare) and len(t.ops) == 1 and isinstance(t.ops[0], (ast.In, ast.NotIn)) and isinstance(t.left, ast.Constant) \
                and isinstance(t.comparators[0], ast.Name) and t.comparators[0].id in env:
            name = t.comparators[0].id
            self.ev(t, env)
            tv, fv = set(), set()
            for a in env[name]:
                if a[0] == "json" and "dict" in a[1]:
                    kf = keyfact(a, t.left.value)
                    tags = kf[1] if kf else ALLTAGS
                    tv.add(with_fact(a, t.left.value, "y", tags))
                    fv.add(a)
                else:
                    tv.add(a)
                    fv.add(a)
            et = env.cp()
            ef = env.cp()
            et[name] = frozenset(tv)
            ef[name] = frozenset(fv)
            if isinstance(t.ops[0], ast.NotIn):
                return ef, et
            return et, ef
        if isinstance(t, ast.Compare) and len(t.ops) == 1 and isinstance(t.left, ast.Name) and (SRC + t.left.id) in env:
            op, right = t.ops[0], t.comparators[0]
            consts = None
            if isinstance(op, (ast.Eq, ast.NotEq)) and isinstance(right, ast.Constant) and isinstance(right.value, str):
                consts = [right.value]
            elif isinstance(op, (ast.In, ast.NotIn)) and isinstance(right, (ast.List, ast.Tuple, ast.Set)) and right.elts \
                    and all(isinstance(x, ast.Constant) and isinstance(x.value, str) for x in right.elts):
                consts = [x.value for x in right.elts]
            if consts is not None:
                self.ev(t, env)
                res = self._refine_by_constants(t.left.id, consts, env)
                if res is not None:
                    return (res[1], res[0]) if isinstance(op, (ast.NotEq, ast.NotIn)) else res
        if isinstance(t, ast.Compare) and len(t.ops) == 1 and isinstance(t.ops[0], (ast.Is, ast.IsNot)) and isinstance(t.left, ast.Name) \
                and t.left.id in env and isinstance(t.comparators[0], ast.Constant) and t.comparators[0].value is None:
            yes = frozenset(a for a in env[t.left.id] if a == ("py", "none") or (a[0] == "json" and "none" in a[1]) or a == ("py", "other"))
            no = frozenset(("json", a[1] - {"none"}, a[2]) if a[0] == "json" else a for a in env[t.left.id]
                           if a != ("py", "none") and not (a[0] == "json" and a[1] == {"none"}))
            et = env.cp()
            ef = env.cp()
            et[t.left.id] = yes
            ef[t.left.id] = no
            if isinstance(t.ops[0], ast.IsNot):
                return (ef if no else None), (et if yes else None)
            return (et if yes else None), (ef if no else None)
        if isinstance(t, ast.Name) and t.id in env:
            yes, no = truthy_split(env[t.id])
            et = env.cp()
            ef = env.cp()
            et[t.id] = yes
            ef[t.id] = no
            return (et if yes else None), (ef if no else None)
        self.ev(t, env)
        return env, env

    # ------------------------------------------------------------------ statements
    def block(self, stmts, env):
        ret = frozenset()
        for s in stmts:
            if env is None:
                break
            r, env = self.stmt(s, env)
            ret |= r
        return ret, env

    def stmt(self, s, env):
        if isinstance(s, ast.Expr):
            self.ev(s.value, env)
            return frozenset(), env
        if isinstance(s, (ast.Assign, ast.AnnAssign)):
            if s.value is None:
                return frozenset(), env
            v = self.ev(s.value, env)
            env = env.cp()
            targets = s.targets if isinstance(s, ast.Assign) else [s.target]
            for t in targets:
                if isinstance(t, ast.Name):
                    env[t.id] = v
                    # provenance: x = d.get("k"[, default]) / d["k"] remembers where x came from, so that a later `x == "lit"`
                    # also says something about d (and about what a callee given d will read from it)
                    for k_ in [k_ for k_ in env if isinstance(k_, str) and k_.startswith(SRC) and (k_ == SRC + t.id or any(a[1] == t.id for a in env[k_]))]:
                        del env[k_]
                    src = self._source_of(s.value, env)
                    if src is not None and src[0] != t.id:
                        env[SRC + t.id] = frozenset([("src",) + src])
                elif isinstance(t, ast.Attribute) and isinstance(t.value, ast.Name) and t.value.id == "self":
                    self.selfattrs[t.attr] = v
                elif isinstance(t, (ast.Tuple, ast.List)):
                    for el in ast.walk(t):
                        if isinstance(el, ast.Name):
                            env[el.id] = OTHER
                elif isinstance(t, ast.Subscript):
                    basev = self.ev(t.value, env)
                    kv = self.ev(t.slice, env)
                    for a in basev:
                        if a[0] == "dictc":
                            self.hash_check(t, kv, "dict key")
                            if isinstance(t.value, ast.Name):
                                env[t.value.id] = (env[t.value.id] - {a}) | {("dictc", a[1] | kv, a[2] | v)}
            return frozenset(), env
        if isinstance(s, ast.AugAssign):
            self.ev(s.value, env)
            return frozenset(), env
        if isinstance(s, ast.Return):
            return (self.ev(s.value, env) if s.value is not None else NONE), None
        if isinstance(s, ast.Raise):
            if s.exc is not None:
                self.ev(s.exc, env)
            return frozenset(), None
        if isinstance(s, ast.If):
            et, ef = self.cond(s.test, env)
            r1, e1 = self.block(s.body, et) if et is not None else (frozenset(), None)
            r2, e2 = self.block(s.orelse, ef) if ef is not None else (frozenset(), None)
            return r1 | r2, join_env(e1, e2)
        if isinstance(s, ast.For):
            it = self.ev(s.iter, env)
            el = self.iterate(s.iter, it)
            env2 = env.cp()
            for n in ast.walk(s.target):
                if isinstance(n, ast.Name):
                    env2[n.id] = el
            ret = frozenset()
            out = env
            for _ in range(4):
                r, e_after = self.block(s.body, env2.cp())
                ret |= r
                if e_after is None:
                    e_after = env2
                new = join_env(out, e_after)
                if new == out:
                    break
                out = new
                env2 = join_env(env2, e_after)
                for n in ast.walk(s.target):
                    if isinstance(n, ast.Name):
                        env2[n.id] = el        # the loop variable is rebound on every iteration
            if s.orelse:
                r, out = self.block(s.orelse, out)
                ret |= r
            return ret, out
        if isinstance(s, (ast.With, ast.AsyncWith)):
            for it in s.items:
                self.ev(it.context_expr, env)
            return self.block(s.body, env)
        if isinstance(s, ast.Try):
            names = set()
            for h in s.handlers:
                if h.type is None:
                    names.add("*")
                elif isinstance(h.type, ast.Tuple):
                    names |= {getattr(x, "id", getattr(x, "attr", "?")) for x in h.type.elts}
                else:
                    names.add(getattr(h.type, "id", getattr(h.type, "attr", "?")))
            self.handlers.append(names)
            try:
                r, e = self.block(s.body, env)
            finally:
                self.handlers.pop()
            for h in s.handlers:
                r2, e2 = self.block(h.body, env)
                r |= r2
                e = join_env(e, e2)
            if s.orelse and e is not None:
                r3, e = self.block(s.orelse, e)
                r |= r3
            if s.finalbody:
                r4, e4 = self.block(s.finalbody, e if e is not None else env)
                r |= r4
                e = e4 if e is not None else None
            return r, e
        if isinstance(s, (ast.Continue, ast.Break)):
            return frozenset(), None
        if isinstance(s, (ast.Pass, ast.Assert, ast.FunctionDef, ast.Import, ast.ImportFrom, ast.Delete, ast.Global, ast.Nonlocal)):
            return frozenset(), env
        if isinstance(s, ast.While):
            self.ev(s.test, env)
            r, e = self.block(s.body, env.cp())
            return r, join_env(env, e)
        raise AnalysisError("jsonguard: statement kind %s (line %d) is not supported" % (type(s).__name__, getattr(s, "lineno", 0)))
