"""Shared driver for the properties decided (in part) by the two-party dilation product A5 (sa/dilprod.py)."""
import os
from concurrent.futures import ProcessPoolExecutor

from . import dilprod

_CACHE = {}

QUICK_ENVS = ["two-party"]
THOROUGH_ENVS = ["two-party", "two-party-2links"]

INTERNAL = ("NoTransition", "Assert", "Raise", "no-instance", "second-instance")
# kind of finding -> (property rule, explanation)
KINDS = {
    "two-connections": "a second connection is selected while one is in use",
    "connection-not-released": "Inbound / Outbound are handed a new connection without having been told to stop using the previous one "
                               "(Outbound's unsent queue is stale: nothing is replayed, later writes pile up behind it)",
    "second-live-connector": "a new generation is started while the previous Connector is still racing",
    "pending-outlives-connector": "a pending connection of the previous generation survives into the next one",
    "stopped-with-live-connector": "the Manager has stopped but its Connector is still racing",
    "stopped-with-timer": "the Manager has stopped but its ping timer is still pending",
    "stopped-with-connection": "the Manager has stopped but its connection is still in use and was never asked to close",
    "stopped-with-pending": "the Manager has stopped but pending connections are still open",
    "silent-connection-kept": "a silent connection survives the second timer expiry",
    "responsive-connection-dropped": "a responsive connection is dropped by the monitor",
}


def _explore(args):
    files, root, envname = args
    from .srcmodel import SourceTree, AnalysisError
    try:
        tree = SourceTree(files, root)
        return dilprod.DSummary(dilprod.explore(tree, envname))
    except AnalysisError as e:
        return ("analysis-error", str(e))


def explorations(tree, tier, rep=None):
    from .srcmodel import AnalysisError
    if rep is not None and getattr(rep, "skip_a3", False):
        return {}
    envs = QUICK_ENVS if tier == "quick" else THOROUGH_ENVS
    dig = tuple(sorted((p, hash(t)) for p, t in tree.files.items() if "/_dilation/" in p))
    out, todo = {}, []
    for e in envs:
        if (dig, e) in _CACHE:
            out[e] = _CACHE[(dig, e)]
        else:
            todo.append(e)
    if len(todo) == 1:
        res = [_explore((tree.files, tree.root, todo[0]))]
    elif todo:
        with ProcessPoolExecutor(max_workers=min(len(todo), int(os.environ.get("VERIF_JOBS", "16")))) as ex:
            res = list(ex.map(_explore, [(tree.files, tree.root, e) for e in todo]))
    else:
        res = []
    for e, r in zip(todo, res):
        if isinstance(r, tuple):
            raise AnalysisError("two-party dilation product (%s environment): %s" % (e, r[1]))
        _CACHE[(dig, e)] = r
        out[e] = r
    for p in tree.paths():
        if p.endswith(("/_dilation/manager.py", "/_dilation/connector.py", "/_dilation/roles.py")):
            tree.consulted.add(p)
    return out


def fill_extra(rep, sums):
    if not sums:
        return
    rep.extra["two_party_product"] = [dict(s.env, states=s.nstates, transitions=s.ntrans, exhaustive=s.exhaustive,
                                           wall_s=round(s.wall, 1), converged_states=s.converged_states,
                                           running_states=s.running_states, states_after_stop=s.stop_states,
                                           machine_rows_exercised=len(s.fired_rows), pruned_by_channel_bound=s.truncated)
                                      for s in sums.values()]
    rep.evaluations += sum(s.ntrans for s in sums.values())
    if "T5" not in rep.trusted:
        rep.trusted.append("T5")


def report(rep, rule, sums, kinds, what_prefix=""):
    """turn the findings of the given kinds into violations of `rule` (one obligation per environment and kind group)"""
    for envname, s in sums.items():
        bad = [v for v in s.viol if v["kind"] in kinds]
        rep.check(rule, "two-party dilation product, environment '%s' (%d joint states, %d transitions, %d machine rows exercised): no %s"
                  % (envname, s.nstates, s.ntrans, len(s.fired_rows), " / ".join(kinds)), True, evals=1)
        if not s.exhaustive:
            rep.note("two-party environment %s hit its budget after %d states: the verdict covers what was explored" % (envname, s.nstates))
        for v in bad:
            key = "%s:%s:%s" % (rule, v["kind"], v["detail"])
            what = "%s%s (two-party environment %s)" % (what_prefix, (
                {"NoTransition": "undeclared (state, input) pair %s is reachable", "Assert": "failing assertion %s is reachable",
                 "Raise": "explicit internal-error raise %s is reachable"}.get(v["kind"], KINDS.get(v["kind"], v["kind"]) + ": %s")) % v["detail"], envname)
            rep.violation(rule, key, what, v["site"], detail="call stack: " + " > ".join(v["stack"][-6:]), trace=v["path"])
        rep.sample({"rule": rule, "environment": envname, "joint_states": s.nstates, "transitions": s.ntrans,
                    "events": sorted(s.events_used)})
