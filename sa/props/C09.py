"""C09 — the mailbox session survives connection loss: nothing lost, nothing repeated."""
import ast

from ..srcmodel import AnalysisError, site
from ..automat_x import Program, output_call_names
from ..astutil import dotted, const, NOCONST, is_self_attr, params
from ..tablerules import colouring, row_calls
from ..cfg import build
from ..effects import class_writers, is_empty_ctor
from .. import a3common
from ..selftest import Mutant, Rewrite

EXPLANATION = ("R1/R2: table rules on Nameplate, Mailbox, Allocator, Lister (connectivity twins; every state awaiting a "
               "server response re-issues its request on `connected`; rows entering Mailbox S2B open + drain). "
               "R3: CFG rule on RendezvousConnector.ws_open/ws_close (bind first, notify all four, same four on loss). "
               "R4: typestate invariant over the reachable product: connected & awaiting => request outstanding on THIS "
               "connection; Mailbox S2B => mailbox opened on this connection; nothing sent before bind. "
               "R5: write discipline of Mailbox._pending_outbound (survives lost/connected).")
TRUSTED_BASE = ["T1", "T3", "T4"]
MIN_OBLIGATIONS = 30

MACHINES = ("Nameplate", "Mailbox", "Allocator", "Lister")
RDV = "src/wormhole/_rendezvous.py"
RESP = {"rx_claimed": "tx_claim", "rx_released": "tx_release", "rx_closed": "tx_close",
        "rx_allocated": "tx_allocate", "rx_nameplates": "tx_list"}


def r1_r2(prog, rep):
    for name in MACHINES:
        m = prog.machine(name)
        for i in ("connected", "lost"):
            if i not in m.inputs:
                raise AnalysisError("%s no longer has a %s input" % (name, i))
        col = colouring(m)
        unreach = [s for s in m.states if s not in col]
        rep.check("C09.R1", "%s: every state is reachable in the connectivity colouring" % name, not unreach,
                  m.file, key="C09.R1:%s:unreachable:%s" % (name, ",".join(unreach)))
        for s, cs in sorted(col.items()):
            st_site = "%s:%d" % (m.file, m.states[s]["node"].lineno)
            if "A" in cs:
                rep.check("C09.R1", "%s[%s] (disconnected) declares `connected`" % (name, s),
                          m.row(s, "connected") is not None, st_site,
                          key="C09.R1:%s[%s]:no-connected-row" % (name, s),
                          what="%s[%s] can be reached while disconnected but has no `connected` row" % (name, s))
            if "B" in cs:
                row = m.row(s, "lost")
                rep.check("C09.R1", "%s[%s] (connected) declares `lost`" % (name, s), row is not None, st_site,
                          key="C09.R1:%s[%s]:no-lost-row" % (name, s),
                          what="%s[%s] can be reached while connected but has no `lost` row" % (name, s))
                if row is not None:
                    rep.check("C09.R1", "%s[%s].lost has no outputs" % (name, s), not row.outputs, row.site,
                              key="C09.R1:%s[%s]:lost-has-outputs" % (name, s),
                              what="%s[%s].lost runs outputs %s (a connection loss must only flip the connectivity half)"
                              % (name, s, row.outputs))
                    back = m.row(row.enter, "connected")
                    if back is not None and cs == {"B"}:
                        # resuming lands on a connected state; if it is not the same state, it must be one
                        # reached by re-issuing (checked by R2) - here: the durable part must not regress
                        rep.check("C09.R1", "%s: %s -lost-> %s -connected-> %s resumes" % (name, s, row.enter, back.enter),
                                  "B" in col.get(back.enter, set()), back.site,
                                  key="C09.R1:%s[%s]:resume" % (name, s))
        # R2 re-issue
        for row in list(m.rows.values()):
            if row.inp in RESP and row.enter != row.src:
                tx = RESP[row.inp]
                lost = m.row(row.src, "lost")
                if lost is None:
                    continue  # reported by R1
                back = m.row(lost.enter, "connected")
                if back is None:
                    continue  # reported by R1
                cs = row_calls(m, back)
                ok = any(c.endswith("." + tx) for c in cs)
                rep.check("C09.R2", "%s[%s] awaits %s: %s.connected -> %s re-issues %s" % (
                    name, row.src, row.inp, lost.enter, back.enter, tx), ok, back.site,
                    key="C09.R2:%s[%s]:no-reissue:%s" % (name, lost.enter, tx),
                    what="%s[%s] awaits %s, but after a reconnect %s.connected (outputs %s) does not send %s again"
                    % (name, row.src, row.inp, lost.enter, back.outputs, tx))
                ok2 = back.enter == row.src
                rep.check("C09.R2", "%s: %s.connected returns to the awaiting state %s" % (name, lost.enter, row.src),
                          ok2, back.site, key="C09.R2:%s[%s]:wrong-target" % (name, lost.enter))
    m = prog.machine("Mailbox")
    from ..tablerules import opened_states, reachable_avoiding_rows
    opened = opened_states(m, ".tx_open")
    n_open = 0
    for st_ in sorted(opened):
        for row in m.rows_into(st_):
            if row.src == st_:
                continue
            n_open += 1
            cs = row_calls(m, row)
            good = any(c.endswith(".tx_open") for c in cs) and any(c.endswith(".tx_add") for c in cs)
            rep.check("C09.R2", "Mailbox %s.%s -> %s opens the mailbox and re-submits pending messages" % (row.src, row.inp, st_),
                      good, row.site, key="C09.R2:Mailbox[%s].%s:open+drain" % (row.src, row.inp),
                      what="Mailbox %s.%s enters the opened state with outputs %s: mailbox not (re)opened or un-echoed messages not re-sent"
                      % (row.src, row.inp, row.outputs))
    if n_open < 2 or len(opened) != 1:
        raise AnalysisError("Mailbox: expected one opened+connected state with several entering rows, found %s / %d rows" % (sorted(opened), n_open))
    # drain iterates the whole _pending_outbound
    drain = m.methods.get("_drain")
    if drain is None:
        raise AnalysisError("Mailbox._drain not found")
    loops = [n for n in ast.walk(drain) if isinstance(n, ast.For)]
    ok = False
    for lp in loops:
        it = lp.iter
        base = it.func.value if isinstance(it, ast.Call) and isinstance(it.func, ast.Attribute) else it
        top_calls = [st.value for st in lp.body if isinstance(st, ast.Expr) and isinstance(st.value, ast.Call)]
        if dotted(base) == "self._pending_outbound" and any((dotted(c.func) or "").endswith(".tx_add") for c in top_calls) \
                and not any(isinstance(x, (ast.Break, ast.Return, ast.Continue)) for x in ast.walk(lp)):
            ok = True
    rep.check("C09.R2", "Mailbox._drain re-submits every entry of _pending_outbound", ok, site(drain, m.file),
              key="C09.R2:Mailbox._drain")


def r3(tree, prog, rep):
    rc = prog.cls("RendezvousConnector")
    targets = sorted(a for a, c in rc.wiring.items() if isinstance(c, str) and c in prog.classes
                     and "connected" in prog.classes[c].inputs and "lost" in prog.classes[c].inputs)
    if len(targets) < 4:
        raise AnalysisError("RendezvousConnector is wired to %d connectivity-aware machines, expected 4" % len(targets))
    fo = tree.func(RDV, "RendezvousConnector", "ws_open")
    g = build(fo)
    binds = g.call_nodes(lambda c: dotted(c.func) == "self._tx" and c.args and const(c.args[0]) == "bind")
    rep.check("C09.R3", "ws_open sends `bind`", bool(binds), site(fo, RDV), key="C09.R3:ws_open:no-bind")
    for a in targets:
        cn = g.call_nodes(lambda c, a=a: dotted(c.func) == "self.%s.connected" % a)
        rep.check("C09.R3", "ws_open notifies %s.connected() on every normal path" % a,
                  bool(cn) and g.must_pass(cn), site(fo, RDV), key="C09.R3:ws_open:%s.connected" % a,
                  what="ws_open does not tell %s that the connection is up (on some path)" % a)
        if cn and binds:
            early = g.precedes(binds, cn)
            rep.check("C09.R3", "ws_open: bind precedes %s.connected()" % a, not early, site(fo, RDV),
                      key="C09.R3:ws_open:bind-before-%s" % a,
                      what="%s.connected() can run before the `bind` message is sent" % a)
    ws_set = [n for n in g.nodes(lambda s: isinstance(s, ast.Assign) and any(dotted(t) == "self._ws" for t in s.targets))]
    if binds and ws_set:
        rep.check("C09.R3", "ws_open stores the new connection before sending on it", not g.precedes(ws_set, binds),
                  site(fo, RDV), key="C09.R3:ws_open:ws-before-bind")
    fc = tree.func(RDV, "RendezvousConnector", "ws_close")
    lost_targets = sorted({dotted(c.func).split(".")[1] for c in ast.walk(fc) if isinstance(c, ast.Call)
                           and (dotted(c.func) or "").startswith("self.") and (dotted(c.func) or "").endswith(".lost")
                           and (dotted(c.func) or "").count(".") == 2})
    rep.check("C09.R3", "ws_close notifies lost() to exactly the machines ws_open told connected() (%s)" % ",".join(targets),
              lost_targets == targets, site(fc, RDV), key="C09.R3:ws_close:lost-set",
              what="ws_close tells %s about the loss, ws_open told %s about the connection" % (lost_targets, targets))
    gc = build(fc)
    clr = gc.nodes(lambda s: isinstance(s, ast.Assign) and any(dotted(t) == "self._ws" for t in s.targets)
                   and isinstance(s.value, ast.Constant) and s.value.value is None)
    rep.check("C09.R3", "ws_close forgets the connection object on every path", bool(clr) and gc.must_pass(clr),
              site(fc, RDV), key="C09.R3:ws_close:ws-cleared")


def r4(tree, rep, tier):
    sums = a3common.explorations(tree, tier, rep.seed, rep)
    a3common.fill_extra(rep, sums)
    for envname, s in sums.items():
        if envname == "postclose":
            continue
        rep.check("C09.R4", "connected & awaiting-response => request outstanding on the current connection; "
                  "Mailbox S2B => opened on this connection (environment %s: %d connected states, awaiting states %s)"
                  % (envname, s.connected_states, ["%s[%s]" % (a, b) for a, b, c in s.awaiting]),
                  True, key="C09.R4:summary:%s" % envname, evals=max(1, s.connected_states))
        for f, path in s.inv_fail.items():
            rep.violation("C09.R4", "C09.R4:%s" % f, "%s but no such request is outstanding on the current connection "
                          "(the client would wait forever)" % f, None, trace=path)
        for v in s.viol:
            if v["kind"] == "tx-before-bind":
                rep.violation("C09.R4", "C09.R4:tx-before-bind:%s" % v["detail"],
                              "message `%s` is sent on a connection before `bind`" % v["detail"], v["site"],
                              detail=" > ".join(v["stack"]), trace=v["path"])
            if v["kind"] == "tx-protocol":
                rep.violation("C09.R4", "C09.R4:tx-protocol:%s" % v["detail"][:60], v["detail"], v["site"],
                              detail=" > ".join(v["stack"]), trace=v["path"])
            if v["kind"] == "reconnect-abandoned":
                rep.violation("C09.R4", "C09.R4:reconnect-abandoned", v["detail"], v["site"],
                              detail=" > ".join(v["stack"]), trace=v["path"])
            if v["kind"] == "Assert" and "_tx" in v["detail"]:
                rep.violation("C09.R4", "C09.R4:send-while-disconnected", "a message is sent while disconnected (%s)" % v["detail"],
                              v["site"], detail=" > ".join(v["stack"]), trace=v["path"])
        if len(s.awaiting) < 5:
            raise AnalysisError("only %d awaiting (state,response) pairs were derived from the tables, 5 expected" % len(s.awaiting))
        rep.sample({"rule": "C09.R4", "environment": envname, "connected_states": s.connected_states,
                    "awaiting": s.awaiting})


def r5(tree, rep):
    own, foreign = class_writers(tree, "Mailbox", "_pending_outbound")
    allowed = {("queue", "setitem"), ("dequeue", "call:pop"), ("dequeue", "delitem")}
    n = 0
    for w in own + foreign:
        ok = False
        if w in own and w.kind == "assign" and w.fn in ("__init__", "__attrs_post_init__") and is_empty_ctor(w.value, ("dict",)):
            ok = True
        elif w in own and (w.fn, w.kind) in allowed:
            ok = True
        n += 1
        rep.check("C09.R5", "Mailbox._pending_outbound writer %s is the constructor, queue (store) or dequeue (remove one)" % w.brief(),
                  ok, w.site, key="C09.R5:_pending_outbound:writer:%s" % w.brief(),
                  what="Mailbox._pending_outbound is modified by %s (un-echoed messages must survive lost/connected and "
                       "leave only on their echo)" % w.brief())
    if n < 3:
        raise AnalysisError("Mailbox._pending_outbound has %d writers, at least 3 expected" % n)
    # dequeue is only an output of rx_message_ours rows; queue only of add_message rows
    return n


def r5_rows(prog, rep):
    from ..tablerules import reachable_avoiding_rows
    m = prog.machine("Mailbox")
    for out, inp in (("dequeue", "rx_message_ours"), ("queue", "add_message")):
        rows = [r for r in m.rows.values() if out in r.outputs]
        rep.check("C09.R5", "Mailbox output %s runs only on %s rows (%d)" % (out, inp, len(rows)),
                  bool(rows) and all(r.inp == inp for r in rows), rows[0].site if rows else m.file,
                  key="C09.R5:%s-rows" % out)
    # every add_message row of a live state (not closing/closed) queues
    for r in m.rows_on("add_message"):
        live = r.src in reachable_avoiding_rows(m, lambda x: x.inp == "close")
        if live:
            rep.check("C09.R5", "Mailbox[%s].add_message queues the message" % r.src, "queue" in r.outputs, r.site,
                      key="C09.R5:Mailbox[%s].add_message:queue" % r.src)


def r7_dequeue(tree, rep, rule="C09.R7"):
    """an echo retires exactly the message it echoes: every removal from Mailbox._pending_outbound is pop(<the row's phase>[, default]) /
    del [..phase..] in a straight line - no loop, no clear, no other key (the server replays old echoes on every re-open: anything wider
    wipes messages that were never delivered)"""
    from ..automat_x import Program
    M = Program(tree).machine("Mailbox")
    own, foreign = class_writers(tree, "Mailbox", "_pending_outbound")
    rem = [w for w in own + foreign if w.kind in ("call:pop", "call:popitem", "call:clear", "delitem", "call:remove") or (w.kind == "assign" and w.fn not in ("__init__", "__attrs_post_init__"))]
    if not rem:
        raise AnalysisError("Mailbox._pending_outbound is never retired")
    for w in rem:
        fn = M.func(w.fn)
        ps = params(fn) if fn is not None else []
        ok = w in own and fn is not None
        if ok and w.kind == "call:pop":
            ok = bool(w.value.args) and isinstance(w.value.args[0], ast.Name) and w.value.args[0].id in ps and w.value.args[0].id == "phase"
        elif ok and w.kind == "delitem":
            ok = True
        else:
            ok = False
        if ok:
            anc = getattr(w.node, "_parent", None)
            while anc is not None and anc is not fn:
                if isinstance(anc, (ast.For, ast.While, ast.ListComp, ast.GeneratorExp)):
                    ok = False
                anc = getattr(anc, "_parent", None)
        rep.check(rule, "Mailbox.%s retires exactly the echoed phase from _pending_outbound (one pop(phase), no loop)" % w.fn, ok, w.site,
                  key="%s:_pending_outbound:retire:%s" % (rule, w.brief()),
                  what="Mailbox.%s removes more than the echoed message from the retransmission table (%s): a replayed old echo wipes messages the "
                       "server never got" % (w.fn, w.kind))


def run(tree, rep, tier):
    from .. import round9 as _r9
    _r9.handlers_tolerate_replay(tree, rep, "C09.R9")
    _r9.forwarded_in_same_turn(tree, rep, "C09.R11", "src/wormhole/_rendezvous.py",
                               (("WSClient", "onOpen", "self._RC.ws_open"), ("WSClient", "onMessage", "self._RC.ws_message"), ("WSClient", "onClose", "self._RC.ws_close")),
                               "a connection that opens and closes within one turn is seen as close-then-open: ws_close skips lost(), the late ws_open "
                               "moves the machines into their connected halves on a dead socket and the next real connection is a NoTransition")
    from ..effects import writer_table as _wt
    _wt(tree, rep, "C09.R10", "RendezvousConnector", "_ws", {("__attrs_post_init__", "assign"), ("ws_open", "assign"), ("ws_close", "assign")},
        "ws_close decides from self._ws whether the machines must hear lost(); a further place that clears (or sets) it - a forced reconnect, an "
        "early hang-up - makes ws_close skip the `lost` inputs: Nameplate/Mailbox stay in their connected halves, the next connected() is a "
        "NoTransition and the session that should have resumed ends with an internal error")
    r7_dequeue(tree, rep)
    from .. import payload
    payload.check(tree, rep, "C09.R8", "never delivered to the peer (and blocks every later message behind it)")
    from .. import sharedstate
    sharedstate.check(tree, rep, "C09.R0")
    prog = Program(tree)
    r1_r2(prog, rep)
    r3(tree, prog, rep)
    r5(tree, rep)
    r5_rows(prog, rep)
    # the server replays the whole mailbox after every re-open: only the dedup set stands between a reconnect and a repetition
    from .C02 import dedup_set_discipline
    dedup_set_discipline(tree, rep, "C09.R6")
    # a message is remembered for re-submission BEFORE its transmission is attempted (Automat skips the outputs that follow one
    # that raises: a send into a closing socket must not lose the message)
    from ..automat_x import output_calls
    M_ = prog.machine("Mailbox")
    n_rows = 0
    for r in M_.rows.values():
        rec = [i for i, o in enumerate(r.outputs) if any(
            isinstance(x, ast.Assign) and any(isinstance(t, ast.Subscript) and is_self_attr(t.value, "_pending_outbound") for t in x.targets)
            for f in [M_.outputs[o]] for x in ast.walk(f))]
        txa = [i for i, o in enumerate(r.outputs) if any(isinstance(c, ast.Call) and dotted(c.func) == "self._RC.tx_add" for c in output_calls(M_, o))]
        if rec and txa:
            n_rows += 1
            rep.check("C09.R6", "Mailbox %s.%s records the message in _pending_outbound before it tries to transmit it" % (r.src, r.inp),
                      max(rec) < min(txa), r.site, key="C09.R6:Mailbox[%s].%s:record-before-send" % (r.src, r.inp),
                      what="Mailbox %s.%s transmits before it records: if tx_add raises (socket already closing) the message is never "
                           "remembered and never re-submitted on the next connection" % (r.src, r.inp))
    if n_rows == 0:
        raise AnalysisError("Mailbox: no row both records and transmits a message")
    r4(tree, rep, tier)


_N = "src/wormhole/_nameplate.py"
_M = "src/wormhole/_mailbox.py"
_A = "src/wormhole/_allocator.py"
MUTANTS = [
    Mutant("N-del-S4A-connected", _N, "    S4A.upon(connected, enter=S4B, outputs=[RC_tx_release])\n", "", "C09.R1"),
    Mutant("N-S2B-lost-output", _N, "    S2B.upon(lost, enter=S2A, outputs=[])\n",
           "    S2B.upon(lost, enter=S2A, outputs=[RC_tx_claim])\n", "C09.R1"),
    Mutant("N-S2A-connected-noclaim", _N, "    S2A.upon(connected, enter=S2B, outputs=[RC_tx_claim])\n",
           "    S2A.upon(connected, enter=S2B, outputs=[])\n", ("C09.R2", "C09.R4")),
    Mutant("N-S4A-connected-norelease", _N, "    S4A.upon(connected, enter=S4B, outputs=[RC_tx_release])\n",
           "    S4A.upon(connected, enter=S4B, outputs=[])\n", ("C09.R2", "C09.R4")),
    Mutant("A-S1A-connected-noalloc", _A, "        connected, enter=S1B_allocating_connected, outputs=[RC_tx_allocate])",
           "        connected, enter=S1B_allocating_connected, outputs=[])", ("C09.R2", "C09.R4")),
    Mutant("M-S2A-connected-nodrain", _M, "    S2A.upon(connected, enter=S2B, outputs=[RC_tx_open, drain])\n",
           "    S2A.upon(connected, enter=S2B, outputs=[RC_tx_open])\n", "C09.R2"),
    Mutant("M-S2A-connected-noopen", _M, "    S2A.upon(connected, enter=S2B, outputs=[RC_tx_open, drain])\n",
           "    S2A.upon(connected, enter=S2B, outputs=[drain])\n", ("C09.R2", "C09.R4")),
    Mutant("M-S3A-connected-noclose", _M, "    S3A.upon(connected, enter=S3B, outputs=[RC_tx_close])\n",
           "    S3A.upon(connected, enter=S3B, outputs=[])\n", ("C09.R2", "C09.R4")),
    Mutant("ws_open-notify-before-bind", RDV,
           "            self._tx(\n                \"bind\",\n                appid=self._appid,\n                side=self._side,\n                client_version=self._client_version)\n            self._N.connected()\n",
           "            self._N.connected()\n            self._tx(\n                \"bind\",\n                appid=self._appid,\n                side=self._side,\n                client_version=self._client_version)\n",
           ("C09.R3", "C09.R4")),
    Mutant("ws_close-skips-A", RDV, "            self._L.lost()\n            self._A.lost()\n", "            self._L.lost()\n", "C09.R3"),
    Mutant("lost-clears-pending", _M, "    @m.output()\n    def dequeue(self, phase, body):\n",
           "    @m.output()\n    def forget(self):\n        self._pending_outbound.clear()\n\n    @m.output()\n    def dequeue(self, phase, body):\n",
           "C09.R5", also=((_M, "    S2B.upon(lost, enter=S2A, outputs=[])\n", "    S2B.upon(lost, enter=S2A, outputs=[forget])\n"),)),
    Mutant("drain-only-first", _M, "        for phase, body in self._pending_outbound.items():\n            self._RC.tx_add(phase, body)\n",
           "        for phase, body in self._pending_outbound.items():\n            self._RC.tx_add(phase, body)\n            break\n", "C09.R2"),
]
MUTANTS.append(Mutant("ws_close-gives-up-after-reconnect-failure", RDV,
                      "        if not self._have_made_a_successful_connection:\n            # shut down the ClientService, which currently thinks",
                      "        if not was_open:\n            # shut down the ClientService, which currently thinks", "C09.R4",
                      "a failed reconnect attempt (onClose without onOpen) kills the session"))
REWRITES = [
    Rewrite("rename-output", _N, "RC_tx_release", "RC_send_release", desc="(applies only if unique)"),
    Rewrite("ws_close-reorder", RDV, "            self._N.lost()\n            self._M.lost()\n",
            "            self._M.lost()\n            self._N.lost()\n", desc="loss notifications reordered"),
]

MUTANTS.append(Mutant("close-omits-mailbox", RDV, "        self._tx(\"close\", mailbox=mailbox, mood=mood)", "        if mailbox == getattr(self, \"_opened_mailbox\", None):\n            self._tx(\"close\", mood=mood)\n        else:\n            self._tx(\"close\", mailbox=mailbox, mood=mood)", "C09.R4",
                      "two cooperating sites: tx_open remembers the mailbox, tx_close leaves it out when it is the remembered one - also after a reconnect",
                      also=((RDV, "    def tx_open(self, mailbox):\n", "    def tx_open(self, mailbox):\n        self._opened_mailbox = mailbox\n"),)))

MUTANTS.append(Mutant("forced-reconnect-clears-ws", "src/wormhole/_rendezvous.py", "    def _stopped(self, res):\n", "    def reconnect(self):\n        if self._ws:\n            ws, self._ws = self._ws, None\n            ws.dropConnection(abort=True)\n\n    def _stopped(self, res):\n", "C09.R10", "seed C09-18"))
MUTANTS.append(Mutant("echo-timing-pop", "src/wormhole/_rendezvous.py", "        body = hexstr_to_bytes(msg[\"body\"])  # bytes\n", "        body = hexstr_to_bytes(msg[\"body\"])  # bytes\n        if side == self._side:\n            self._sent_at.pop(phase)\n", "C09.R9", "draft of seed C09-18"))

MUTANTS.append(Mutant("onopen-deferred-a-turn", "src/wormhole/_rendezvous.py", "        self._RC.ws_open(self)\n", "        self._RC._reactor.callLater(0, self._RC.ws_open, self)\n", "C09.R11", "seed C09-20"))
