"""C18 — application events arrive once each and in causal order."""
import ast

from ..srcmodel import AnalysisError, site
from ..automat_x import Program, output_call_names, output_calls
from ..astutil import dotted, const, calls_named, is_self_attr, params
from ..tablerules import rows_calling, row_calls
from ..cfg import build
from .. import a3common
from ..selftest import Mutant, Rewrite

EXPLANATION = ("R1/R4: typestate analysis of the composed client: code <= key <= verifier <= versions/messages in every "
               "explored schedule, each of code/key/verifier/versions at most once, nothing after closed. R2: output order "
               "of Receive's first-good-message row. R3: CFG ordering in _SortedKey.compute_key, Code outputs, Send only "
               "transmits with a verified key, Mailbox re-submits in submission order. R4(C): one-shot deliveries go through "
               "fire_if_not_fired. R5: every observer of _DeferredWormhole is terminated on every path of closed(); the "
               "observers test the error before the queue and deliver a failure after error().")
TRUSTED_BASE = ["T1", "T3", "T4"]
MIN_OBLIGATIONS = 30

WH = "src/wormhole/wormhole.py"
OBS = "src/wormhole/observer.py"
KEY = "src/wormhole/_key.py"


def r1(tree, rep, tier):
    sums = a3common.explorations(tree, tier, rep.seed, rep)
    a3common.fill_extra(rep, sums)
    KINDS = {"event-order": "application events out of causal order", "event-twice": "application event delivered twice",
             "event-after-closed": "application event after closed", "closed-twice": "closed delivered twice"}
    for envname, s in sums.items():
        if envname == "postclose":
            continue
        bad = [v for v in s.viol if v["kind"] in KINDS]
        rep.check("C18.R1", "code<=key<=verifier<=versions/received, once each, nothing after closed (environment %s, "
                  "%d states, application events seen: %s)" % (envname, s.nstates, ",".join(s.app_events)),
                  True, key="C18.R1:summary:%s" % envname, evals=max(1, s.ntrans))
        for v in bad:
            rule = "C18.R4" if v["kind"] == "event-twice" else "C18.R1"
            rep.violation(rule, "%s:%s:%s" % (rule, v["kind"], v["detail"]), "%s: %s" % (KINDS[v["kind"]], v["detail"]),
                          v["site"], detail="call stack: " + " > ".join(v["stack"]), trace=v["path"])
        need = {"got_code", "got_key", "got_verifier", "got_versions", "received", "closed"}
        if envname == "quick" and not need <= set(s.app_events):
            raise AnalysisError("the exploration never delivered %s to the application" % sorted(need - set(s.app_events)))
        rep.sample({"rule": "C18.R1", "environment": envname, "app_events": s.app_events})


def r2(prog, rep):
    R = prog.machine("Receive")
    first = [r for r in R.rows_on("got_message_good") if r.src != r.enter]
    if len(first) != 1:
        raise AnalysisError("Receive: expected one first-good-message row, found %d" % len(first))
    row = first[0]
    order = ["self._S.got_verified_key", "self._B.happy", "self._B.got_verifier", "self._B.got_message"]
    pos = []
    for want in order:
        idx = [i for i, o in enumerate(row.outputs) if want in output_call_names(R, o)]
        pos.append(idx[0] if len(idx) == 1 else None)
    ok = None not in pos and pos == sorted(pos) and len(set(pos)) == 4
    rep.check("C18.R2", "Receive %s.%s lists verified-key, happy, verifier, message outputs in that order" % (row.src, row.inp),
              ok, row.site, key="C18.R2:Receive:first-good-order",
              what="first good message row outputs %s: positions of [S.got_verified_key, B.happy, B.got_verifier, B.got_message] = %s"
              % (row.outputs, pos))
    later = [r for r in R.rows_on("got_message_good") if r.src == r.enter and r.outputs]
    for r in later:
        cs = row_calls(R, r)
        rep.check("C18.R2", "Receive %s.%s (later good messages) delivers only the message" % (r.src, r.inp),
                  "self._B.got_verifier" not in cs and "self._B.happy" not in cs and "self._B.got_message" in cs, r.site,
                  key="C18.R2:Receive[%s]:later-good" % r.src)


def r3(tree, prog, rep):
    SK = prog.machine("_SortedKey")
    fn = SK.outputs.get("compute_key")
    if fn is None:
        raise AnalysisError("_SortedKey.compute_key not found")
    g = build(fn)
    a = g.call_nodes(lambda c: dotted(c.func) == "self._B.got_key")
    b = g.call_nodes(lambda c: dotted(c.func) == "self._M.add_message")
    c_ = g.call_nodes(lambda c: dotted(c.func) == "self._R.got_key")
    ok = bool(a and b and c_) and not g.precedes(a, b) and not g.precedes(b, c_) and g.must_pass(a) and g.must_pass(b) and g.must_pass(c_)
    rep.check("C18.R3", "compute_key: Boss.got_key, then the version message, then Receive.got_key (on every path)", ok,
              site(fn, SK.file), key="C18.R3:compute_key:order",
              what="compute_key no longer tells the Boss about the key before the version message / before Receive gets the key")
    # the version message is the constant phase "version"
    from ..astutil import resolve_local
    for n in b:
        for cl in [x for x in ast.walk(g.stmt[n]) if isinstance(x, ast.Call) and dotted(x.func) == "self._M.add_message"]:
            ph = resolve_local(fn, cl.args[0]) if cl.args else None
            rep.check("C18.R3", "compute_key sends the phase \"version\"", ph is not None and const(ph) == "version",
                      site(cl, SK.file), key="C18.R3:compute_key:version-phase")
    # Code outputs: B.got_code before K.got_code, same argument
    Cd = prog.machine("Code")
    n = 0
    for oname, ofn in Cd.outputs.items():
        kc = calls_named(ofn, "self._K.got_code")
        bc = calls_named(ofn, "self._B.got_code")
        if not kc and not bc:
            continue
        n += 1
        g2 = build(ofn)
        kn = g2.call_nodes(lambda c: dotted(c.func) == "self._K.got_code")
        bn = g2.call_nodes(lambda c: dotted(c.func) == "self._B.got_code")
        ok = bool(kn) and bool(bn) and not g2.precedes(bn, kn)
        rep.check("C18.R3", "Code.%s tells the Boss (application) about the code before the Key machine" % oname, ok,
                  site(ofn, Cd.file), key="C18.R3:Code.%s:order" % oname)
    if n < 3:
        raise AnalysisError("fewer Code outputs deliver the code than expected (%d)" % n)
    # Send transmits only with a verified key
    S = prog.machine("Send")
    gv = [r for r in S.rows_on("got_verified_key") if r.src != r.enter]
    if len(gv) != 1:
        raise AnalysisError("Send: expected one row leaving the no-key state on got_verified_key")
    verified = gv[0].enter
    for r in S.rows.values():
        sends = any(c == "self._M.add_message" for c in row_calls(S, r))
        if sends:
            rep.check("C18.R3", "Send %s.%s transmits only with a verified key" % (r.src, r.inp),
                      r.src == verified or (r.enter == verified and r.inp == "got_verified_key"), r.site,
                      key="C18.R3:Send[%s].%s:early-send" % (r.src, r.inp),
                      what="Send transmits application data in %s.%s, before a verified key (data could precede version)" % (r.src, r.inp))
    for r in S.rows_on("send"):
        if r.src != verified:
            rep.check("C18.R3", "Send %s.send queues" % r.src, "queue" in r.outputs and not any(
                c == "self._M.add_message" for c in row_calls(S, r)), r.site, key="C18.R3:Send[%s].send:queue" % r.src)
    # Send.drain iterates the queue in order
    dr = S.outputs.get("drain")
    ok = False
    if dr is not None:
        for lp in [x for x in ast.walk(dr) if isinstance(x, ast.For)]:
            if dotted(lp.iter) == "self._queue":
                ok = True
    rep.check("C18.R3", "Send.drain transmits the queued messages in queue order", ok, site(dr, S.file) if dr else S.file,
              key="C18.R3:Send.drain:order")
    # Mailbox re-submits in submission order (dict insertion order, no sorting)
    M = prog.machine("Mailbox")
    d = M.methods.get("_drain")
    ok = False
    if d is not None:
        for lp in [x for x in ast.walk(d) if isinstance(x, ast.For)]:
            it = lp.iter
            if isinstance(it, ast.Call) and isinstance(it.func, ast.Attribute) and it.func.attr in ("items",) \
                    and dotted(it.func.value) == "self._pending_outbound":
                ok = True
            elif dotted(it) == "self._pending_outbound":
                ok = True
    rep.check("C18.R3", "Mailbox._drain re-submits un-echoed messages in the order they were submitted "
              "(iterates the dict itself)", ok, site(d, M.file) if d else M.file, key="C18.R3:Mailbox._drain:order",
              what="Mailbox._drain no longer iterates _pending_outbound in insertion order: after a reconnect the peer's "
                   "versions may follow an application message")


def r4c(tree, rep):
    cls = tree.cls(WH, "_DeferredWormhole")
    oneshot = _observer_attrs(tree, "OneShotObserver")
    for mname, obsattr in (("got_welcome", None), ("got_code", None), ("got_key", None), ("got_verifier", None),
                           ("got_versions", None)):
        fn = tree.func(WH, "_DeferredWormhole", mname)
        cs = [c for c in ast.walk(fn) if isinstance(c, ast.Call) and isinstance(c.func, ast.Attribute)
              and is_self_attr(c.func.value) and c.func.value.attr in oneshot]
        ok = len(cs) == 1 and cs[0].func.attr == "fire_if_not_fired" and len(cs[0].args) == 1 \
            and isinstance(cs[0].args[0], ast.Name) and cs[0].args[0].id in params(fn)
        rep.check("C18.R4", "_DeferredWormhole.%s delivers its argument through fire_if_not_fired (one-shot)" % mname, ok,
                  site(fn, WH), key="C18.R4:_DeferredWormhole.%s" % mname)


def _observer_attrs(tree, clsname):
    init = tree.func(WH, "_DeferredWormhole", "__init__")
    out = []
    for n in ast.walk(init):
        if isinstance(n, ast.Assign) and isinstance(n.value, ast.Call) and (dotted(n.value.func) or "").split(".")[-1] == clsname:
            for t in n.targets:
                if is_self_attr(t):
                    out.append(t.attr)
    return out


def observers_terminated(tree, rep, rule="C18.R5"):
    one = _observer_attrs(tree, "OneShotObserver")
    seq = _observer_attrs(tree, "SequenceObserver")
    if len(one) < 5 or len(seq) < 1:
        raise AnalysisError("_DeferredWormhole.__init__ creates %d one-shot and %d sequence observers, expected >=5 and >=1"
                            % (len(one), len(seq)))
    fn = tree.func(WH, "_DeferredWormhole", "closed")
    g = build(fn)
    for a in one + seq:
        term = g.call_nodes(lambda c, a=a: isinstance(c.func, ast.Attribute) and is_self_attr(c.func.value, a)
                            and c.func.attr in (("error", "fire_if_not_fired") if a in one else ("fire",)))
        ok = bool(term) and g.must_pass(term, to=[g.exit], explicit_only=True)
        rep.check(rule, "_DeferredWormhole.closed() terminates %s on every path" % a, ok, site(fn, WH),
                  key="%s:closed:%s" % (rule, a),
                  what="after closed, Deferreds waiting on %s are never fired (get_* would hang)" % a)
    # every observer except the closed-observer gets a Failure: the argument is a local bound to failure.Failure(...)
    from ..astutil import local_defs
    for a in one + seq:
        for c in [c for c in ast.walk(fn) if isinstance(c, ast.Call) and isinstance(c.func, ast.Attribute)
                  and is_self_attr(c.func.value, a) and c.func.attr in ("error", "fire")]:
            arg = c.args[0] if c.args else None
            ok = isinstance(arg, ast.Name) and all(
                isinstance(d, ast.Call) and (dotted(d.func) or "").split(".")[-1] == "Failure" for d in local_defs(fn, arg.id)) \
                and bool(local_defs(fn, arg.id))
            rep.check(rule, "closed() terminates %s with a Failure" % a, ok, site(c, WH), key="%s:closed:%s:failure" % (rule, a))
    # the flag used by close()
    flag = [n for n in g.nodes(lambda s: isinstance(s, ast.Assign) and any(is_self_attr(t, "_closed") for t in s.targets)
                               and const(s.value) is True)]
    rep.check(rule, "closed() records that the wormhole is closed", bool(flag) and g.must_pass(flag), site(fn, WH),
              key="%s:closed:flag" % rule)


def r5_observers(tree, rep):
    # SequenceObserver.when_next_event: the error is tested before the queue
    fn = tree.func(OBS, "SequenceObserver", "when_next_event")
    g = build(fn, split=True)
    err_tests = [n for n in g.nodes(lambda s: isinstance(s, ast.If)) if _mentions_self(g.stmt[n].test, "_error")]
    # where a reader is promised an event: a buffered result taken for it, or its Deferred queued for the pairing step
    pops = g.call_nodes(lambda c: isinstance(c.func, ast.Attribute) and (
        (c.func.attr in ("pop", "popleft") and is_self_attr(c.func.value, "_results"))
        or (c.func.attr == "append" and is_self_attr(c.func.value, "_observers"))))
    from ..cfg import truthy_atom
    has_error = truthy_atom(lambda e: is_self_attr(e, "_error"))
    ok = bool(err_tests) and bool(pops)
    if ok:
        # a buffered result is handed out only on a path where the error test was false
        ok = not g.only_when(pops, has_error, False)
    rep.check("C18.R5", "SequenceObserver.when_next_event tests the stored error before handing out a buffered result",
              ok, site(fn, OBS), key="C18.R5:SequenceObserver.when_next_event:error-first",
              what="after closed, get_message() can still return a buffered message instead of failing")
    errb = g.call_nodes(lambda c: any(dotted(a) == "d.errback" or (isinstance(a, ast.Attribute) and a.attr == "errback")
                                      for a in c.args))
    n_err, unmet = g.when_never_reaches(has_error, True, [g.exit]) if False else (len(g.cond_edges(has_error, True)), [])
    # with an error stored, every path to the exit passes the errback
    ok_e = bool(errb) and n_err > 0
    for (x, y, lab) in g.cond_edges(has_error, True):
        ok_e = ok_e and g.exit not in g.reach([y], avoid_nodes=set(errb), explicit_only=True)
    rep.check("C18.R5", "when_next_event errbacks when an error is stored", ok_e, site(fn, OBS),
              key="C18.R5:SequenceObserver.when_next_event:errback")
    # fire(Failure) errbacks every waiting observer and stores the error
    ff = tree.func(OBS, "SequenceObserver", "fire")
    stores = [n for n in ast.walk(ff) if isinstance(n, ast.Assign) and any(is_self_attr(t, "_error") for t in n.targets)]
    order = {id(st): i for i, st in enumerate(x for x in ast.walk(ff) if isinstance(x, ast.stmt))}

    def _before(a, b):
        """statement a precedes statement b (same block: list order; else source order)"""
        pa, pb = getattr(a, "_parent", None), getattr(b, "_parent", None)
        for f in ("body", "orelse", "finalbody"):
            la = getattr(pa, f, None)
            if isinstance(la, list) and a in la and b in la:
                return la.index(a) < la.index(b)
        return order.get(id(a), 0) < order.get(id(b), 0)

    def _is_observers(e):
        """self._observers, a copy of it, or a local snapshot of it taken before the attribute is reset"""
        if isinstance(e, ast.Call) and isinstance(e.func, ast.Name) and e.func.id in ("list", "tuple") and len(e.args) == 1:
            e = e.args[0]
        if dotted(e) == "self._observers":
            return True
        if isinstance(e, ast.Name):
            binds = [a for a in ast.walk(ff) if isinstance(a, ast.Assign) and any(isinstance(t, ast.Name) and t.id == e.id for t in a.targets)]
            resets = [a for a in ast.walk(ff) if isinstance(a, ast.Assign) and any(is_self_attr(t, "_observers") for t in a.targets)]
            if len(binds) == 1 and len(binds[0].targets) == 1 and _is_observers(binds[0].value) \
                    and all(_before(binds[0], r) for r in resets):
                return True
        return False
    loops = [n for n in ast.walk(ff) if isinstance(n, ast.For) and _is_observers(n.iter)
             and any(isinstance(a, ast.Attribute) and a.attr == "errback" for c in ast.walk(n) if isinstance(c, ast.Call) for a in c.args)]
    rep.check("C18.R5", "SequenceObserver.fire(Failure) stores the error and errbacks every waiting Deferred",
              bool(stores) and bool(loops), site(ff, OBS), key="C18.R5:SequenceObserver.fire:error")
    # OneShotObserver
    fi = tree.func(OBS, "OneShotObserver", "fire_if_not_fired")
    g2 = build(fi, split=True)
    from ..cfg import cmp_atom
    no_result = cmp_atom(lambda e: is_self_attr(e, "_result"), lambda e: dotted(e) == "NoResult", (ast.Is, ast.Eq), (ast.IsNot, ast.NotEq))
    fires = g2.call_nodes(lambda c: dotted(c.func) == "self.fire")
    ok = bool(fires) and not g2.only_when(fires, no_result, True)
    rep.check("C18.R4", "OneShotObserver.fire_if_not_fired fires only while no result is stored", ok, site(fi, OBS),
              key="C18.R4:OneShotObserver.fire_if_not_fired")
    er = tree.func(OBS, "OneShotObserver", "error")
    p = params(er)
    st = [n for n in ast.walk(er) if isinstance(n, ast.Assign) and any(is_self_attr(t, "_result") for t in n.targets)
          and isinstance(n.value, ast.Name) and n.value.id in p]
    ge = build(er)
    call = ge.call_nodes(lambda c: dotted(c.func) == "self._maybe_call_observers")
    rep.check("C18.R5", "OneShotObserver.error stores the failure (overriding a result) and notifies the waiters",
              bool(st) and bool(call) and ge.must_pass(call, explicit_only=True), site(er, OBS), key="C18.R5:OneShotObserver.error")
    wf = tree.func(OBS, "OneShotObserver", "when_fired")
    gw = build(wf)
    call = gw.call_nodes(lambda c: dotted(c.func) == "self._maybe_call_observers")
    app = gw.call_nodes(lambda c: dotted(c.func) == "self._observers.append")
    rep.check("C18.R5", "OneShotObserver.when_fired registers the Deferred and delivers a stored result/failure at once",
              bool(call) and bool(app) and gw.must_pass(call) and not gw.precedes(app, call), site(wf, OBS),
              key="C18.R5:OneShotObserver.when_fired")
    mc = tree.func(OBS, "OneShotObserver", "_maybe_call_observers")
    loops = [n for n in ast.walk(mc) if isinstance(n, ast.For)]
    ok = bool(loops) and any(any(dotted(a) is not None and dotted(a).endswith(".callback") for c in ast.walk(lp)
                                 if isinstance(c, ast.Call) for a in c.args) for lp in loops)
    rep.check("C18.R5", "OneShotObserver._maybe_call_observers fires every registered Deferred", ok, site(mc, OBS),
              key="C18.R5:OneShotObserver._maybe_call_observers")


def _mentions_self(node, attr):
    return any(is_self_attr(n, attr) for n in ast.walk(node))


def r7(tree, prog, rep):
    """"at most once each" for application messages: every numbered phase reaches the application at most once - the Mailbox hands each
    phase on once, or (equivalently for numbered phases) the Boss delivers only the buffered entry of the next expected number; the rule
    instances are C03.R2 (which accepts a fast path only together with the Mailbox's de-duplication)"""
    from .C03 import r2 as c03_r2
    sub = type(rep)(rep.pid, rep.tier, rep.seed)
    c03_r2(tree, prog, sub)
    for o in sub.obligations:
        if o["rule"] == "C03.R2":
            rep.obligations.append(dict(o, rule="C18.R7"))
            rep.evaluations += 1
    for v in sub.violations:
        if v["rule"] == "C03.R2":
            rep.violation("C18.R7", v["key"].replace("C03.R2", "C18.R7"), v["what"] + " (a message can reach the application twice / out of order)",
                          v.get("site"), v.get("detail"), _count=False)


def run(tree, rep, tier):
    from .. import sharedstate
    sharedstate.check(tree, rep, "C18.R0")
    prog = Program(tree)
    r2(prog, rep)
    r3(tree, prog, rep)
    r4c(tree, rep)
    observers_terminated(tree, rep)
    r5_observers(tree, rep)
    from .C03 import observer_handoff_atomic, eventual_turn_isolates_calls, observers_fire_eventually
    observer_handoff_atomic(tree, rep, "C18.R6")
    observers_fire_eventually(tree, rep, "C18.R6")
    eventual_turn_isolates_calls(tree, rep, "C18.R6")
    r7(tree, prog, rep)
    from .. import delegate
    delegate.check(tree, rep, "C18.R9", why=" (events no longer once each and in causal order)")
    # "at most once each": in delegate mode nothing but the Mailbox's de-duplication by PHASE stands between a second copy of the peer's
    # version message (a replay after a reconnect, or the same plaintext encrypted again) and a second got_versions event - the rule
    # instances are those of C02.R5
    from .C02 import r4_r5 as c02_r4_r5
    sub = type(rep)(rep.pid, rep.tier, rep.seed)
    c02_r4_r5(tree, prog, sub)
    for o in sub.obligations:
        if o["rule"] == "C02.R5":
            rep.obligations.append(dict(o, rule="C18.R8"))
            rep.evaluations += 1
    for v in sub.violations:
        if v["rule"] == "C02.R5":
            rep.violation("C18.R8", v["key"].replace("C02.R5", "C18.R8"), v["what"] + " (a second copy of a processed phase reaches the "
                          "application: got_versions fires twice)", v.get("site"), v.get("detail"), _count=False)
    r1(tree, rep, tier)


_R = "src/wormhole/_receive.py"
_S = "src/wormhole/_send.py"
_M = "src/wormhole/_mailbox.py"
_C = "src/wormhole/_code.py"
MUTANTS = [
    Mutant("receive-message-first", _R, "outputs=[S_got_verified_key, W_happy, W_got_verifier, W_got_message])",
           "outputs=[S_got_verified_key, W_happy, W_got_message, W_got_verifier])", ("C18.R2", "C18.R1")),
    Mutant("compute_key-R-first", KEY, "        self._B.got_key(key)\n        phase = \"version\"",
           "        self._R.got_key(key)\n        self._B.got_key(key)\n        phase = \"version\"", ("C18.R3", "C18.R1")),
    Mutant("code-K-first", _C, "        self._B.got_code(code)\n        self._K.got_code(code)\n\n    @m.output()\n    def do_start_allocate",
           "        self._K.got_code(code)\n        self._B.got_code(code)\n\n    @m.output()\n    def do_start_allocate", ("C18.R3", "C18.R1")),
    Mutant("send-early", _S, "    S0_no_key.upon(send, enter=S0_no_key, outputs=[queue])\n",
           "    S0_no_key.upon(send, enter=S0_no_key, outputs=[deliver])\n", ("C18.R3", "C14.R1", "C18")),
    Mutant("drain-sorted", _M, "        for phase, body in self._pending_outbound.items():\n            self._RC.tx_add(phase, body)\n",
           "        for phase in sorted(self._pending_outbound):\n            self._RC.tx_add(phase, self._pending_outbound[phase])\n", "C18.R3"),
    Mutant("closed-forgets-verifier", WH, "        self._verifier_observer.error(f)\n", "", "C18.R5"),
    Mutant("closed-forgets-received", WH, "        self._received_observer.fire(f)\n", "", "C18.R5"),
    Mutant("next-event-results-first", OBS,
           "        if self._error:\n            self._eq.eventually(d.errback, self._error)\n        elif self._results:\n            result = self._results.pop(0)\n            self._eq.eventually(d.callback, result)\n",
           "        if self._results:\n            result = self._results.pop(0)\n            self._eq.eventually(d.callback, result)\n        elif self._error:\n            self._eq.eventually(d.errback, self._error)\n",
           "C18.R5"),
    Mutant("got_code-fire", WH, "        self._code_observer.fire_if_not_fired(code)\n", "        self._code_observer.fire(code)\n", "C18.R4"),
    Mutant("fire_if_not_fired-unguarded", OBS, "        if self._result is NoResult:\n            self.fire(result)\n", "        self.fire(result)\n", "C18.R4"),
    Mutant("version-twice", "src/wormhole/_boss.py", "    S2_happy.upon(got_verifier, enter=S2_happy, outputs=[W_got_verifier])\n",
           "    S2_happy.upon(got_verifier, enter=S2_happy, outputs=[W_got_verifier, W_got_verifier])\n", ("C18.R4", "C18.R1")),
]
REWRITES = [
    Rewrite("closed-reordered", WH, "        self._welcome_observer.error(f)\n        self._code_observer.error(f)\n",
            "        self._code_observer.error(f)\n        self._welcome_observer.error(f)\n", desc="termination order changed"),
    Rewrite("next-event-else-if", OBS, "        elif self._results:\n            result = self._results.pop(0)\n            self._eq.eventually(d.callback, result)\n        else:\n            self._observers.append(d)\n",
            "        else:\n            if self._results:\n                result = self._results.pop(0)\n                self._eq.eventually(d.callback, result)\n            else:\n                self._observers.append(d)\n",
            desc="elif unfolded"),
]
