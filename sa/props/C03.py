"""C03 — mailbox messages arrive in order, exactly once, unmodified."""
import ast

from ..srcmodel import AnalysisError, site
from ..automat_x import Program
from ..astutil import dotted, const, params, local_defs, is_self_attr, calls_named, same_expr, resolve_local
from ..dataflow import expand
from ..effects import class_writers, is_empty_ctor, is_const, check_counter
from ..cfg import build
from ..tablerules import row_calls
from .. import a3common
from ..selftest import Mutant, Rewrite

EXPLANATION = ("Lemma rules: (R1) the n-th send gets phase n (monotone counter, read-then-increment, once per call); "
               "(R2) the application receives only _rx_phases.pop(_next_rx_phase) under a membership test, followed by +1 "
               "(strict phase order, no gaps); (R3) FIFO discipline of Send._queue, Order._queue and SequenceObserver._results; "
               "(R4) un-echoed messages are re-submitted on every (re)open and forgotten only on their echo; (R5) a phase is "
               "accepted once; (R6, typestate) the mailbox is re-opened on every connection; payload plumbing front-end <-> Boss. "
               "The composed trace equality itself is the paper argument of DESIGN.md; content binding is C02.")
TRUSTED_BASE = ["T1", "T3", "T4"]
MIN_OBLIGATIONS = 35

BOSS = "src/wormhole/_boss.py"
OBS = "src/wormhole/observer.py"
WH = "src/wormhole/wormhole.py"


def _is_self_sub(node, container, index_attr):
    """self.<container>.pop(self.<index_attr>)  or  self.<container>[self.<index_attr>]"""
    if isinstance(node, ast.Call) and isinstance(node.func, ast.Attribute) and node.func.attr == "pop" \
            and is_self_attr(node.func.value, container) and len(node.args) == 1 and is_self_attr(node.args[0], index_attr):
        return True
    return isinstance(node, ast.Subscript) and is_self_attr(node.value, container) and is_self_attr(node.slice, index_attr)


def ordered_delivery(rep, rule, fn, file, label, deliver, container, counter, keyparam, once_upstream=None):
    """strict in-order delivery loop (shared shape of Boss.W_received and Boss.D_received_dilate).
    `once_upstream` (a callable -> bool): whether whoever feeds this function hands each number in at most once.  If so, a "fast path"
    that delivers the payload parameter directly is in order as long as it is only taken when the number is NOT ahead of the counter
    (with no duplicates upstream a number at or below the counter can only be the counter itself)"""
    g = build(fn, split=True)
    dn = g.call_nodes(lambda c: dotted(c.func) == deliver)
    rep.check(rule, "%s delivers through %s" % (label, deliver), bool(dn), site(fn, file), key="%s:%s:no-delivery" % (rule, label))
    if not dn:
        return
    if once_upstream is not None:
        from ..cfg import cmp_atom
        ps_ = params(fn)
        ahead = cmp_atom(lambda e: isinstance(e, ast.Name) and e.id == keyparam, lambda e: is_self_attr(e, counter), (ast.Gt,), (ast.LtE,))
        direct = []
        for n in dn:
            cs = [c for e in g.head_expr(n) for c in ast.walk(e) if isinstance(c, ast.Call) and dotted(c.func) == deliver]
            if len(cs) == 1 and len(cs[0].args) == 1 and isinstance(cs[0].args[0], ast.Name) and cs[0].args[0].id in ps_ \
                    and cs[0].args[0].id != keyparam and not local_defs(fn, cs[0].args[0].id) \
                    and not g.only_when([n], ahead, False):
                direct.append(n)
        if direct and once_upstream():
            rep.check(rule, "%s: the fast path hands its payload on directly only when its number is not ahead of the counter; every number "
                      "arrives at most once (de-duplicated upstream), so that number is the counter" % label, True, site(fn, file),
                      key="%s:%s:fast-path" % (rule, label))
            dn = [n for n in dn if n not in direct]
            # the fast path advances the counter too
            incs0 = g.nodes(lambda s: isinstance(s, ast.AugAssign) and is_self_attr(s.target, counter) and isinstance(s.op, ast.Add) and is_const(s.value, 1))
            for n in direct:
                nxt = [y for (y, lab) in g.succ[n] if lab != 'exc']
                r = g.reach(nxt, avoid_nodes=set(incs0), explicit_only=True)
                rep.check(rule, "%s: the fast-path delivery is followed by self.%s += 1" % (label, counter), g.exit not in r and not (set(dn) & r),
                          site(fn, file), key="%s:%s:fast-path-increment" % (rule, label))
            fast = set(direct)
        else:
            fast = set()
    else:
        fast = set()
    ok = True
    for n in dn:
        for c in [c for e in g.head_expr(n) for c in ast.walk(e) if isinstance(c, ast.Call) and dotted(c.func) == deliver]:
            a = expand(fn, c.args[0]) if len(c.args) == 1 else None
            ok = ok and a is not None and _is_self_sub(a, container, counter)
    rep.check(rule, "%s hands on only self.%s.pop(self.%s): deliveries are indexed by the counter" % (label, container, counter),
              ok, site(fn, file), key="%s:%s:indexed-by-counter" % (rule, label),
              what="%s can deliver a value that is not the buffered entry for the next expected number (out-of-order / gap)" % label)
    from ..cfg import in_atom
    # a local snapshot `n = self.<counter>` counts as the counter where it is fresh: no increment can reach a use of it
    # without passing the snapshot again
    fresh = set()
    stores = [x.id for x in ast.walk(fn) if isinstance(x, ast.Name) and isinstance(x.ctx, ast.Store)]
    inc_nodes = g.nodes(lambda s: isinstance(s, (ast.AugAssign, ast.Assign)) and any(
        is_self_attr(t, counter) for t in ([s.target] if isinstance(s, ast.AugAssign) else s.targets)))
    for a in [x for x in ast.walk(fn) if isinstance(x, ast.Assign) and len(x.targets) == 1 and isinstance(x.targets[0], ast.Name)
              and is_self_attr(x.value, counter) and stores.count(x.targets[0].id) == 1]:
        b = g.node_of(a)
        nm = a.targets[0].id
        uses = [n for n in g.stmt if n != b and any(isinstance(x, ast.Name) and x.id == nm for e in g.head_expr(n) for x in ast.walk(e))]
        stale = False
        for i in inc_nodes:
            r = g.reach([y for (y, lab) in g.succ[i] if lab != 'exc'], avoid_nodes={b})
            stale = stale or bool(set(uses) & r)
        if b is not None and not stale:
            fresh.add(nm)
    is_counter = lambda e: is_self_attr(e, counter) or (isinstance(e, ast.Name) and e.id in fresh)
    unguarded = g.only_when(dn, in_atom(is_counter, lambda e: is_self_attr(e, container)), True)
    rep.check(rule, "%s: a delivery happens only under `self.%s in self.%s`" % (label, counter, container), not unguarded, site(fn, file),
              key="%s:%s:membership-guard" % (rule, label))
    incs = g.nodes(lambda s: isinstance(s, ast.AugAssign) and is_self_attr(s.target, counter) and isinstance(s.op, ast.Add)
                   and is_const(s.value, 1))
    ok = bool(incs)
    for n in dn:
        nxt = [y for (y, lab) in g.succ[n] if lab != 'exc']
        # after a delivery: the increment before the next delivery / the exit
        r = g.reach(nxt, avoid_nodes=set(incs), explicit_only=True)
        ok = ok and g.exit not in r and not (set(dn) & r)
    rep.check(rule, "%s: every delivery is followed by self.%s += 1 before the next delivery or return" % (label, counter), ok,
              site(fn, file), key="%s:%s:increment-after-delivery" % (rule, label))
    # a delivery whose exception is caught inside this function continues like any other: the handler must not leave the entry
    # un-retired (buffer entry kept / counter not advanced), or the same number is handed to the application again on the next arrival
    ok = True
    caught = 0
    for n in list(dn) + list(fast):
        hs = [y for (y, lab) in g.succ[n] if lab == 'exc' and y != g.raise_exit]
        if not hs:
            continue
        caught += 1
        r = g.reach(hs, avoid_nodes=set(incs), explicit_only=True)
        ok = ok and g.exit not in r and not (set(dn) & r)
    rep.check(rule, "%s: a delivery that raises into a local handler (%d such) still advances self.%s before the function returns or delivers "
              "again (a failed hand-over is not repeated)" % (label, caught, counter), ok, site(fn, file),
              key="%s:%s:increment-after-caught-delivery" % (rule, label),
              what="%s: when the application's handler raises, the exception is swallowed and the number stays current: the same message is "
                   "delivered a second time when the next one arrives" % label)
    # and an increment happens only after a delivery (no skipping)
    ok = True
    for i in incs:
        ok = ok and not g.precedes(list(dn) + list(fast), [i])
    rep.check(rule, "%s: the counter advances only after a delivery (nothing is skipped)" % label, ok and bool(incs), site(fn, file),
              key="%s:%s:increment-needs-delivery" % (rule, label))
    # the buffer is filled from the parameters
    stores = [n for n in ast.walk(fn) if isinstance(n, ast.Assign) and any(
        isinstance(t, ast.Subscript) and is_self_attr(t.value, container) for t in n.targets)]
    ok = len(stores) == 1 and isinstance(stores[0].targets[0].slice, ast.Name) and stores[0].targets[0].slice.id == keyparam \
        and isinstance(stores[0].value, ast.Name) and stores[0].value.id in params(fn) and not local_defs(fn, stores[0].value.id)
    rep.check(rule, "%s buffers its payload parameter under its number parameter, unmodified" % label, ok, site(fn, file),
              key="%s:%s:buffer-store" % (rule, label))


def _is_member_test(t, counter, container):
    return isinstance(t, ast.Compare) and len(t.ops) == 1 and isinstance(t.ops[0], ast.In) and is_self_attr(t.left, counter) \
        and is_self_attr(t.comparators[0], container)


def r1(tree, prog, rep):
    check_counter(tree, rep, "C03.R1", BOSS, "Boss", "_next_tx_phase", 1)
    check_counter(tree, rep, "C03.R1", BOSS, "Boss", "_next_rx_phase", 1)
    B = prog.machine("Boss")
    fn = B.outputs.get("S_send")
    if fn is None:
        raise AnalysisError("Boss.S_send not found")
    g = build(fn)
    reads = g.nodes(lambda s: isinstance(s, ast.Assign) and is_self_attr(s.value, "_next_tx_phase") and isinstance(s.targets[0], ast.Name))
    incs = g.nodes(lambda s: isinstance(s, ast.AugAssign) and is_self_attr(s.target, "_next_tx_phase"))
    sends = g.call_nodes(lambda c: dotted(c.func) == "self._S.send")
    ok = len(reads) == 1 and len(incs) == 1 and len(sends) == 1
    if ok:
        ok = not g.precedes(reads, incs) and g.must_pass(incs) and g.must_pass(sends) and g.must_pass(reads)
        # no loop: one increment per call
        ok = ok and incs[0] not in g.reach([y for (y, l) in g.succ[incs[0]]])
        var = g.stmt[reads[0]].targets[0].id
        c = [c for c in ast.walk(g.stmt[sends[0]]) if isinstance(c, ast.Call) and dotted(c.func) == "self._S.send"][0]
        from ..astutil import int_to_decimal_str_of, resolve_local
        a0 = c.args[0]
        if isinstance(a0, ast.Name) and a0.id != var:
            a0 = resolve_local(fn, a0)          # phase_name = "%d" % phase
        iv = int_to_decimal_str_of(a0)
        fmt_ok = isinstance(iv, ast.Name) and iv.id == var
        ok = ok and fmt_ok and len(local_defs(fn, var)) == 1
        ok = ok and len(c.args) == 2 and isinstance(c.args[1], ast.Name) and c.args[1].id in params(fn) and not local_defs(fn, c.args[1].id)
    rep.check("C03.R1", "Boss.S_send: phase = counter read before the single increment; sends (decimal phase, plaintext parameter)", ok,
              site(fn, B.file), key="C03.R1:S_send", what="the n-th send_message no longer gets phase n / the payload is altered")
    for r in B.rows_on("send"):
        if r.src not in ("S3_closing", "S4_closed") and r.outputs:
            rep.check("C03.R1", "Boss %s.send numbers and forwards the message" % r.src, r.outputs == ["S_send"], r.site,
                      key="C03.R1:Boss[%s].send" % r.src)


def r2(tree, prog, rep):
    B = prog.machine("Boss")
    fn = B.outputs.get("W_received")
    if fn is None:
        raise AnalysisError("Boss.W_received not found")
    def mailbox_dedups_every_phase():
        from .C02 import r4_r5 as c02_r4_r5
        sub = type(rep)(rep.pid, rep.tier, rep.seed)
        try:
            c02_r4_r5(tree, prog, sub)
        except AnalysisError:
            return False
        return not [v for v in sub.violations if v["rule"] == "C02.R5"]
    ordered_delivery(rep, "C03.R2", fn, B.file, "Boss.W_received", "self._W.received", "_rx_phases", "_next_rx_phase", "phase",
                     once_upstream=mailbox_dedups_every_phase)
    own, foreign = class_writers(tree, "Boss", "_rx_phases")
    for w in own + foreign:
        ok = w in own and ((w.kind == "assign" and w.fn in ("__init__", "__attrs_post_init__", "_init_other_state") and is_empty_ctor(w.value, ("dict",)))
                           or (w.fn == "W_received" and w.kind in ("setitem", "call:pop", "delitem")))
        rep.check("C03.R2", "Boss._rx_phases writer %s" % w.brief(), ok, w.site, key="C03.R2:_rx_phases:writer:%s" % w.brief())
    # other callers of W.received
    for cname, ci in prog.classes.items():
        for fname, f2 in list(ci.outputs.items()) + list(ci.methods.items()):
            for c in calls_named(f2, "self._W.received"):
                rep.check("C03.R2", "the application's received() is called only from Boss.W_received (here %s.%s)" % (ci.name, fname),
                          ci.name == "Boss" and fname == "W_received", site(c, ci.file), key="C03.R2:received-caller:%s.%s" % (ci.name, fname))
    for r in B.rows_on("_got_phase"):
        if r.outputs:
            rep.check("C03.R2", "Boss %s._got_phase runs the ordered-delivery output only" % r.src, r.outputs == ["W_received"], r.site,
                      key="C03.R2:Boss[%s]._got_phase" % r.src)


def fifo_queue(tree, rep, rule, prog, cname, attr, append_out, drain_out):
    ci = prog.cls(cname)
    own, foreign = class_writers(tree, cname, attr)
    is_deque = any(w.kind == "assign" and w.fn in ("__init__", "__attrs_post_init__") and is_empty_ctor(w.value, ("deque",)) for w in own)
    for w in own + foreign:
        ok = w in own and (
            (w.kind == "assign" and w.fn in ("__init__", "__attrs_post_init__") and is_empty_ctor(w.value, ("list", "deque")))
            or (w.kind == "call:append" and w.fn == append_out)
            or (w.fn == drain_out and (w.kind == "call:clear" or (
                w.kind in ("setslice", "assign") and not (is_deque and w.kind == "setslice")
                and is_empty_ctor(w.value, ("deque",) if is_deque else ("list",))))))
        rep.check(rule, "%s.%s writer %s is init / append at the tail / clear after draining" % (cname, attr, w.brief()), ok, w.site,
                  key="%s:%s.%s:writer:%s" % (rule, cname, attr, w.brief()),
                  what="%s.%s is modified by %s: queued messages could be reordered, dropped or duplicated" % (cname, attr, w.brief()))
    fn = ci.func(drain_out)
    if fn is None:
        raise AnalysisError("%s.%s not found" % (cname, drain_out))
    g = build(fn)
    loops = [n for n in g.nodes(lambda s: isinstance(s, ast.For)) if dotted(g.stmt[n].iter) == "self." + attr]
    clears = [n for n in g.nodes() if any(w.node is g.stmt[n] or (isinstance(g.stmt[n], ast.Expr) and w.node is g.stmt[n].value)
                                          for w in own if w.fn == drain_out and w.kind != "call:append")]
    ok = len(loops) == 1 and len(clears) >= 1
    if ok:
        lp = g.stmt[loops[0]]
        in_loop = {id(x) for s in lp.body for x in ast.walk(s)}
        ok = all(id(g.stmt[c]) not in in_loop for c in clears) and not g.precedes(loops, clears) \
            and not any(isinstance(x, (ast.Break, ast.Return)) for s in lp.body for x in ast.walk(s))
    rep.check(rule, "%s.%s iterates self.%s front to back, completely, and empties it only afterwards" % (cname, drain_out, attr), ok,
              site(fn, ci.file), key="%s:%s.%s:drain" % (rule, cname, attr))


def _seqobs_takes(tree):
    """per method of SequenceObserver: the pop()/popleft() calls on _results / _observers, split into those made by the method itself
    and those deferred into a lambda / nested function"""
    OBS = "src/wormhole/observer.py"
    cls = tree.cls(OBS, "SequenceObserver")
    out = {}
    for fn in [m for m in cls.body if isinstance(m, (ast.FunctionDef, ast.AsyncFunctionDef))]:
        own, lazy = [], []
        for n in ast.walk(fn):
            if isinstance(n, ast.Call) and isinstance(n.func, ast.Attribute) and n.func.attr in ("pop", "popleft") \
                    and is_self_attr(n.func.value) and n.func.value.attr in ("_results", "_observers"):
                p_ = getattr(n, "_parent", None)
                deferred = False
                while p_ is not None and p_ is not fn:
                    if isinstance(p_, (ast.Lambda, ast.FunctionDef, ast.AsyncFunctionDef)):
                        deferred = True
                        break
                    p_ = getattr(p_, "_parent", None)
                (lazy if deferred else own).append(n)
        out[fn.name] = (fn, own, lazy)
    return out


def observer_handoff_atomic(tree, rep, rule):
    """SequenceObserver pairs the oldest event with the oldest waiting Deferred.  Whatever the layout (pairing inside fire(), or in a
    method run by the eventual queue), the pairing is ONE step: the method that takes a waiting Deferred takes the event it hands to it
    in the same activation, never inside a lambda / nested function that runs later (another get_message() could take it first:
    reordering, or a Deferred that never fires).  And when the pairing does not happen inside fire() itself, an event can sit in
    _results while an older Deferred waits, so no method that creates a Deferred may help itself to _results."""
    OBS = "src/wormhole/observer.py"
    takes = _seqobs_takes(tree)
    n_pair = 0
    for name, (fn, own, lazy) in sorted(takes.items()):
        if not own and not lazy:
            continue
        what_ = lambda c: c.func.value.attr
        obs_takes = [c for c in own if what_(c) == "_observers"]
        res_takes = [c for c in own if what_(c) == "_results"]
        creates = any(isinstance(c, ast.Call) and (dotted(c.func) or "").split(".")[-1] == "Deferred" for c in ast.walk(fn))
        ok = not lazy and (not obs_takes or bool(res_takes)) and (not res_takes or bool(obs_takes) or creates)
        n_pair += 1 if obs_takes else 0
        rep.check(rule, "SequenceObserver.%s takes results / waiting Deferreds synchronously, an event together with the Deferred it is for "
                  "(%d takes, none deferred)" % (name, len(own)), ok, site((lazy or own or [fn])[0], OBS),
                  key="%s:SequenceObserver.%s:atomic-handoff" % (rule, name),
                  what="SequenceObserver.%s defers taking a result / observer to a later turn (or takes one without the other): another "
                       "get_message() can take it first (messages out of order, or a Deferred that never fires)" % name)
    pairing = [name for name, (fn, own, lazy) in takes.items() if any(c.func.value.attr == "_observers" for c in own + lazy)]
    if not pairing:
        raise AnalysisError("SequenceObserver: no method takes a waiting Deferred out of _observers")
    if pairing != ["fire"]:
        # pairing happens in a method of its own (run by the eventual queue): readers must queue up behind the waiting ones
        for name, (fn, own, lazy) in sorted(takes.items()):
            creates = any(isinstance(c, ast.Call) and (dotted(c.func) or "").split(".")[-1] == "Deferred" for c in ast.walk(fn))
            if creates:
                direct = [c for c in own + lazy if c.func.value.attr == "_results"]
                rep.check(rule, "SequenceObserver.%s (which hands out the Deferred) leaves _results to the pairing step %s: a new reader "
                          "cannot overtake an older waiting one" % (name, pairing), not direct, site((direct or [fn])[0], OBS),
                          key="%s:SequenceObserver.%s:no-bypass" % (rule, name),
                          what="SequenceObserver.%s takes an event from _results itself while the pairing of events and waiting Deferreds "
                               "happens later, in %s: a get_message() issued between the arrival of a message and its delivery overtakes "
                               "the older, still waiting get_message() (messages out of order)" % (name, pairing))


def observers_fire_eventually(tree, rep, rule):
    """OneShotObserver / SequenceObserver never run a waiting Deferred's callbacks inside the caller's activation: `d.callback` /
    `d.errback` are either handed to the eventual queue, or called directly inside a method that itself only ever runs from the
    eventual queue (every mention of self.<m> in the class is an argument of eventually()).  A subscriber that is called back from
    inside when_fired() / fire() runs in the middle of whatever the caller was doing (the Connector's select(): the Manager hears `lost`
    before `made`; the Boss's closed(): application code runs inside a transition)"""
    OBS = "src/wormhole/observer.py"
    n = 0
    for cname in ("OneShotObserver", "SequenceObserver"):
        cls = tree.cls(OBS, cname)
        methods = {m.name: m for m in cls.body if isinstance(m, (ast.FunctionDef, ast.AsyncFunctionDef))}
        is_ev = lambda c: isinstance(c, ast.Call) and isinstance(c.func, ast.Attribute) and c.func.attr == "eventually"
        # methods that only run from the eventual queue
        mentions = {}
        for c in ast.walk(cls):
            if is_self_attr(c) and c.attr in methods:
                par = getattr(c, "_parent", None)
                mentions.setdefault(c.attr, []).append(is_ev(par) and c in par.args)
        queued_only = {m for m, uses in mentions.items() if uses and all(uses)}
        direct, deferred = [], 0
        for mname, m in methods.items():
            for c in ast.walk(m):
                if not isinstance(c, ast.Call):
                    continue
                if isinstance(c.func, ast.Attribute) and c.func.attr in ("callback", "errback"):
                    if mname in queued_only:
                        deferred += 1
                    else:
                        direct.append(c)
                for a in c.args:
                    if isinstance(a, ast.Attribute) and a.attr in ("callback", "errback"):
                        if is_ev(c):
                            deferred += 1
                        else:
                            direct.append(c)
        n += deferred
        rep.check(rule, "%s runs every d.callback / d.errback from the eventual queue (%d sites: handed to eventually(), or inside a method "
                  "that only eventually() runs: %s), never inside the caller" % (cname, deferred, sorted(queued_only) or "-"),
                  not direct and deferred > 0, site(direct[0] if direct else cls, OBS), key="%s:%s:fires-eventually" % (rule, cname),
                  what="%s fires a waiting Deferred synchronously (%s): the subscriber's callback runs re-entrantly inside the caller "
                       "(e.g. a connection lost between consider() and accept() is reported to the Manager before connection_made, and "
                       "the notification is used up)" % (cname, ast.unparse(direct[0])[:60] if direct else "no eventual hand-off found"))
    if n < 4:
        raise AnalysisError("observer.py: fewer eventual hand-offs than expected (%d)" % n)


def waiting_reads_cancel_safe(tree, rep, rule):
    """SequenceObserver pairs every event with ONE waiting Deferred (taken from the head of _observers).  A waiting Deferred that the
    application cancels (Deferred.addTimeout on get_message()) must leave that list: twisted silently drops the callback() that follows a
    cancel() on a Deferred without canceller, so the next message would be handed to the dead Deferred and be lost.  Required shape: the
    Deferred that when_next_event appends to _observers is created with a canceller, and that canceller removes it from _observers."""
    OBS = "src/wormhole/observer.py"
    fn = tree.func(OBS, "SequenceObserver", "when_next_event")
    cls = tree.cls(OBS, "SequenceObserver")
    methods = {m.name: m for m in cls.body if isinstance(m, ast.FunctionDef)}
    apps = [c for c in ast.walk(fn) if isinstance(c, ast.Call) and isinstance(c.func, ast.Attribute) and c.func.attr == "append"
            and is_self_attr(c.func.value, "_observers") and c.args and isinstance(c.args[0], ast.Name)]
    if not apps:
        raise AnalysisError("SequenceObserver.when_next_event no longer keeps the waiting Deferred in _observers")
    ok = True
    for a in apps:
        defs = [d for d in local_defs(fn, a.args[0].id)]
        good = bool(defs)
        for d in defs:
            this = False
            if isinstance(d, ast.Call) and (dotted(d.func) or "").split(".")[-1] == "Deferred":
                canc = d.args[0] if d.args else next((k.value for k in d.keywords if k.arg == "canceller"), None)
                if canc is not None:
                    from ..astutil import callback_function
                    target = callback_function(canc, fn, methods)
                    this = target is not None and any(
                        isinstance(x, ast.Call) and isinstance(x.func, ast.Attribute) and x.func.attr in ("remove", "discard")
                        and is_self_attr(x.func.value, "_observers") for x in ast.walk(target))
            good = good and this        # EVERY way the waiting Deferred is created carries the canceller
        ok = ok and good
    rep.check(rule, "SequenceObserver.when_next_event: a waiting Deferred has a canceller that removes it from _observers (a cancelled "
              "get_message() cannot swallow the next message)", ok, site(fn, OBS), key="%s:SequenceObserver.when_next_event:cancel-safe" % rule,
              what="a get_message() Deferred that the application cancels (addTimeout) stays in SequenceObserver._observers: the next message is "
                   "handed to it and silently dropped - the application receives the sequence with a record missing")
    # ... and a waiting Deferred stays in _observers (where the canceller finds it) until the very activation that calls it back: a
    # method that takes it out and only SCHEDULES d.callback(event) leaves a turn in which a cancel() (addTimeout expiring together with
    # the message's arrival) finds nothing to remove - the callback then raises AlreadyCalledError and the event, already taken out of
    # _results, is lost
    bad = []
    for name, (mfn, own, lazy) in sorted(_seqobs_takes(tree).items()):
        if not any(c.func.value.attr == "_observers" for c in own + lazy):
            continue
        for c in ast.walk(mfn):
            if isinstance(c, ast.Call) and isinstance(c.func, ast.Attribute) and c.func.attr == "eventually" and c.args \
                    and isinstance(c.args[0], ast.Attribute) and c.args[0].attr == "callback":
                bad.append(c)
    rep.check(rule, "SequenceObserver: the method that takes a waiting Deferred out of _observers calls it back in the same activation (no "
              "turn in which a cancelled Deferred is neither in the list nor called)", not bad, site((bad or [fn])[0], OBS),
              key="%s:SequenceObserver:taken-and-called-together" % rule,
              what="SequenceObserver takes a waiting Deferred out of _observers and only schedules its callback (%s): a get_message() "
                   "cancelled in between (addTimeout expiring in the turn the message arrives) is not found by its canceller, the scheduled "
                   "callback raises AlreadyCalledError and the message - already removed from _results - is lost"
                   % (ast.unparse(bad[0])[:70] if bad else ""))


def eventual_turn_isolates_calls(tree, rep, rule):
    """EventualQueue._turn: a queued call that raises is logged and does NOT drop the calls queued behind it (one of which can be
    the delivery of a message already taken out of the observer's buffer)"""
    EV = "src/wormhole/eventual.py"
    fn = tree.func(EV, "EventualQueue", "_turn")
    loops = [n for n in ast.walk(fn) if isinstance(n, (ast.For, ast.While))]
    calls = [c for c in ast.walk(fn) if isinstance(c, ast.Call) and isinstance(c.func, ast.Name) and any(
        isinstance(a, ast.Starred) for a in c.args)]
    ok = len(loops) >= 1 and len(calls) == 1
    if ok:
        c = calls[0]
        # walking up from the call: a Try (catching everything) is met before the loop
        p_ = getattr(c, "_parent", None)
        seen_try = False
        inside_loop = False
        while p_ is not None and p_ is not fn:
            if isinstance(p_, ast.Try) and any(h.type is None or dotted(h.type) in ("Exception", "BaseException") for h in p_.handlers) \
                    and any(c is x for b in p_.body for x in ast.walk(b)):
                seen_try = True
            if isinstance(p_, (ast.For, ast.While)):
                inside_loop = True
                break
            p_ = getattr(p_, "_parent", None)
        ok = inside_loop and seen_try
    rep.check(rule, "EventualQueue._turn runs every queued call inside its own try/except within the loop", ok, site(fn, EV),
              key="%s:EventualQueue._turn:isolation" % rule,
              what="an exception in one eventual call drops the calls queued behind it in the same turn (a message already taken from the "
                   "observer is never delivered)")


def r3(tree, prog, rep):
    fifo_queue(tree, rep, "C03.R3", prog, "Send", "_queue", "queue", "drain")
    fifo_queue(tree, rep, "C03.R3", prog, "Order", "_queue", "queue", "drain")
    # SequenceObserver._results: append at the tail, take from the head
    own, foreign = class_writers(tree, "SequenceObserver", "_results")
    inits = [w for w in own if w.kind == "assign"]
    is_deque = any(is_empty_ctor(w.value, ("deque",)) for w in inits)
    for w in own + foreign:
        ok = w in own and (
            (w.kind == "assign" and w.fn == "__init__" and is_empty_ctor(w.value, ("list", "deque")))
            or w.kind == "call:append"
            or (w.kind == "call:pop" and not is_deque and len(w.value.args) == 1 and is_const(w.value.args[0], 0))
            or (w.kind == "call:popleft" and is_deque))
        rep.check("C03.R3", "SequenceObserver._results writer %s is init / append / take-from-the-head" % w.brief(), ok, w.site,
                  key="C03.R3:SequenceObserver._results:writer:%s@%s" % (w.brief(), "deque" if is_deque else "list"),
                  what="get_message() results are not handed out first-in-first-out (%s on a %s)" % (w.kind, "deque" if is_deque else "list"))
    if len(own) < 3:
        raise AnalysisError("SequenceObserver._results has fewer writers than expected")
    observer_handoff_atomic(tree, rep, "C03.R3")
    observers_fire_eventually(tree, rep, "C03.R3")
    waiting_reads_cancel_safe(tree, rep, "C03.R3")
    eventual_turn_isolates_calls(tree, rep, "C03.R3")
    own, foreign = class_writers(tree, "SequenceObserver", "_observers")
    # the canceller(s) of the waiting Deferreds: a cancelled waiter leaves the line (the others keep their order)
    cancellers = set()
    wne = tree.func(OBS, "SequenceObserver", "when_next_event")
    for c in ast.walk(wne):
        if isinstance(c, ast.Call) and (dotted(c.func) or "").split(".")[-1] == "Deferred":
            cc = c.args[0] if c.args else next((k.value for k in c.keywords if k.arg == "canceller"), None)
            if cc is not None and is_self_attr(cc):
                cancellers.add(cc.attr)
    for w in own + foreign:
        ok = w in own and ((w.kind == "assign" and is_empty_ctor(w.value, ("list", "deque"))) or w.kind == "call:append"
                           or (w.kind == "call:pop" and len(w.value.args) == 1 and is_const(w.value.args[0], 0)) or w.kind == "call:popleft"
                           or (w.kind in ("call:remove", "call:discard") and w.fn in cancellers))
        rep.check("C03.R3", "SequenceObserver._observers writer %s keeps waiting Deferreds first-come-first-served" % w.brief(), ok, w.site,
                  key="C03.R3:SequenceObserver._observers:writer:%s" % w.brief())
    # front-end plumbing
    for cls, meth, callee in (("_DeferredWormhole", "received", "self._received_observer.fire"),
                              ("_DeferredWormhole", "send_message", "self._boss.send"),
                              ("_DelegatedWormhole", "received", "self._delegate.wormhole_got_message"),
                              ("_DelegatedWormhole", "send_message", "self._boss.send"),
                              ("_DeferredWormhole", "get_message", "self._received_observer.when_next_event")):
        fn = tree.func(WH, cls, meth)
        cs = calls_named(fn, callee)
        ps = params(fn)
        ok = len(cs) == 1 and [getattr(a, "id", None) for a in cs[0].args] == ps and all(not local_defs(fn, p) for p in ps)
        rep.check("C03.R3", "%s.%s hands its argument to %s unmodified" % (cls, meth, callee), ok, site(fn, WH),
                  key="C03.R3:frontend:%s.%s" % (cls, meth))


def r4_r5(tree, prog, rep):
    from .C09 import r5 as c09_r5, r5_rows as c09_r5_rows, r1_r2 as c09_r1_r2
    from .C02 import r4_r5 as c02_r4_r5
    from .C18 import r3 as c18_r3
    for (fnc, args, src, dst) in ((c09_r5, (tree,), "C09.R5", "C03.R4"), (c09_r5_rows, (prog,), "C09.R5", "C03.R4"),
                                  (c09_r1_r2, (prog,), "C09.R2", "C03.R4"), (c02_r4_r5, (tree, prog), "C02.R5", "C03.R5"),
                                  (c18_r3, (tree, prog), "C18.R3", "C03.R4")):
        sub = type(rep)(rep.pid, rep.tier, rep.seed)
        fnc(*(args + (sub,)))
        for o in sub.obligations:
            if o["rule"] == src and (dst != "C03.R4" or src != "C18.R3" or "Mailbox._drain" in o["instance"] or "Send" in o["instance"]):
                rep.obligations.append(dict(o, rule=dst))
                rep.evaluations += 1
        for v in sub.violations:
            if v["rule"] == src:
                rep.violation(dst, v["key"].replace(src, dst), v["what"], v.get("site"), v.get("detail"), _count=False)


def r6(tree, rep, tier):
    sums = a3common.explorations(tree, tier, rep.seed, rep)
    a3common.fill_extra(rep, sums)
    for envname, s in sums.items():
        if envname == "postclose":
            continue
        rep.check("C03.R6", "Mailbox S2B => mailbox opened on the current connection (environment %s, %d connected states)"
                  % (envname, s.connected_states), True, key="C03.R6:summary:%s" % envname, evals=max(1, s.connected_states))
        for f, path in s.inv_fail.items():
            if f.startswith("Mailbox"):
                rep.violation("C03.R6", "C03.R6:%s" % f, "%s but the request is not outstanding on the current connection" % f, None, trace=path)


def run(tree, rep, tier):
    from .. import sharedstate
    sharedstate.check(tree, rep, "C03.R0")
    prog = Program(tree)
    r1(tree, prog, rep)
    r2(tree, prog, rep)
    r3(tree, prog, rep)
    r4_r5(tree, prog, rep)
    from .. import delegate
    delegate.check(tree, rep, "C03.R8", only=("received",), why=" (messages out of order, skipped or repeated)")
    from .. import payload
    payload.check(tree, rep, "C03.R7", "dropped, or never delivered together with everything behind it (a record skipped)")
    r6(tree, rep, tier)
    # round 9 (additive paths / optimisations)
    from .. import round9
    round9.single_reader(tree, rep, "C03.R9")
    from .C02 import echo_filter
    echo_filter(prog, rep, "C03.R10")


_SEND = "src/wormhole/_send.py"
_ORD = "src/wormhole/_order.py"
_MB = "src/wormhole/_mailbox.py"
MUTANTS = [
    Mutant("send-inc-before-read", BOSS, "        phase = self._next_tx_phase\n        self._next_tx_phase += 1\n",
           "        self._next_tx_phase += 1\n        phase = self._next_tx_phase\n", "C03.R1"),
    Mutant("rx-inc-2", BOSS, "            self._W.received(self._rx_phases.pop(self._next_rx_phase))\n            self._next_rx_phase += 1",
           "            self._W.received(self._rx_phases.pop(self._next_rx_phase))\n            self._next_rx_phase += 2", "C03.R"),
    Mutant("rx-arrival-order", BOSS, "        self._rx_phases[phase] = plaintext\n        while self._next_rx_phase in self._rx_phases:\n            self._W.received(self._rx_phases.pop(self._next_rx_phase))\n            self._next_rx_phase += 1",
           "        self._W.received(plaintext)", "C03.R2"),
    Mutant("rx-fast-path", BOSS, "        self._rx_phases[phase] = plaintext\n        while self._next_rx_phase in self._rx_phases:\n            self._W.received(self._rx_phases.pop(self._next_rx_phase))\n            self._next_rx_phase += 1",
           "        if phase != self._next_rx_phase:\n            self._rx_phases[phase] = plaintext\n            return\n        self._W.received(plaintext)\n        self._next_rx_phase += 1\n"
           "        for p in sorted(self._rx_phases):\n            self._W.received(self._rx_phases.pop(p))\n            self._next_rx_phase = p + 1", "C03.R"),
    Mutant("rx-counter-reset", BOSS, "    def W_got_verifier(self, verifier):\n        self._W.got_verifier(verifier)",
           "    def W_got_verifier(self, verifier):\n        self._next_rx_phase = 0\n        self._W.got_verifier(verifier)", "C03.R1"),
    Mutant("observer-lifo", OBS, "            d.callback(self._results.pop(0))", "            d.callback(self._results.pop())", "C03.R3"),
    Mutant("observer-deque-wrong-end", OBS, "        self._results = []\n", "        self._results = deque()\n", "C03.R3",
           also=((OBS, "from twisted.internet.defer import Deferred\n", "from collections import deque\nfrom twisted.internet.defer import Deferred\n"),
                 (OBS, "            d.callback(self._results.pop(0))", "            d.callback(self._results.pop())"))),
    Mutant("observer-pairing-scheduled-callback", OBS, "            d = self._observers.pop(0)\n            d.callback(self._results.pop(0))",
           "            d = self._observers.pop(0)\n            self._eq.eventually(d.callback, self._results.pop(0))", "C03.R3",
           "finding F19 put back: a Deferred cancelled between pairing and delivery loses the message"),
    Mutant("observer-reader-bypass", OBS, "        else:\n            self._observers.append(d)\n            self._schedule_delivery()\n        return d",
           "        elif self._results:\n            self._eq.eventually(d.callback, self._results.pop(0))\n        else:\n            self._observers.append(d)\n            self._schedule_delivery()\n        return d",
           "C03.R3", "a new reader takes a queued event ahead of an older waiting one (seed C03-13 on the new layout)"),
    Mutant("observer-deliver-called-directly", OBS, "        if self._results and self._observers:\n            self._eq.eventually(self._deliver)",
           "        if self._results and self._observers:\n            self._deliver()", "C03.R3", "the reader's callback runs inside fire() / when_next_event()"),
    Mutant("send-drain-reversed", _SEND, "        for (phase, plaintext) in self._queue:", "        for (phase, plaintext) in reversed(self._queue):", "C03.R3"),
    Mutant("order-queue-insert-front", _ORD, "        self._queue.append((side, phase, body))", "        self._queue.insert(0, (side, phase, body))", "C03.R3"),
    Mutant("lost-clears-pending", _MB, "    @m.output()\n    def dequeue(self, phase, body):\n",
           "    @m.output()\n    def forget(self):\n        self._pending_outbound.clear()\n\n    @m.output()\n    def dequeue(self, phase, body):\n",
           "C03.R4", also=((_MB, "    S2B.upon(lost, enter=S2A, outputs=[])\n", "    S2B.upon(lost, enter=S2A, outputs=[forget])\n"),)),
    Mutant("processed-cleared-on-open", _MB, "    def RC_tx_open(self):\n        assert self._mailbox\n", "    def RC_tx_open(self):\n        assert self._mailbox\n        self._processed.clear()\n", "C03.R5"),
    Mutant("received-altered", WH, "    def received(self, plaintext):\n        self._received_observer.fire(plaintext)",
           "    def received(self, plaintext):\n        self._received_observer.fire(plaintext.strip())", "C03.R3"),
]
REWRITES = [
    Rewrite("rx-loop-via-local", BOSS, "            self._W.received(self._rx_phases.pop(self._next_rx_phase))\n            self._next_rx_phase += 1",
            "            msg = self._rx_phases.pop(self._next_rx_phase)\n            self._W.received(msg)\n            self._next_rx_phase += 1", desc="popped value through a local"),
    Rewrite("send-fstring-phase", BOSS, "        self._S.send(\"%d\" % phase, plaintext)", "        self._S.send(f\"{phase}\", plaintext)", desc="f-string formatting"),
    Rewrite("drain-clear-call", _SEND, "        self._queue[:] = []", "        self._queue.clear()", desc="clear() instead of slice assignment"),
]

MUTANTS.append(Mutant("rx-delivery-error-swallowed", BOSS, "            self._W.received(self._rx_phases.pop(self._next_rx_phase))\n            self._next_rx_phase += 1",
                      "            try:\n                self._W.received(self._rx_phases[self._next_rx_phase])\n                del self._rx_phases[self._next_rx_phase]\n"
                      "                self._next_rx_phase += 1\n            except Exception:\n                log.err()\n                break", "C03.R2",
                      "a raising application handler leaves the phase current: delivered again with the next arrival (seed C02-11)"))
MUTANTS.append(Mutant("reorder-buffers-aliased", BOSS, "        self._rx_phases = {}  # phase -> plaintext", "        self._rx_phases = self._rx_dilate_seqnums = {}  # phase -> plaintext", ("C03.R0", "C03.R2"),
                      "one dict for the application reorder buffer and the dilation one"))
WHF = "src/wormhole/wormhole.py"
MUTANTS.append(Mutant("delegate-received-buffers", WHF, "    def received(self, plaintext):\n        self._delegate.wormhole_got_message(plaintext)",
                      "    def received(self, plaintext):\n        if not getattr(self, \"_have_versions\", True):\n            return\n        self._delegate.wormhole_got_message(plaintext)", "C03.R8", "seed C03-16 family"))
MUTANTS.append(Mutant("observer-canceller-only-when-waiting", OBS, "        d = Deferred(self._forget_observer)\n", "        d = Deferred() if self._results else Deferred(self._forget_observer)\n", "C03.R3", "seed C03-17"))

MUTANTS.append(Mutant("second-reader-with-timeout", "src/wormhole/wormhole.py", "        return self._received_observer.when_next_event()\n\n    def allocate_code(self, code_length=2):\n        self._boss.allocate_code(code_length)\n",
                      "        return self._received_observer.when_next_event()\n\n    def get_message_or_timeout(self, timeout):\n        from twisted.internet.defer import Deferred\n        waiter = Deferred()\n        timer = self._reactor.callLater(timeout, waiter.errback, failure.Failure(WormholeClosed()))\n\n        def _arrived(res):\n            if timer.active():\n                timer.cancel()\n                waiter.callback(res)\n        self.get_message().addBoth(_arrived)\n        return waiter\n\n    def allocate_code(self, code_length=2):\n        self._boss.allocate_code(code_length)\n", "C03.R9", "seed C03-18"))
MUTANTS.append(Mutant("echo-only-while-pending", _MB, "        if side == self._side:\n            self.rx_message_ours", "        if side == self._side and phase in self._pending_outbound:\n            self.rx_message_ours", ("C03.R10", "C03.R"), "draft of seed C03-19"))
