"""C20 — peer connection hints are untrusted: never a crash, only valid hints dialled."""
import ast

from ..srcmodel import AnalysisError, site
from ..astutil import dotted, const, params, local_defs, is_self_attr, calls_named, walk_shallow, enclosing_function
from ..dataflow import expand, expand_flow
from ..cfg import build
from .. import jsonguard as jg
from ..selftest import Mutant, Rewrite

EXPLANATION = ("(R1) JSON type-guard analysis: starting from 'a list of JSON objects with arbitrary keys and values' in hint position, "
               "every operation reachable through parse_tcp_v1_hint / parse_hint / Common.add_connection_hints / Common._connect / "
               "Connector._use_hints / _schedule_connection / describe_hint_obj / endpoint_from_hint_obj that can raise on a type the "
               "value may still have is reported (subscript/.get on a non-dict, missing key, iteration over a non-iterable, hashing an "
               "unhashable, ordering incomparables, %d of a non-number, int()/float() of a non-number, attribute of the wrong hint "
               "class). (R2) a hint object is built only from a hostname narrowed to str and a port narrowed to int taken directly "
               "from the JSON (no conversion), for the two supported types; the dilation message handler drops unparseable hints. "
               "(R3) round trip: the keys and type strings written by encode_hint / get_connection_hints are the ones "
               "parse_tcp_v1_hint / parse_hint read, and fields map to the same namedtuple slots. DNS/endpoint behaviour is out of scope.")
TRUSTED_BASE = ["T1", "T2", "T4"]
MIN_OBLIGATIONS = 12

HINTS = "src/wormhole/_hints.py"
TR = "src/wormhole/transit.py"
CTR = "src/wormhole/_dilation/connector.py"
MGR = "src/wormhole/_dilation/manager.py"


def _namedtuples(tree):
    out = {}
    for n in tree.ast(HINTS).body:
        if isinstance(n, ast.Assign) and isinstance(n.value, ast.Call) and dotted(n.value.func) == "namedtuple" and len(n.value.args) == 2 \
                and isinstance(n.targets[0], ast.Name) and isinstance(n.value.args[1], (ast.List, ast.Tuple)):
            out[n.targets[0].id] = [const(e) for e in n.value.args[1].elts]
    if not {"DirectTCPV1Hint", "TorTCPV1Hint", "RelayV1Hint"} <= set(out):
        raise AnalysisError("hint namedtuples not found in _hints.py")
    return out


def _funcs(tree, specs):
    funcs, file_of = {}, {}
    for p, clsname in specs:
        mod = tree.ast(p)
        for n in mod.body:
            if isinstance(n, ast.FunctionDef) and clsname is None:
                funcs[n.name] = n
                file_of[n.name] = p
            if isinstance(n, ast.ClassDef) and n.name == clsname:
                for m in n.body:
                    if isinstance(m, ast.FunctionDef):
                        funcs[m.name] = m
                        file_of[m.name] = p
    return funcs, file_of


def analyse(tree):
    nts = _namedtuples(tree)
    hint_dict = jg.J({"dict"})
    trusted_hint = jg.OBJ("DirectTCPV1Hint", {"hostname": jg.PY("str"), "port": jg.PY("int"), "priority": jg.PY("float")})
    # ---- transit path
    funcs, file_of = _funcs(tree, [(HINTS, None), (TR, "Common")])
    for need in ("add_connection_hints", "_connect", "parse_tcp_v1_hint", "parse_hint", "describe_hint_obj", "endpoint_from_hint_obj"):
        if need not in funcs:
            raise AnalysisError("function %s not found" % need)
    A = jg.Analyzer(funcs, nts, {"_their_direct_hints": jg.CONT("list"),
                                 "_our_relay_hints": jg.CONT("set", jg.OBJ("RelayV1Hint", {"hints": jg.CONT("tuple", trusted_hint)})),
                                 "_tor": jg.OTHER, "_reactor": jg.OTHER, "_listener_d": jg.OTHER}, file_of)
    A.stack.append("add_connection_hints")
    A.inline(funcs["add_connection_hints"], [jg.CONT("list", hint_dict)], {})
    A.stack[:] = ["_connect"]
    A.inline(funcs["_connect"], [], {})
    # ---- dilation path
    funcs2, file_of2 = _funcs(tree, [(HINTS, None), (CTR, "Connector")])
    for need in ("_use_hints", "_schedule_connection"):
        if need not in funcs2:
            raise AnalysisError("Connector.%s not found" % need)
    own_relay = jg.OBJ("RelayV1Hint", {"hints": jg.CONT("tuple", trusted_hint)})
    B = jg.Analyzer(funcs2, nts, {"_tor": jg.OTHER, "_no_listen": jg.PY("bool"), "_reactor": jg.OTHER, "_manager": jg.OTHER,
                                  "_transit_relays": jg.CONT("list", own_relay)}, file_of2)
    B.peer_sequences_may_be_empty = True
    B.stack[:] = ["parse_hint"]
    parsed = B.inline(funcs2["parse_hint"], [hint_dict], {})
    objs = jg.CONT("list", jg.truthy_split(parsed)[0])
    # (the Automat output `use_hints` in front of _use_hints is part of the path when it exists)
    entry = "use_hints" if "use_hints" in funcs2 else "_use_hints"
    B.stack[:] = [entry]
    B.inline(funcs2[entry], [objs], {})
    return A, B, nts


def r1_r2(tree, rep):
    A, B, nts = analyse(tree)
    sinks = A.sinks + [s for s in B.sinks if s["key"] not in {x["key"] for x in A.sinks}]
    rep.check("C20.R1", "type-guard analysis of the transit hint path (add_connection_hints, _connect; %d abstract operations)" % A.ops, True,
              TR, key="C20.R1:summary:transit", evals=A.ops)
    rep.check("C20.R1", "type-guard analysis of the dilation hint path (parse_hint, Connector._use_hints; %d abstract operations)" % B.ops, True,
              CTR, key="C20.R1:summary:dilation", evals=B.ops)
    for s in sinks:
        if s["kind"] == "CONSTRUCT":
            continue
        rep.violation("C20.R1", "C20.R1:%s:%s:%s" % (s["kind"], s["func"], s["detail"]),
                      "peer-supplied hint JSON can make %s raise: %s" % (s["func"], s["detail"]),
                      "%s:%d" % (s["file"], s["lineno"]), detail="reached via " + " > ".join(s["via"]))
    rep.extra["sinks"] = len(sinks)
    rep.sample({"rule": "C20.R1", "source": "list of JSON objects (dict with arbitrary keys/values) in hint position",
                "functions": sorted(set(A.funcs) & {"parse_tcp_v1_hint", "parse_hint", "add_connection_hints", "_connect", "describe_hint_obj", "endpoint_from_hint_obj"})})
    # R2: constructions of hint objects from JSON
    n = 0
    for (cls, fields, node, fn) in A.constructions + B.constructions:
        if cls not in ("DirectTCPV1Hint", "TorTCPV1Hint") or fn != "parse_tcp_v1_hint":
            continue
        n += 1
        def tags_of(v):
            t = set()
            raw = True
            for a in v:
                if a[0] == "json":
                    t |= a[1]
                else:
                    raw = False
                    t.add(a[1] if a[0] == "py" else a[0])
            return t, raw
        ht, hraw = tags_of(fields.get("hostname", frozenset()))
        pt, praw = tags_of(fields.get("port", frozenset()))
        prt, _ = tags_of(fields.get("priority", frozenset()))
        rep.check("C20.R2", "%s is built only with a hostname narrowed to str (types reaching the constructor: %s)" % (cls, sorted(ht)), ht == {"str"} and hraw,
                  "%s:%d" % (HINTS, node.lineno), key="C20.R2:%s:hostname" % cls, what="a %s can be built with a hostname of type %s" % (cls, sorted(ht)))
        rep.check("C20.R2", "%s is built only with the peer's own JSON integer as port (types: %s, unconverted: %s)" % (cls, sorted(pt), praw),
                  pt <= {"int", "bool"} and bool(pt) and praw, "%s:%d" % (HINTS, node.lineno), key="C20.R2:%s:port" % cls,
                  what="a %s can be built with a port that is not a JSON integer (%s%s): non-integer ports would be dialled" % (cls, sorted(pt), "" if praw else ", converted"))
        rep.check("C20.R2", "%s is built only with a numeric priority (types: %s)" % (cls, sorted(prt)), prt <= {"int", "float", "bool"} and bool(prt),
                  "%s:%d" % (HINTS, node.lineno), key="C20.R2:%s:priority" % cls, what="a %s can carry a priority of type %s (it is later hashed and ordered)" % (cls, sorted(prt)))
    if n < 2:
        raise AnalysisError("parse_tcp_v1_hint builds fewer hint objects than expected (%d)" % n)
    pt = tree.func(HINTS, None, "parse_tcp_v1_hint")
    g = build(pt)
    tt = [t for t in g.nodes(lambda s: isinstance(s, ast.If)) if isinstance(g.stmt[t].test, ast.Compare) and isinstance(g.stmt[t].test.ops[0], ast.NotIn)
          and isinstance(g.stmt[t].test.comparators[0], (ast.List, ast.Tuple, ast.Set))]
    ctor = g.call_nodes(lambda c: dotted(c.func) in ("DirectTCPV1Hint", "TorTCPV1Hint"))
    ok = len(tt) == 1 and sorted(const(e) for e in g.stmt[tt[0]].test.comparators[0].elts) == ["direct-tcp-v1", "tor-tcp-v1"] \
        and g.branch_never_reaches(tt[0], 'T', ctor) and bool(ctor)
    rep.check("C20.R2", "parse_tcp_v1_hint builds objects only for the types direct-tcp-v1 / tor-tcp-v1; other types return None", ok, site(pt, HINTS),
              key="C20.R2:supported-types")
    uh = tree.func(MGR, "Manager", "use_hints")
    cs = [c for c in ast.walk(uh) if isinstance(c, ast.Call) and dotted(c.func) == "parse_hint"]
    gh = calls_named(uh, "self._connector.got_hints")
    ok = len(cs) == 1 and len(gh) == 1
    if ok:
        v = expand_flow(uh, gh[0].args[0])
        ok = any(isinstance(x, ast.Call) and dotted(x.func) == "filter" for x in ast.walk(v)) or any(isinstance(x, ast.comprehension) and x.ifs for x in ast.walk(v))
        if not ok and isinstance(gh[0].args[0], ast.Name):
            # a list filled by a loop: every append is guarded by the truthiness (or not-None-ness) of the appended value
            from ..cfg import build as _b, truthy_atom as _ta, none_atom as _na
            gu = _b(uh, split=True)
            lname = gh[0].args[0].id
            apps = [c for c in ast.walk(uh) if isinstance(c, ast.Call) and dotted(c.func) == lname + ".append" and len(c.args) == 1]
            ok = bool(apps)
            for c in apps:
                a = c.args[0]
                node = gu.call_nodes(lambda x, c=c: x is c)
                same = lambda e, a=a: ast.dump(e) == ast.dump(a)
                ok = ok and bool(node) and (not gu.only_when(node, _ta(same), True) or not gu.only_when(node, _na(same), False))
    rep.check("C20.R2", "Manager.use_hints parses every hint and drops the unparseable (None) ones before handing them to the Connector", ok, site(uh, MGR),
              key="C20.R2:Manager.use_hints")
    # ... and decides hint by hint: whether a hint is handed to the Connector depends on that hint alone, not on what earlier messages
    # contained.  The Manager outlives the per-generation Connector; a memory of earlier hints (a "seen" list consulted by the filter)
    # drops the peer's relay - which it repeats unchanged in every generation - from the second generation on
    conds = [i for c in ast.walk(uh) if isinstance(c, ast.comprehension) for i in c.ifs]
    conds += [c.args[0].body for c in ast.walk(uh) if isinstance(c, ast.Call) and dotted(c.func) == "filter" and c.args and isinstance(c.args[0], ast.Lambda)]
    conds += [n.test for n in ast.walk(uh) if isinstance(n, (ast.If, ast.IfExp, ast.While))]
    stateful = [c for c in conds if any(is_self_attr(x) for x in ast.walk(c))]
    MUT = ("append", "extend", "add", "update", "insert", "remove", "discard", "pop", "clear", "setdefault")
    writes = [n for n in ast.walk(uh) if (isinstance(n, (ast.Assign, ast.AugAssign, ast.AnnAssign)) and any(
        is_self_attr(t) or (isinstance(t, ast.Subscript) and is_self_attr(t.value)) for t in (n.targets if isinstance(n, ast.Assign) else [n.target])))
        or (isinstance(n, ast.Call) and isinstance(n.func, ast.Attribute) and n.func.attr in MUT and is_self_attr(n.func.value))]
    rep.check("C20.R2", "Manager.use_hints decides hint by hint: no filter condition reads Manager state (%d condition(s)) and nothing is remembered "
              "from one hint message to the next" % len(conds), not stateful and not writes, site((stateful + writes + [uh])[0], MGR),
              key="C20.R2:Manager.use_hints:stateless",
              what="Manager.use_hints %s: the Manager lives for the whole wormhole while each generation has a new Connector, so a hint the peer "
                   "repeats (its relay, in every generation) is withheld from every Connector after the first - the peer's hints no longer "
                   "become the same dial targets" % ("filters on `%s`" % ast.unparse(stateful[0])[:80] if stateful else
                                                     "keeps state across hint messages (`%s`)" % ast.unparse(writes[0])[:80] if writes else ""))
    ah = tree.func(TR, "Common", "add_connection_hints")
    g = build(ah)
    apps = g.call_nodes(lambda c: dotted(c.func) in ("self._their_direct_hints.append", "relay_hints.append"))
    ok = bool(apps)
    for n_ in apps:
        c = [c for c in ast.walk(g.stmt[n_]) if isinstance(c, ast.Call) and dotted(c.func) in ("self._their_direct_hints.append", "relay_hints.append")][0]
        var = c.args[0].id if isinstance(c.args[0], ast.Name) else None
        tests = [t for t in g.nodes(lambda s: isinstance(s, ast.If)) if isinstance(g.stmt[t].test, ast.Name) and g.stmt[t].test.id == var]
        ok = ok and var is not None and bool(tests) and not g.guarded_by(tests, [n_], 'T')
    rep.check("C20.R2", "add_connection_hints keeps only hints that parsed (truthy result of parse_tcp_v1_hint)", ok, site(ah, TR), key="C20.R2:add_connection_hints:keep-parsed")


def _dict_keys(d):
    return {const(k): v for k, v in zip(d.keys, d.values)}


def r3(tree, rep, nts):
    en = tree.func(HINTS, None, "encode_hint")
    written = {}
    for st in ast.walk(en):
        if isinstance(st, ast.If) and isinstance(st.test, ast.Call) and dotted(st.test.func) == "isinstance":
            cls = dotted(st.test.args[1])
            ds = [d for s in st.body for d in ast.walk(s) if isinstance(d, ast.Dict)]
            written[cls] = ds
    gh = tree.func(TR, "Common", "get_connection_hints")
    ds_t = [d for d in ast.walk(gh) if isinstance(d, ast.Dict) and d.keys]
    pt = tree.func(HINTS, None, "parse_tcp_v1_hint")
    read_tcp = set()
    hp = params(pt, False)[0]
    for n in ast.walk(pt):
        if isinstance(n, ast.Subscript) and isinstance(n.value, ast.Name) and n.value.id == hp and isinstance(const(n.slice), str):
            read_tcp.add(const(n.slice))
        if isinstance(n, ast.Call) and isinstance(n.func, ast.Attribute) and n.func.attr == "get" and isinstance(n.func.value, ast.Name) and n.func.value.id == hp:
            read_tcp.add(const(n.args[0]))
        if isinstance(n, ast.Compare) and isinstance(n.ops[0], ast.In) and isinstance(n.comparators[0], ast.Name) and n.comparators[0].id == hp and isinstance(const(n.left), str):
            read_tcp.add(const(n.left))
    ph = tree.func(HINTS, None, "parse_hint")
    read_relay = set()
    rp = params(ph, False)[0]
    for n in ast.walk(ph):
        if isinstance(n, ast.Subscript) and isinstance(n.value, ast.Name) and n.value.id == rp and isinstance(const(n.slice), str):
            read_relay.add(const(n.slice))
        if isinstance(n, ast.Call) and isinstance(n.func, ast.Attribute) and n.func.attr == "get" and isinstance(n.func.value, ast.Name) and n.func.value.id == rp:
            read_relay.add(const(n.args[0]))
    for cls in ("DirectTCPV1Hint", "TorTCPV1Hint"):
        ds = written.get(cls, [])
        ok = len(ds) == 1
        if ok:
            kv = _dict_keys(ds[0])
            ok = set(kv) == read_tcp
            # field mapping: key -> h.<field> of the same name
            for k, v in kv.items():
                if k == "type":
                    continue
                ok = ok and isinstance(v, ast.Attribute) and v.attr == k and k in nts[cls]
        rep.check("C20.R3", "encode_hint(%s) writes exactly the keys parse_tcp_v1_hint reads (%s), each from the field of the same name" % (cls, sorted(read_tcp)), ok,
                  site(en, HINTS), key="C20.R3:encode:%s" % cls, what="encode_hint(%s) keys %s vs parser keys %s" % (cls, sorted(_dict_keys(ds[0])) if ds else None, sorted(read_tcp)))
    ds = written.get("RelayV1Hint", [])
    outer = [d for d in ds if "hints" in _dict_keys(d)]
    inner = [d for d in ds if "hostname" in _dict_keys(d)]
    ok = len(outer) == 1 and len(inner) == 1 and set(_dict_keys(outer[0])) == read_relay and set(_dict_keys(inner[0])) == read_tcp
    rep.check("C20.R3", "encode_hint(RelayV1Hint) writes {type, hints:[sub-hints with the tcp keys]} exactly as parse_hint reads them", ok, site(en, HINTS), key="C20.R3:encode:RelayV1Hint")
    # type strings
    types_written = {}
    for cls, dl in written.items():
        for d in dl:
            t = const(_dict_keys(d).get("type"))
            if t:
                types_written.setdefault(cls, set()).add(t)
    # decoder: which constructor for which type string
    dec = {}
    from ..cfg import build as _build
    gpt = _build(pt, split=True)
    tvar = [n.targets[0].id for n in ast.walk(pt) if isinstance(n, ast.Assign) and isinstance(n.targets[0], ast.Name) and isinstance(n.value, ast.Call)
            and isinstance(n.value.func, ast.Attribute) and n.value.func.attr == "get" and n.value.args and const(n.value.args[0]) == "type"]
    accepted = set()
    for n in ast.walk(pt):
        if isinstance(n, ast.Compare) and len(n.ops) == 1 and isinstance(n.left, ast.Name) and n.left.id in tvar:
            c0 = n.comparators[0]
            if isinstance(n.ops[0], (ast.In, ast.NotIn)) and isinstance(c0, (ast.List, ast.Tuple, ast.Set)):
                accepted |= {const(e) for e in c0.elts if isinstance(const(e), str)}
            elif isinstance(n.ops[0], (ast.Eq, ast.NotEq)) and isinstance(const(c0), str):
                accepted.add(const(c0))
    for tstr in sorted(accepted):
        def oracle(test, tstr=tstr):
            if isinstance(test, ast.Compare) and len(test.ops) == 1 and isinstance(test.left, ast.Name) and test.left.id in tvar:
                c0 = test.comparators[0]
                if isinstance(test.ops[0], (ast.Eq, ast.NotEq)) and isinstance(const(c0), str):
                    eq = const(c0) == tstr
                    return eq if isinstance(test.ops[0], ast.Eq) else not eq
                if isinstance(test.ops[0], (ast.In, ast.NotIn)) and isinstance(c0, (ast.List, ast.Tuple, ast.Set)):
                    inn = tstr in {const(e) for e in c0.elts}
                    return inn if isinstance(test.ops[0], ast.In) else not inn
            return None
        ctors = set()
        for nodes, end in gpt.paths_under(oracle):
            for x in nodes:
                st = gpt.stmt[x]
                if isinstance(st, ast.Return) and isinstance(st.value, ast.Call) and dotted(st.value.func) in nts:
                    ctors.add(dotted(st.value.func))
        if len(ctors) == 1:
            dec[tstr] = ctors.pop()
    if dec.get("tor-tcp-v1"):
        dec["<other>"] = dec["tor-tcp-v1"]
    ok = dec.get("direct-tcp-v1") == "DirectTCPV1Hint" and dec.get("<other>") == "TorTCPV1Hint" and types_written.get("DirectTCPV1Hint") >= {"direct-tcp-v1"} \
        and types_written.get("TorTCPV1Hint") == {"tor-tcp-v1"} and "relay-v1" in types_written.get("RelayV1Hint", set())
    rep.check("C20.R3", "type strings map to the same hint classes on both sides (%s / %s)" % (dec, {k: sorted(v) for k, v in types_written.items()}), ok,
              site(pt, HINTS), key="C20.R3:type-strings")
    # constructor argument order = namedtuple field order
    for c in [c for c in ast.walk(pt) if isinstance(c, ast.Call) and dotted(c.func) in ("DirectTCPV1Hint", "TorTCPV1Hint")]:
        fields = nts[dotted(c.func)]
        ok = len(c.args) == 3
        for f, a in zip(fields[:2], c.args[:2]):
            if isinstance(a, ast.Name):
                from ..astutil import resolve_local
                a = resolve_local(pt, a)          # hostname = hint["hostname"]
            ok = ok and isinstance(a, ast.Subscript) and const(a.slice) == f
        pr = c.args[2] if len(c.args) == 3 else None
        ok = ok and isinstance(pr, ast.Name) and fields[2] == "priority"
        rep.check("C20.R3", "%s(...) receives hint[hostname], hint[port], priority in its field order" % dotted(c.func), ok, site(c, HINTS), key="C20.R3:ctor-order:%s" % dotted(c.func))
    # transit's own producer writes the same keys
    ok = bool(ds_t)
    for d in ds_t:
        kv = _dict_keys(d)
        if "hostname" in kv:
            ok = ok and set(kv) == read_tcp
        elif "hints" in kv:
            ok = ok and set(kv) == read_relay
    rep.check("C20.R3", "Common.get_connection_hints writes the same key sets", ok, site(gh, TR), key="C20.R3:get_connection_hints")


def r4(tree, rep):
    """a hint that parses but whose endpoint fails at once (an illegal host name) is one failed contender, never the end of the race"""
    from .C07 import race_discipline
    race_discipline(tree, rep, rule="C20.R4")


def r5(tree, rep, tier):
    """a `connection-hints` message is handled in every state it can arrive in: the peer decides when it sends one, so every Manager state
    between the Dilator's gate (versions delivered: the initial state is left) and stop() (Boss closing: nothing is delivered any more)
    declares rx_HINTS, and each such row either ignores the message or hands it to the hint parser; in the two-party product (engine A5)
    no rx_HINTS is undeclared where an honest peer's hints are still in flight"""
    from ..automat_x import Program
    prog = Program(tree)
    M = prog.machine("Manager")
    if "rx_HINTS" not in M.inputs:
        raise AnalysisError("Manager input rx_HINTS not found")
    rows = M.rows_on("rx_HINTS")
    user_outputs = {o for r in rows for o in r.outputs}
    n = 0
    for st, d in M.states.items():
        if st == M.initial or d["terminal"]:
            continue
        n += 1
        r = M.row(st, "rx_HINTS")
        rep.check("C20.R5", "Manager %s declares rx_HINTS (a hints message may arrive there)" % st, r is not None,
                  (r.site if r is not None else site(d["node"], MGR)), key="C20.R5:Manager[%s].rx_HINTS" % st,
                  what="a connection-hints message that arrives while the Manager is %s raises NoTransition out of received_dilation_message "
                       "(the peer chooses when it sends hints; an honest peer's earlier hints may still be in flight)" % st)
        if r is not None:
            rep.check("C20.R5", "Manager %s.rx_HINTS stays in %s" % (st, st), r.enter == st, r.site, key="C20.R5:Manager[%s].rx_HINTS:stays" % st,
                      what="a hints message moves the Manager from %s to %s: the peer can drive the connection state machine with hint messages" % (st, r.enter))
    if n < 3:
        raise AnalysisError("Manager has fewer live states than expected")
    from .. import a5common
    sums = a5common.explorations(tree, tier, rep)
    a5common.fill_extra(rep, sums)
    for envname, s in sums.items():
        bad = [v for v in s.viol if v["kind"] == "NoTransition" and v["detail"].endswith(".rx_HINTS")]
        rep.check("C20.R5", "two-party environment '%s': no hints message in flight meets a Manager state without an rx_HINTS row" % envname, not bad,
                  bad[0]["site"] if bad else None, key="C20.R5:two-party:%s" % envname,
                  what="%s is reachable with an honest peer (trace %s)" % (bad[0]["detail"] if bad else "?", bad[0]["path"] if bad else "?"))


def r6(tree, rep):
    """what this side advertises is its own: get_connection_hints reads no attribute that add_connection_hints (peer input) writes, so a
    peer's relay / direct hints are never re-advertised as ours (and dialled by the peer as plain TCP targets)"""
    TR = "src/wormhole/transit.py"
    add = tree.func(TR, "Common", "add_connection_hints")
    get = tree.func(TR, "Common", "get_connection_hints")
    written = set()
    for n in ast.walk(add):
        if isinstance(n, ast.Call) and isinstance(n.func, ast.Attribute) and is_self_attr(n.func.value) \
                and n.func.attr in ("append", "add", "extend", "update", "insert", "appendleft"):
            written.add(n.func.value.attr)
        elif isinstance(n, (ast.Assign, ast.AugAssign)):
            for t in (n.targets if isinstance(n, ast.Assign) else [n.target]):
                if is_self_attr(t):
                    written.add(t.attr)
                elif isinstance(t, ast.Subscript) and is_self_attr(t.value):
                    written.add(t.value.attr)
    if not written:
        raise AnalysisError("Common.add_connection_hints stores nothing")
    read = set()
    seen = set()

    def reads(fn, depth=3):
        if fn is None or id(fn) in seen or depth == 0:
            return
        seen.add(id(fn))
        for n in ast.walk(fn):
            if is_self_attr(n) and isinstance(n.ctx, ast.Load):
                read.add(n.attr)
            if isinstance(n, ast.Call) and is_self_attr(n.func):
                try:
                    reads(tree.func(TR, "Common", n.func.attr), depth - 1)
                except AnalysisError:
                    pass
    reads(get)
    both = sorted(written & read)
    rep.check("C20.R6", "Common.get_connection_hints reads none of the attributes add_connection_hints fills from peer input (%s)" % sorted(written),
              not both, site(get, TR), key="C20.R6:get_connection_hints:own-hints-only",
              what="get_connection_hints builds the advertised hints from %s, which add_connection_hints fills with the peer's hints: they are "
                   "re-advertised as this side's own relays (the peer dials targets this side never produced)" % both)


def r7(tree, rep):
    """endpoint_from_hint_obj answers None for a hint no endpoint can be built for (with Tor: every private or IPv6 address; an
    unsupported hint class).  Which hints those are is decided by the PEER's data, so every caller has to look at the answer before
    it uses it: on every path from `ep = endpoint_from_hint_obj(..)` (or a wrapper that returns it) to another use of `ep` a test must
    have established that ep is there."""
    from ..cfg import object_atom
    fn0 = tree.func(HINTS, None, "endpoint_from_hint_obj")

    def returns_none(f):
        return any(isinstance(r, ast.Return) and (r.value is None or (isinstance(r.value, ast.Constant) and r.value.value is None))
                   for r in ast.walk(f))
    if not returns_none(fn0):
        rep.check("C20.R7", "endpoint_from_hint_obj always returns an endpoint (no `return None`): nothing to test at its callers", True,
                  site(fn0, HINTS), key="C20.R7:total")
        return
    nullable = {"endpoint_from_hint_obj"}
    funcs = [(p, c, f) for (p, c, f) in tree.all_functions() if not p.startswith("src/wormhole/test/")]

    def callee(c):
        d = dotted(c.func) or ""
        return d.split(".")[-1]
    changed = True
    while changed:                       # wrappers: `return <nullable>(..)`
        changed = False
        for (p, c, f) in funcs:
            if f.name in nullable:
                continue
            if any(isinstance(r, ast.Return) and isinstance(r.value, ast.Call) and callee(r.value) in nullable for r in ast.walk(f)):
                nullable.add(f.name)
                changed = True
    sites = 0
    for (p, cname, f) in funcs:
        calls = [c for c in ast.walk(f) if isinstance(c, ast.Call) and callee(c) in nullable]
        if not calls:
            continue
        g = None
        for c in calls:
            holder = [a for a in ast.walk(f) if isinstance(a, ast.Assign) and a.value is c and len(a.targets) == 1
                      and isinstance(a.targets[0], ast.Name)]
            ret = [r for r in ast.walk(f) if isinstance(r, ast.Return) and r.value is c]
            label = "%s%s" % ((cname + ".") if cname else "", f.name)
            if ret and f.name in nullable:
                continue                  # the wrapper itself: its callers are checked
            sites += 1
            if not holder:
                rep.check("C20.R7", "%s keeps the answer of %s in a local before using it" % (label, callee(c)), False, site(c, p),
                          key="C20.R7:%s:unnamed" % label,
                          what="%s uses the result of %s directly; it is None for a peer hint without a usable endpoint" % (label, callee(c)))
                continue
            v = holder[0].targets[0].id
            g = g or build(f, split=True)
            there = object_atom(lambda e, v=v: isinstance(e, ast.Name) and e.id == v)
            a_node = g.node_of(holder[0])
            uses = []
            for n in g.stmt:
                if n == a_node:
                    continue
                hs = g.head_expr(n)
                if not any(isinstance(x, ast.Name) and x.id == v and isinstance(x.ctx, ast.Load) for e in hs for x in ast.walk(e)):
                    continue
                # the test itself (`if not ep`, `ep is None`) is not a use
                if all(there(e) is not None or (isinstance(e, ast.UnaryOp) and isinstance(e.op, ast.Not) and there(e.operand) is not None)
                       for e in hs):
                    continue
                uses.append(n)
            nxt = [y for (y, lab) in g.succ[a_node] if lab != 'exc']
            avoid = set(g.cond_edges(there, True))
            r = g.reach_feasible(nxt, avoid_edges=avoid)
            bad = [n for n in uses if n in r]
            rep.check("C20.R7", "%s uses `%s = %s(..)` only where a test has shown it is not None (%d use(s))" % (label, v, callee(c), len(uses)),
                      not bad, site(g.stmt[bad[0]][2] if bad and isinstance(g.stmt[bad[0]], tuple) else (g.stmt[bad[0]] if bad else c), p),
                      key="C20.R7:%s:%s:tested-before-use" % (label, v),
                      what="%s: `%s` is None when the peer's hint has no usable endpoint (with Tor: any private or IPv6 address) and is used "
                           "without a test: an AttributeError inside the connection attempt" % (label, v))
    if sites < 2:
        raise AnalysisError("C20.R7: fewer call sites of endpoint_from_hint_obj than the two known (transit and dilation connector): %d" % sites)


def run(tree, rep, tier):
    from .. import round9 as _r9
    _r9.no_hashing_of_peer_values(tree, rep, "C20.R10", (("src/wormhole/_hints.py", None, "parse_tcp_v1_hint"), ("src/wormhole/_hints.py", None, "parse_hint"),
                                     ("src/wormhole/transit.py", "Common", "add_connection_hints"), ("src/wormhole/_dilation/manager.py", "Manager", "use_hints"),
                                     ("src/wormhole/_dilation/connector.py", "Connector", "_use_hints")))
    _r9.only_caller(tree, rep, "C20.R9", "src/wormhole/_dilation/manager.py", "Manager", "self._connector.got_hints", ("use_hints",),
                    "peer hints reach the Connector on a path that does not go through use_hints' parse-and-drop-None step: an unrecognised hint "
                    "(parse_hint gives None) is handed to Connector._use_hints, which raises inside the handler of a peer message")
    from .. import sharedstate
    sharedstate.check(tree, rep, "C20.R0")
    r1_r2(tree, rep)
    r3(tree, rep, _namedtuples(tree))
    r4(tree, rep)
    r5(tree, rep, tier)
    r6(tree, rep)
    r7(tree, rep)
    # a peer-supplied hostname that does not resolve / an address that refuses must lose the race, not win it (the rule instances are C07.R9)
    from .C07 import contenders_stay_failed
    contenders_stay_failed(tree, rep, "C20.R8")


MUTANTS = [
    Mutant("port-any-type", HINTS, "    if not (\"port\" in hint and\n            isinstance(hint[\"port\"], int)):", "    if not (\"port\" in hint):", "C20.R2"),
    Mutant("port-int-conversion", HINTS, "    if not (\"port\" in hint and\n            isinstance(hint[\"port\"], int)):\n        log.msg(f\"invalid port in hint: {hint!r}\")\n        return None\n",
           "    if \"port\" not in hint:\n        return None\n    try:\n        hint[\"port\"] = int(hint[\"port\"])\n    except ValueError:\n        return None\n", ("C20.R1", "C20.R2")),
    Mutant("hostname-unchecked", HINTS, "    if not (\"hostname\" in hint and\n            isinstance(hint[\"hostname\"], str)):\n        log.msg(f\"invalid hostname in hint: {hint!r}\")\n        return None\n", "", ("C20.R1", "C20.R2")),
    Mutant("encode-host-key", HINTS, "        return {\"type\": \"direct-tcp-v1\",\n                \"priority\": h.priority,\n                \"hostname\": h.hostname,", "        return {\"type\": \"direct-tcp-v1\",\n                \"priority\": h.priority,\n                \"host\": h.hostname,", "C20.R3"),
    Mutant("status-after-loop", CTR, "                self._schedule_connection(delay, h, is_relay=True)\n                hint_status.append(DilationHint(f\"{h.hostname}:{h.port}\", False))",
           "                self._schedule_connection(delay, h, is_relay=True)\n            hint_status.append(DilationHint(f\"{h.hostname}:{h.port}\", False))", "C20.R1"),
    Mutant("use-hints-no-filter", MGR, "        hint_objs = filter(lambda h: h,  # ignore None, unrecognizable\n                           [parse_hint(hs) for hs in hint_message[\"hints\"]])", "        hint_objs = [parse_hint(hs) for hs in hint_message[\"hints\"]]", "C20.R2"),
]
REWRITES = []

MUTANTS.append(Mutant("lonely-hints-row-misplaced", MGR, "    LONELY.upon(rx_HINTS, enter=LONELY, outputs=[])  # stale, ignore", "    STOPPED.upon(rx_HINTS, enter=STOPPED, outputs=[])  # stale, ignore", "C20.R5"))
MUTANTS.append(Mutant("advertise-collected-relays", TR, "        for relay in self._transit_relays:\n            rhint = {\"type\": \"relay-v1\", \"hints\": []}", "        for relay in self._our_relay_hints:\n            rhint = {\"type\": \"relay-v1\", \"hints\": []}", "C20.R6"))
MUTANTS.append(Mutant("connector-dials-none-endpoint", CTR, "        if ep is None:\n            # no endpoint can reach this hint (e.g. Tor and a private address)\n            return\n", "", "C20.R7",
                      "the dilation connector uses the endpoint without testing it (finding F14)"))
MUTANTS.append(Mutant("transit-dials-none-endpoint", TR, "            ep = endpoint_from_hint_obj(hint_obj, self._tor, self._reactor)\n            if not ep:\n                continue\n            d = self._start_connector(ep,", "            ep = endpoint_from_hint_obj(hint_obj, self._tor, self._reactor)\n            d = self._start_connector(ep,", "C20.R7"))
REWRITES.append(Rewrite("connector-none-endpoint-guard-inverted", CTR, "        if ep is None:\n            # no endpoint can reach this hint (e.g. Tor and a private address)\n            return\n        desc = describe_hint_obj(h, is_relay, self._tor)",
                        "        if not ep:\n            return None\n        desc = describe_hint_obj(h, is_relay, self._tor)", desc="truthiness spelling of the endpoint test"))

MUTANTS.append(Mutant("early-hints-replayed-unfiltered", "src/wormhole/_dilation/manager.py", "        self._connector.start()\n", "        self._connector.start()\n        self._connector.got_hints([parse_hint(hs) for hs in getattr(self, \"_early\", [])])\n", "C20.R9", "seed C20-18"))

MUTANTS.append(Mutant("hint-type-in-frozenset", "src/wormhole/_hints.py", "    if hint_type not in [\"direct-tcp-v1\", \"tor-tcp-v1\"]:", "    if hint_type not in {\"direct-tcp-v1\", \"tor-tcp-v1\"}:", ("C20.R10", "C20.R"), "seeds C11-21 / C20-21"))
