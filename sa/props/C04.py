"""C04 — a completed transfer is byte-exact; success is never reported otherwise."""
import ast

from ..srcmodel import AnalysisError, site
from ..astutil import (dotted, const, params, local_defs, is_self_attr, calls_named, same_expr, strip_yield, walk_shallow,
                       resolve_local, parent)
from ..dataflow import expand, call_arg
from ..cfg import build
from ..selftest import Mutant, Rewrite

EXPLANATION = ("(R1) Receiver._transfer_data returns normally only past a `received < xfersize` test whose true edge raises, and asks "
               "the pipe for exactly xfersize bytes. (R2) in _parse_offer the data transfer precedes writing the destination which "
               "precedes the acknowledgement; the payload is staged in <dest>.tmp (truncating open) and renamed only in _write_file "
               "after close. (R3) the digest acknowledged is the digest of the hasher fed by the transfer. (R4) the sender reports "
               "completion only past ack == ok and, when the ack carries sha256, equality with the hash of what it sent; the hashing "
               "transform returns each chunk unchanged. (R5) the consumer Deferred fires only at written >= expected and fails on "
               "connection loss. zipfile/tqdm/FileSender behaviour is trusted.")
TRUSTED_BASE = ["T1", "T2", "T4"]
MIN_OBLIGATIONS = 25

RX = "src/wormhole/cli/cmd_receive.py"
TX = "src/wormhole/cli/cmd_send.py"


def _assign_of_call(fn, attr_name):
    """(Assign node, call) for `x = [yield] <obj>.<attr_name>(...)`"""
    out = []
    for n in walk_shallow(fn):
        if isinstance(n, ast.Assign) and len(n.targets) == 1 and isinstance(n.targets[0], ast.Name):
            v = strip_yield(n.value)
            if isinstance(v, ast.Call) and isinstance(v.func, ast.Attribute) and v.func.attr == attr_name:
                out.append((n, v))
    return out


def r1_r3(tree, rep):
    fn = tree.func(RX, "Receiver", "_transfer_data")
    g = build(fn, split=True)
    wt = _assign_of_call(fn, "writeToFile")
    ok = len(wt) == 1
    rep.check("C04.R1", "_transfer_data receives through exactly one writeToFile call whose result is kept", ok, site(fn, RX),
              key="C04.R1:writeToFile-site")
    if not ok:
        return
    asg, call = wt[0]
    var = asg.targets[0].id
    exp = call_arg(call, 1, "expected")
    rep.check("C04.R1", "writeToFile is asked for exactly self.xfersize bytes", exp is not None and is_self_attr(exp, "xfersize"), site(call, RX),
              key="C04.R1:expected-size", what="the receiver no longer waits for the announced number of bytes")
    rep.check("C04.R1", "the writeToFile Deferred is awaited (yield)", isinstance(asg.value, (ast.Yield, ast.Await)), site(call, RX),
              key="C04.R1:awaited")
    from ..cfg import cmp_atom
    is_var = lambda e: isinstance(e, ast.Name) and e.id == var
    is_size = lambda e: is_self_attr(e, "xfersize")
    a1 = cmp_atom(is_var, is_size, (ast.Lt,), (ast.GtE,))
    a2 = cmp_atom(is_var, is_size, (ast.NotEq,), (ast.Eq,))
    short = lambda e: a1(e) or a2(e)        # "fewer bytes than announced"
    ok = g.when_always_raises(short, True) and not g.only_when([g.exit], short, False) and len(local_defs(fn, var)) == 1
    rep.check("C04.R1", "_transfer_data returns normally only when received >= xfersize (the short-transfer edge raises)", ok, site(fn, RX),
              key="C04.R1:short-transfer-raises", what="a truncated transfer can be reported as complete (the temporary file would become the destination)")
    # R3 digest
    hashers = [n for n in walk_shallow(fn) if isinstance(n, ast.Assign) and isinstance(n.value, ast.Call)
               and (dotted(n.value.func) or "").endswith("sha256") and not n.value.args]
    ok = len(hashers) == 1
    if ok:
        hv = hashers[0].targets[0].id
        ha = call_arg(call, 3, "hasher")
        ok = ha is not None and dotted(ha) == hv + ".update" and len(local_defs(fn, hv)) == 1
        rets = [r for r in walk_shallow(fn) if isinstance(r, ast.Return)]
        ok = ok and len(rets) == 1
        if ok:
            rv = expand(fn, rets[0].value, stop={hv})
            ok = isinstance(rv, ast.Call) and dotted(rv.func) == hv + ".digest" and not rv.args
        f_arg = call_arg(call, 0, "f")
        ok = ok and isinstance(f_arg, ast.Name) and f_arg.id in params(fn)
    rep.check("C04.R3", "_transfer_data returns the digest of the one SHA-256 hasher that writeToFile feeds, writing to the file it was given",
              ok, site(fn, RX), key="C04.R3:digest-source", what="the acknowledged hash is not the hash of the bytes received")
    ct = tree.func(RX, "Receiver", "_close_transit")
    sends = [c for c in ast.walk(ct) if isinstance(c, ast.Call) and isinstance(c.func, ast.Attribute) and c.func.attr == "send_record"]
    ok = len(sends) == 1
    if ok:
        v = expand(ct, sends[0].args[0])
        d = None
        for n in ast.walk(v):
            if isinstance(n, ast.Dict):
                d = n
        ok = d is not None
        if ok:
            kv = {const(k): val for k, val in zip(d.keys, d.values)}
            sha = kv.get("sha256")
            ok = const(kv.get("ack")) == "ok" and isinstance(sha, ast.Call) and dotted(sha.func) == "bytes_to_hexstr" \
                and isinstance(sha.args[0], ast.Name) and sha.args[0].id in params(ct) and not local_defs(ct, sha.args[0].id)
    rep.check("C04.R3", "_close_transit acknowledges {ack: ok, sha256: hex(<the digest it was given>)}", ok, site(ct, RX), key="C04.R3:ack-content")


def r2(tree, rep):
    fn = tree.func(RX, "Receiver", "_parse_offer")
    g = build(fn)
    td = g.call_nodes(lambda c: dotted(c.func) == "self._transfer_data")
    wf = g.call_nodes(lambda c: dotted(c.func) == "self._write_file")
    wd = g.call_nodes(lambda c: dotted(c.func) == "self._write_directory")
    ct = g.call_nodes(lambda c: dotted(c.func) == "self._close_transit")
    ok = 1 <= len(td) <= 2 and len(wf) == 1 and len(wd) == 1 and 1 <= len(ct) <= 2
    rep.check("C04.R2", "_parse_offer: file and directory branches each transfer, write, acknowledge", ok, site(fn, RX), key="C04.R2:shape")
    if ok:
        rep.check("C04.R2", "the destination is written only after the data transfer returned", not g.precedes(td, wf + wd), site(fn, RX),
                  key="C04.R2:transfer-before-write", what="the destination file/directory can be produced before all bytes were received")
        rep.check("C04.R2", "the acknowledgement is sent only after the destination was written", not g.precedes(wf + wd, ct), site(fn, RX),
                  key="C04.R2:write-before-ack", what="the receiver can acknowledge (and the sender report success) before the destination exists")
        for n in td + ct:
            for c in [c for e in g.head_expr(n) for c in ast.walk(e) if isinstance(c, ast.Call) and dotted(c.func) in ("self._transfer_data", "self._close_transit")]:
                rep.check("C04.R2", "%s is awaited (yield): its failure fails the receive" % dotted(c.func), isinstance(parent(c), (ast.Yield, ast.Await)),
                          site(c, RX), key="C04.R2:awaited:%s:%d" % (dotted(c.func), (td + ct).index(n)))
        # same file object: handle -> transfer -> write
        pairs = (("self._handle_file", "self._write_file", wd), ("self._handle_directory", "self._write_directory", wf))
        for handler, writer, other_writer_nodes in pairs:
            hdefs = [n for n in g.nodes(lambda s: isinstance(s, ast.Assign) and isinstance(s.value, ast.Call)
                                        and dotted(s.value.func) == handler and isinstance(s.targets[0], ast.Name))]
            hv = [g.stmt[n].targets[0].id for n in hdefs]
            wcalls = [c for c in ast.walk(fn) if isinstance(c, ast.Call) and dotted(c.func) == writer]
            okf = len(hv) == 1 and len(wcalls) == 1 and isinstance(wcalls[0].args[0], ast.Name) and wcalls[0].args[0].id == hv[0]
            # what this handler opened never reaches the other kind's writer (paths contradicting a local flag are infeasible)
            okf = okf and not (g.reach_feasible_via(hdefs) & set(other_writer_nodes))
            tcalls = [c for c in ast.walk(fn) if isinstance(c, ast.Call) and dotted(c.func) == "self._transfer_data"
                      and len(c.args) == 2 and isinstance(c.args[1], ast.Name) and c.args[1].id == (hv[0] if hv else None)]
            rep.check("C04.R2", "%s's file object is what _transfer_data fills and %s consumes" % (handler, writer), okf and len(tcalls) >= 1,
                      site(fn, RX), key="C04.R2:same-file:%s" % writer)
        # datahash: result of _transfer_data goes to _close_transit
        for c in [c for c in ast.walk(fn) if isinstance(c, ast.Call) and dotted(c.func) == "self._close_transit"]:
            a = c.args[1] if len(c.args) > 1 else None
            okd = isinstance(a, ast.Name) and all(isinstance(strip_yield(d), ast.Call) and dotted(strip_yield(d).func) == "self._transfer_data"
                                                  for d in local_defs(fn, a.id) if isinstance(d, ast.AST)) and bool(local_defs(fn, a.id))
            rep.check("C04.R2", "_close_transit receives the digest that _transfer_data returned", okd, site(c, RX), key="C04.R2:digest-plumbing:%d" % c.lineno)
    # staging file
    hf = tree.func(RX, "Receiver", "_handle_file")
    rets = [r for r in walk_shallow(hf) if isinstance(r, ast.Return)]
    ok = len(rets) == 1
    if ok:
        v = expand(hf, rets[0].value)
        ok = isinstance(v, ast.Call) and dotted(v.func) == "open" and len(v.args) == 2 and not v.keywords \
            and isinstance(const(v.args[1]), str) and set(const(v.args[1])) == set("wb")
        if ok:
            p = v.args[0]
            ok = isinstance(p, ast.BinOp) and isinstance(p.op, ast.Add) and is_self_attr(p.left, "abs_destname") \
                and isinstance(const(p.right), str) and const(p.right).startswith(".") and len(const(p.right)) > 1
    rep.check("C04.R2", "_handle_file stages the payload in open(self.abs_destname + \".tmp\", \"wb\") (truncating, builtin open)", ok,
              site(hf, RX), key="C04.R2:staging-file", what="the incoming data is not written to a freshly truncated <destination>.tmp")
    mod = tree.ast(RX)
    ren = [c for c in ast.walk(mod) if isinstance(c, ast.Call) and dotted(c.func) in ("os.rename", "os.replace", "shutil.move", "os.link", "shutil.copy",
                                                                                       "shutil.copyfile", "shutil.copy2")]
    from ..astutil import enclosing_function
    for c in ren:
        f = enclosing_function(c)
        rep.check("C04.R2", "the only rename in cmd_receive is in Receiver._write_file (here %s)" % (f.name if f else "?"),
                  f is not None and f.name == "_write_file", site(c, RX), key="C04.R2:rename-site:%s" % (f.name if f else "?"))
    wfn = tree.func(RX, "Receiver", "_write_file")
    g = build(wfn)
    cl = g.call_nodes(lambda c: isinstance(c.func, ast.Attribute) and c.func.attr == "close" and isinstance(c.func.value, ast.Name)
                      and c.func.value.id in params(wfn))
    rn = g.call_nodes(lambda c: dotted(c.func) in ("os.rename", "os.replace"))
    ok = len(cl) == 1 and len(rn) == 1 and not g.precedes(cl, rn)
    if ok:
        c = [c for c in ast.walk(g.stmt[rn[0]]) if isinstance(c, ast.Call) and dotted(c.func) in ("os.rename", "os.replace")][0]
        src = expand(wfn, c.args[0])
        ok = is_self_attr(c.args[1], "abs_destname") and isinstance(src, ast.Attribute) and src.attr == "name" \
            and isinstance(src.value, ast.Name) and src.value.id in params(wfn)
    rep.check("C04.R2", "_write_file closes the staging file, then renames it onto self.abs_destname", ok, site(wfn, RX), key="C04.R2:_write_file")


def r4(tree, rep):
    fn = tree.func(TX, "Sender", "_send_file")
    g = build(fn, split=True)
    acks = _assign_of_call(fn, "receive_record")
    ok = len(acks) == 1 and isinstance(acks[0][0].value, (ast.Yield, ast.Await))
    rep.check("C04.R4", "_send_file awaits exactly one receive_record() for the acknowledgement", ok, site(fn, TX), key="C04.R4:ack-source")
    if not ok:
        return
    ackb = acks[0][0].targets[0].id
    dicts = [n for n in walk_shallow(fn) if isinstance(n, ast.Assign) and isinstance(n.value, ast.Call) and dotted(n.value.func) == "bytes_to_dict"
             and isinstance(n.value.args[0], ast.Name) and n.value.args[0].id == ackb]
    ok = len(dicts) == 1
    ackv = dicts[0].targets[0].id if ok else None
    def is_ack_get(e, key):
        e = expand(fn, e, stop={ackv})
        return isinstance(e, ast.Call) and isinstance(e.func, ast.Attribute) and e.func.attr == "get" and isinstance(e.func.value, ast.Name) \
            and e.func.value.id == ackv and const(e.args[0]) == key
    def is_ack_sub(e, key):
        return isinstance(e, ast.Subscript) and isinstance(e.value, ast.Name) and e.value.id == ackv and const(e.slice) == key
    from ..cfg import cmp_atom, in_atom
    ack_ok = cmp_atom(lambda e: is_ack_get(e, "ack") or is_ack_sub(e, "ack"), lambda e: const(e) == "ok")
    ok = ok and g.when_always_raises(ack_ok, False) and not g.only_when([g.exit], ack_ok, True)
    rep.check("C04.R4", "the sender finishes normally only if the acknowledgement says ack == \"ok\"", ok, site(fn, TX), key="C04.R4:ack-ok",
              what="the sender can report success without a positive acknowledgement")
    # hash comparison
    hashers = [n for n in walk_shallow(fn) if isinstance(n, ast.Assign) and isinstance(n.value, ast.Call)
               and (dotted(n.value.func) or "").endswith("sha256") and not n.value.args]
    okh = len(hashers) == 1
    hv = hashers[0].targets[0].id if okh else None
    def is_expected_hex(e):
        e = expand(fn, e, stop={hv})
        return isinstance(e, ast.Call) and dotted(e.func) == "bytes_to_hexstr" and isinstance(e.args[0], ast.Call) \
            and dotted(e.args[0].func) == "%s.digest" % hv
    has_sha = in_atom(lambda e: const(e) == "sha256", lambda e: isinstance(e, ast.Name) and e.id == ackv)
    sha_equal = cmp_atom(lambda e: is_ack_sub(e, "sha256") or is_ack_get(e, "sha256"), is_expected_hex)
    # a digest that differs fails the send; with a sha256 in the acknowledgement the comparison cannot be bypassed:
    # the normal exit is reached only over "no sha256 in the ack" or "the digests are equal"
    avoid = set(g.cond_edges(has_sha, False)) | set(g.cond_edges(sha_equal, True))
    ok = okh and g.when_always_raises(sha_equal, False) and bool(g.cond_edges(has_sha, True)) \
        and g.exit not in g.reach(g.entry, avoid_edges=avoid, explicit_only=True)
    rep.check("C04.R4", "when the acknowledgement carries sha256 it must equal the hex digest of what was sent, else the sender fails", ok,
              site(fn, TX), key="C04.R4:hash-compare", what="a receiver-side hash mismatch no longer fails the send")
    # the transform
    tf = [n for n in fn.body if isinstance(n, ast.FunctionDef)]
    bt = [c for c in ast.walk(fn) if isinstance(c, ast.Call) and isinstance(c.func, ast.Attribute) and c.func.attr == "beginFileTransfer"]
    ok = len(bt) == 1 and okh
    if ok:
        from ..astutil import callback_function
        tr = call_arg(bt[0], None, "transform")
        cbf = callback_function(tr, fn, tree.methods(TX, "Sender")) if tr is not None else None
        ok = isinstance(cbf, (ast.FunctionDef, ast.Lambda))
        if ok and isinstance(cbf, ast.FunctionDef):
            # a closure of _send_file (sees the hasher directly) or a method / function given the hasher through partial(..)
            p = params(cbf, skip_self=True) if cbf not in tf else params(cbf, skip_self=False)
            bound = list(tr.args[1:]) if isinstance(tr, ast.Call) else []
            hname = hv
            got_hasher = cbf in tf
            for prm, val in zip(p, bound):
                if isinstance(val, ast.Name) and val.id == hv:
                    hname = prm
                    got_hasher = True
            free = p[len(bound):]
            ups = [c for c in ast.walk(cbf) if isinstance(c, ast.Call) and dotted(c.func) == "%s.update" % hname]
            rets = [r for r in ast.walk(cbf) if isinstance(r, ast.Return)]
            ok = len(free) == 1 and len(ups) == 1 and isinstance(ups[0].args[0], ast.Name) and ups[0].args[0].id == free[0] \
                and len(rets) == 1 and isinstance(rets[0].value, ast.Name) and rets[0].value.id == free[0] and not local_defs(cbf, free[0]) \
                and not local_defs(cbf, hname) and got_hasher \
                and not any(isinstance(x, (ast.If, ast.Try, ast.While, ast.For)) for x in ast.walk(cbf))
        elif ok:
            ok = False          # a lambda cannot both hash and return the chunk
        src = call_arg(bt[0], 0, "file")
        dst = call_arg(bt[0], 1, "consumer")
        ok = ok and is_self_attr(src, "_fd_to_send") and isinstance(dst, ast.Name) and isinstance(parent(bt[0]), (ast.Yield, ast.Await))
    rep.check("C04.R4", "the file is sent through a transform that hashes every chunk and returns it unchanged; the transfer is awaited", ok,
              site(fn, TX), key="C04.R4:transform", what="bytes on the wire / the sender's hash no longer correspond to the bytes read")
    ha = tree.func(TX, "Sender", "_handle_answer")
    g2 = build(ha)
    sf = g2.call_nodes(lambda c: dotted(c.func) == "self._send_file")
    ft = [n for n in g2.nodes(lambda s: isinstance(s, ast.If)) if any(const(x) == "file_ack" for x in ast.walk(g2.stmt[n].test))]
    ok = len(sf) == 1 and len(ft) == 1 and g2.branch_always_raises(ft[0], 'T') and not g2.guarded_by(ft, sf, 'F')
    rep.check("C04.R4", "the file is sent only after the receiver's file_ack == ok", ok, site(ha, TX), key="C04.R4:file_ack")


def r5(tree, rep):
    from .C06 import r5 as c06_r5, r6 as c06_r6
    for fnc, src in ((c06_r5, "C06.R5"), (c06_r6, "C06.R6")):
        sub = type(rep)(rep.pid, rep.tier, rep.seed)
        fnc(tree, sub)
        for o in sub.obligations:
            if "consumer" in o["instance"].lower() or "_writeToConsumer" in o["instance"]:
                rep.obligations.append(dict(o, rule="C04.R5"))
                rep.evaluations += 1
        for v in sub.violations:
            if "consumer" in v["key"].lower() or "_writeToConsumer" in v["key"]:
                rep.violation("C04.R5", v["key"].replace(src, "C04.R5"), v["what"], v.get("site"), v.get("detail"), _count=False)
    ht = tree.func(RX, "Receiver", "_handle_text")
    pr = [c for c in ast.walk(ht) if isinstance(c, ast.Call) and dotted(c.func) == "print"]
    ok = len(pr) == 1
    if ok:
        a = pr[0].args[0]
        base = a.value if isinstance(a, ast.Subscript) else a
        ok = isinstance(base, ast.Call) and dotted(base.func) == "repr" and isinstance(base.args[0], ast.Subscript) and const(base.args[0].slice) == "message"
    rep.check("C04.R5", "a text message is printed only through repr() (terminal-safe escaping of exactly the received string)", ok, site(ht, RX),
              key="C04.R5:text-repr")


def r6(tree, rep):
    """(a) a transit record that is replayed, dropped or reordered ends the transfer (the receiver's byte count and hash would
    otherwise be reached with the wrong bytes); (b) nothing is created on disk before the offer is accepted: the staging file
    is opened only after the free-space check and the permission prompt returned"""
    from .C06 import nonce_guard
    nonce_guard(tree, rep, rule="C04.R6")
    hf = tree.func(RX, "Receiver", "_handle_file")
    g = build(hf)
    opens = g.call_nodes(lambda c: dotted(c.func) == "open")
    ask = g.call_nodes(lambda c: dotted(c.func) == "self._ask_permission")
    free = g.call_nodes(lambda c: dotted(c.func) == "estimate_free_space")
    ok = len(opens) == 1 and len(ask) == 1 and not g.precedes(ask, opens) and (not free or not g.precedes(free, opens))
    rep.check("C04.R6", "_handle_file opens the staging file only after the free-space check and _ask_permission() returned", ok, site(hf, RX),
              key="C04.R6:_handle_file:open-after-permission",
              what="a refused offer (answer 'n', too little space) already created / truncated <destination>.tmp")


def r7(tree, rep):
    """the sender's directory offer: the tree is walked completely - empty directories included - and every walked path is added
    under its path relative to the directory sent, itself only (no second recursion)"""
    bo = tree.func(TX, "Sender", "_build_offer")
    walks = [n for n in ast.walk(bo) if isinstance(n, ast.For) and isinstance(n.iter, ast.Call) and (dotted(n.iter.func) or "").split(".")[-1] == "walk"]
    if len(walks) != 1:
        raise AnalysisError("Sender._build_offer: cannot find the directory walk (for .. in walk(..))")
    lp = walks[0]
    w = lp.iter
    pe = call_arg(w, kw="preserve_empty")
    rep.check("C04.R7", "the directory walk keeps empty directories (walk(.., preserve_empty=True))", pe is not None and const(pe) is True, site(w, TX),
              key="C04.R7:walk:preserve-empty",
              what="empty directories are left out of the zip stream: both sides report success on a receiver tree that is not what the sender read")
    root = w.args[0] if w.args else None
    adds = [c for b in lp.body for c in ast.walk(b) if isinstance(c, ast.Call) and isinstance(c.func, ast.Attribute) and c.func.attr == "add_path"]
    ok = len(adds) == 1 and isinstance(lp.target, ast.Name)
    if ok:
        a = adds[0]
        arc = call_arg(a, 1, "arcname")
        rec = call_arg(a, kw="recurse")
        ok = bool(a.args) and isinstance(a.args[0], ast.Name) and a.args[0].id == lp.target.id \
            and isinstance(arc, ast.Call) and dotted(arc.func) == "os.path.relpath" and len(arc.args) == 2 \
            and isinstance(arc.args[0], ast.Name) and arc.args[0].id == lp.target.id and root is not None and same_expr(arc.args[1], root) \
            and rec is not None and const(rec) is False
    rep.check("C04.R7", "every walked path is added once, under its path relative to the directory sent (add_path(p, arcname=relpath(p, root), recurse=False))",
              ok, site(lp, TX), key="C04.R7:walk:add_path",
              what="the zip stream does not contain each walked path exactly once under its relative name")


def r10_r11(tree, rep):
    """R10: FileConsumer.write puts the data into the file BEFORE it runs any callback.  The progress callback is application code and
    may re-enter the connection (pause/resume flushes buffered records synchronously): whatever it does, the file then holds the
    records in arrival order, and a hash that saw them in another order makes the transfer FAIL - never succeed with a permuted file.
    R11: the JSON codec of the control messages (offer, answer, text message) is plain json + UTF-8: no Unicode normalisation, which
    would silently rewrite a text message or a file name that is not in NFC."""
    from ..cfg import build
    TRANSIT = "src/wormhole/transit.py"
    fn = tree.func(TRANSIT, "FileConsumer", "write")
    g = build(fn)
    p0 = params(fn)[0] if params(fn) else None
    fw = g.call_nodes(lambda c: isinstance(c.func, ast.Attribute) and c.func.attr == "write" and is_self_attr(c.func.value)
                      and len(c.args) == 1 and isinstance(c.args[0], ast.Name) and c.args[0].id == p0)
    others = [n for n in g.call_nodes(lambda c: True) if n not in fw
              and not all(isinstance(c.func, ast.Name) and c.func.id in ("len", "isinstance") for c in ast.walk(g.stmt[n] if isinstance(g.stmt[n], ast.AST) else g.stmt[n][1])
                          if isinstance(c, ast.Call))]
    ok = len(fw) == 1 and g.must_pass(fw) and not g.precedes(fw, others)
    rep.check("C04.R10", "FileConsumer.write hands the data to the file first, unmodified, before any callback (progress, hasher) runs", ok,
              site(fn, TRANSIT), key="C04.R10:FileConsumer.write:file-first",
              what="FileConsumer.write runs a callback before the data is in the file: a progress callback that re-enters the connection "
                   "(pauseProducing / resumeProducing flushing the next record) gets that record written first - the file is permuted while "
                   "the hash, taken in arrival order, still matches the sender's: both sides report success for a wrong file")
    UTIL = "src/wormhole/util.py"
    for name in ("dict_to_bytes", "bytes_to_dict"):
        f = tree.func(UTIL, None, name)
        calls = [dotted(c.func) or "" for c in ast.walk(f) if isinstance(c, ast.Call)]
        bad = [c for c in calls if c.split(".")[-1] in ("to_bytes", "normalize", "casefold", "lower", "upper", "strip")]
        js = [c for c in calls if c in ("json.dumps", "json.loads")]
        rep.check("C04.R11", "%s is plain JSON + UTF-8 (calls: %s): no normalisation or other rewriting of the text it carries" % (name, sorted(set(calls))),
                  not bad and len(js) == 1, site(f, UTIL), key="C04.R11:%s:plain-json" % name,
                  what="%s passes the JSON text through %s: a text message (or an offered file name) that is not already in that form is "
                       "silently changed in transit while both sides report success" % (name, bad))


def run(tree, rep, tier):
    from .. import round9 as _r9
    _r9.chain_keeps_failure(tree, rep, "C04.R12", "src/wormhole/cli/cmd_receive.py", "Receiver", "go", "self._go")
    _r9.chain_keeps_failure(tree, rep, "C04.R12", "src/wormhole/cli/cmd_send.py", "Sender", "go", "self._go")
    _r9.every_member_extracted(tree, rep, "C04.R13")
    # a failure while unpacking one member (disk full, refused write) is a failed transfer: no handler in _extract_file / _write_directory turns
    # an exception of zf.extract / os.chmod / open / os.rename into a normal return
    from ..ctxmgr import swallowing_handlers
    for fname_ in ("_extract_file", "_write_directory", "_write_file", "_transfer_data"):
        fn_ = tree.func(RX, "Receiver", fname_)
        bad_ = swallowing_handlers(fn_, lambda c: isinstance(c.func, ast.Attribute) and c.func.attr in ("extract", "extractall", "chmod", "rename", "write", "open", "makedirs")
                                   or (isinstance(c.func, ast.Name) and c.func.id == "open"))
        rep.check("C04.R9", "Receiver.%s: no except-clause swallows a failure of writing / extracting / renaming" % fname_, not bad_,
                  site(bad_[0][0] if bad_ else fn_, RX), key="C04.R9:%s:no-swallow" % fname_,
                  what="Receiver.%s catches %s around %s and carries on: a member that could not be written is reported as a successful transfer" % (
                      fname_, ast.unparse(bad_[0][0].type) if bad_ and bad_[0][0].type is not None else "everything",
                      ast.unparse(bad_[0][1].func) if bad_ else "?"))
    from .. import ctxmgr
    ctxmgr.check_with_blocks(tree, rep, "C04.R8", ["src/wormhole/cli/cmd_send.py", "src/wormhole/cli/cmd_receive.py", "src/wormhole/transit.py"])
    r7(tree, rep)
    r1_r3(tree, rep)
    r2(tree, rep)
    r4(tree, rep)
    r5(tree, rep)
    r6(tree, rep)
    r10_r11(tree, rep)


TR = "src/wormhole/transit.py"
MUTANTS = [
    Mutant("no-short-check", RX, "        if received < self.xfersize:\n            self._msg()\n            self._msg(\"Connection dropped before full file received\")\n            self._msg(\"got %d bytes, wanted %d\" % (received, self.xfersize))\n            raise TransferError(\"Connection dropped before full file received\")\n        assert received == self.xfersize\n", "", "C04.R1"),
    Mutant("short-check-vs-zero", RX, "        if received < self.xfersize:\n            self._msg()", "        if received < 0:\n            self._msg()", "C04.R1"),
    Mutant("expected-none", RX, "                    f, self.xfersize, progress.update, hasher.update)", "                    f, None, progress.update, hasher.update)", "C04.R1"),
    Mutant("write-before-transfer", RX, "            datahash = yield self._transfer_data(rp, f)\n            self._write_file(f)\n", "            self._write_file(f)\n            datahash = yield self._transfer_data(rp, f)\n", "C04.R2"),
    Mutant("open-dest-directly", RX, "        tmp_destname = self.abs_destname + \".tmp\"\n        return open(tmp_destname, \"wb\")", "        return open(self.abs_destname, \"wb\")", "C04.R2"),
    Mutant("open-no-trunc", RX, "        return open(tmp_destname, \"wb\")", "        return open(tmp_destname, \"wb\", opener=lambda p, fl: os.open(p, os.O_WRONLY | os.O_CREAT))", "C04.R2"),
    Mutant("ack-fresh-hash", RX, "            datahash = hasher.digest()\n", "            datahash = hashlib.sha256().digest()\n", "C04.R3"),
    Mutant("sender-skips-hash", TX, "            if \"sha256\" in ack:\n                if ack[\"sha256\"] != expected_hex:\n                    t.detail(datahash=\"failed\")\n                    raise TransferError(\"Transfer failed (bad remote hash)\")\n", "", "C04.R4"),
    Mutant("sender-ignores-ack", TX, "            if ok != \"ok\":\n                t.detail(ack=\"failed\")\n                raise TransferError(f\"Transfer failed (remote says: {ack!r})\")\n", "", "C04.R4"),
    Mutant("transform-truncates", TX, "            progress.update(len(data))\n            return data", "            progress.update(len(data))\n            return data[:-1]", "C04.R4"),
    Mutant("consumer-fires-on-loss", TR, "        if self._consumer_deferred:\n            self._consumer_deferred.errback(error.ConnectionClosed())", "        if self._consumer_deferred:\n            self._consumer_deferred.callback(self._consumer_bytes_written)", "C04.R5"),
    Mutant("size-check-by-exception", RX, "                received = yield record_pipe.writeToFile(\n                    f, self.xfersize, progress.update, hasher.update)",
           "                try:\n                    received = yield record_pipe.writeToFile(\n                        f, self.xfersize, progress.update, hasher.update)\n                except Exception:\n                    raise TransferError(\"dropped\")", "C04.R1",
           also=((RX, "        if received < self.xfersize:\n            self._msg()\n            self._msg(\"Connection dropped before full file received\")\n            self._msg(\"got %d bytes, wanted %d\" % (received, self.xfersize))\n            raise TransferError(\"Connection dropped before full file received\")\n        assert received == self.xfersize\n", ""),)),
]
REWRITES = [
    Rewrite("short-check-ne", RX, "        if received < self.xfersize:\n            self._msg()", "        if received != self.xfersize:\n            self._msg()", desc="!= instead of <"),
    Rewrite("tmp-inline", RX, "        tmp_destname = self.abs_destname + \".tmp\"\n        return open(tmp_destname, \"wb\")", "        return open(self.abs_destname + \".tmp\", \"wb\")", desc="local inlined"),
]

MUTANTS.append(Mutant("timing-exit-returns-elapsed", "src/wormhole/timing.py", "    def __exit__(self, exc_type, exc_value, exc_tb):\n        self.finish()", "    def __exit__(self, exc_type, exc_value, exc_tb):\n        return self.finish()", "C04.R8",
                      "two cooperating sites: finish() returns the elapsed time, __exit__ returns finish(): exceptions inside timed blocks vanish",
                      also=(("src/wormhole/timing.py", "        self.detail(**details)\n\n    def __enter__", "        self.detail(**details)\n        return round(self._stop - self._start, 2)\n\n    def __enter__"),)))
MUTANTS.append(Mutant("walk-drops-empty-dirs", TX, "walk(what, preserve_empty=True, followlinks=True)", "walk(what, preserve_empty=False, followlinks=True)", "C04.R7"))
REWRITES.append(Rewrite("timing-exit-explicit-false", "src/wormhole/timing.py", "    def __exit__(self, exc_type, exc_value, exc_tb):\n        self.finish()", "    def __exit__(self, exc_type, exc_value, exc_tb):\n        self.finish()\n        return False", desc="explicit no-suppress"))

MUTANTS.append(Mutant("explain-and-swallow-connection-closed", RX, "        d = self._go(w)\n", "        d = self._go(w)\n        d.addErrback(lambda f: f.trap(TransferError))\n", "C04.R12", "seed C04-18"))
MUTANTS.append(Mutant("skip-directory-members", RX, "                for info in zf.infolist():\n", "                for info in zf.infolist():\n                    if info.is_dir():\n                        continue\n", ("C04.R13", "C04.R"), "seed C04-19"))
