"""C16 — the dilation leader replaces a silent connection and keeps a responsive one (wall-clock bounds NOT decided)."""
import ast

from ..srcmodel import AnalysisError, site
from ..automat_x import Program
from ..astutil import dotted, const, params, local_defs, is_self_attr, calls_named, same_expr, walk_shallow, enclosing_function
from ..dataflow import expand
from ..effects import class_writers, is_const
from ..cfg import build, truthy_atom, cmp_atom, none_atom, in_atom
from ..siblings import eval_int
from ..tablerules import rows_calling, row_calls
from ..selftest import Mutant, Rewrite

EXPLANATION = ("(R1) TrafficTimer table: from `connected`, exactly two interval expiries without traffic lead to signal_reconnect and "
               "each expiry re-arms the timer; seen traffic returns to `connected` from both timing states; a lost connection is "
               "accepted in both and leads to no_connection; a new connection starts timing. (R2) Manager glue: the leader tells the "
               "timer about every new connection and every loss; the interval timer is cancelled and cleared when the connection "
               "goes away, the expiry callback clears it before reporting the interval (so a non-None _timer is always pending), "
               "the reconnect signal drops the current connection, only the pong callback reports traffic, pings carry fresh 4-byte "
               "ids and the timer runs on the configured ping interval. Wall-clock bounds are not decided.")
TRUSTED_BASE = ["T1", "T2", "T4", "T5"]
MIN_OBLIGATIONS = 18

MGR = "src/wormhole/_dilation/manager.py"


def r1(prog, rep):
    T = prog.machine("TrafficTimer")
    for i in ("interval_elapsed", "traffic_seen", "got_connection", "lost_connection"):
        if i not in T.inputs:
            raise AnalysisError("TrafficTimer input %s not found" % i)
    conn = [r.enter for r in T.rows_on("got_connection") if r.enter != r.src]
    rep.check("C16.R1", "a new connection moves the timer into its `connected` state and starts timing", len(set(conn)) == 1
              and all("begin_timing" in r.outputs for r in T.rows_on("got_connection")), T.file, key="C16.R1:got_connection")
    if len(set(conn)) != 1:
        return
    connected = conn[0]
    # follow interval_elapsed only
    path = []
    s = connected
    seen = set()
    while s not in seen and len(path) < 6:
        seen.add(s)
        r = T.row(s, "interval_elapsed")
        if r is None:
            break
        path.append(r)
        if "signal_reconnect" in r.outputs:
            break
        s = r.enter
    ok = len(path) == 2 and "signal_reconnect" in path[-1].outputs and "signal_reconnect" not in path[0].outputs and "begin_timing" in path[0].outputs
    rep.check("C16.R1", "from `connected`, exactly two silent intervals lead to signal_reconnect; the first re-arms the timer (%s)"
              % [(r.src, r.outputs) for r in path], ok, path[0].site if path else T.file, key="C16.R1:two-intervals",
              what="a silent connection is replaced after %d interval(s) (or never): %s" % (len(path), [(r.src, r.inp, r.enter, r.outputs) for r in path]))
    timing = {connected} | {r.enter for r in path[:-1]}
    for s in sorted(timing):
        r = T.row(s, "traffic_seen")
        rep.check("C16.R1", "TrafficTimer[%s].traffic_seen returns to `connected`" % s, r is not None and r.enter == connected, r.site if r else T.file,
                  key="C16.R1:%s.traffic_seen" % s, what="a pong in state %s does not reset the silence count" % s)
        r = T.row(s, "lost_connection")
        idle = [x.src for x in T.rows_on("got_connection") if x.enter != x.src]
        rep.check("C16.R1", "TrafficTimer[%s].lost_connection is declared and leads to the no-connection state" % s,
                  r is not None and r.enter in idle and not r.outputs, r.site if r else T.file, key="C16.R1:%s.lost_connection" % s,
                  what="losing the connection in timer state %s raises NoTransition inside connector_connection_lost (the manager never learns of the loss)" % s)
    # traffic in `connected` keeps the timer armed
    r = T.row(connected, "traffic_seen")
    rep.check("C16.R1", "traffic while connected re-arms the timer (next ping)", r is not None and "begin_timing" in r.outputs, T.file, key="C16.R1:connected.traffic-rearms")
    rows = [r for r in T.rows.values() if "signal_reconnect" in r.outputs]
    rep.check("C16.R1", "signal_reconnect is emitted by exactly one row", len(rows) == 1, T.file, key="C16.R1:single-reconnect-row")
    for oname, callee in (("signal_reconnect", "self.on_reconnect"), ("begin_timing", "self.start_timer")):
        fn = T.outputs.get(oname)
        rep.check("C16.R1", "TrafficTimer.%s calls its %s callback" % (oname, callee.split(".")[-1]), fn is not None and bool(calls_named(fn, callee)), T.file,
                  key="C16.R1:%s" % oname)


def r2(tree, rep):
    cm = tree.func(MGR, "Manager", "connector_connection_made")
    g = build(cm, split=True)
    leader = cmp_atom(lambda e: is_self_attr(e, "_my_role"), lambda e: dotted(e) == "LEADER", (ast.Eq, ast.Is), (ast.NotEq, ast.IsNot))
    gc = g.call_nodes(lambda c: dotted(c.func) == "self._traffic.got_connection")
    mk = g.call_nodes(lambda c: dotted(c.func) == "TrafficTimer")
    own, foreign = class_writers(tree, "Manager", "_my_role")
    if not foreign and all(w.fn in ("__init__", "__attrs_post_init__") for w in own):
        g.stable_atoms = [leader]        # the role never changes after construction: two tests of it agree
    else:
        g.local_atom_attrs = {"_my_role"}
        g.local_atoms = [leader]         # two tests of it agree as long as nothing that could change self ran in between
    n_lead, always = g.when_must_pass(leader, True, gc)
    # only the leader runs a timer; as leader, every path to the return tells the timer about the new connection
    ok = len(gc) == 1 and len(mk) == 1 and n_lead > 0 and always and not g.only_when(gc + mk, leader, True)
    rep.check("C16.R2", "the leader reports every new connection to the timer (not only when the timer object is first created)", ok, site(cm, MGR),
              key="C16.R2:connection_made:got_connection", what="after a reconnect the leader no longer monitors the new connection")
    if mk:
        c = [c for c in ast.walk(g.stmt[mk[0]]) if isinstance(c, ast.Call) and dotted(c.func) == "TrafficTimer"][0]
        from ..dataflow import call_arg
        names = [f.lstrip("_") for f in Program(tree).cls("TrafficTimer").attr_fields]
        wired = [dotted(call_arg(c, i, nm)) if call_arg(c, i, nm) is not None else None for i, nm in enumerate(names[:2])]
        # the timer object outlives the connection it was created for (it is made once and told about every later connection), so its
        # callbacks must be the Manager's own methods, which look at the CURRENT connection / timer when they are called
        mm_ = tree.methods(MGR, "Manager")
        own_method = lambda w: isinstance(w, str) and w.startswith("self.") and w.count(".") == 1 and w.split(".")[1] in mm_
        reconnect_method = wired[0].split(".")[1] if own_method(wired[0]) else None
        rep.check("C16.R2", "the timer (created once, reused for every later connection) is wired to methods of the Manager: %s" % wired,
                  own_method(wired[0]) and wired[1] == "self._send_ping_reset_timer", site(c, MGR), key="C16.R2:timer-wiring",
                  what="the TrafficTimer is created once and kept for every later connection, but its callbacks are %s: a callback bound to "
                       "one connection object (or anything but a Manager method) keeps acting on the FIRST connection - a silent peer on a "
                       "later connection is never dropped" % wired)
    cl = tree.func(MGR, "Manager", "connector_connection_lost")
    g = build(cl)
    lc = g.call_nodes(lambda c: dotted(c.func) == "self._traffic.lost_connection")
    tt = [t for t in g.nodes(lambda s: isinstance(s, ast.If)) if isinstance(g.stmt[t].test, ast.Compare) and is_self_attr(g.stmt[t].test.left, "_traffic")]
    # (a leading `if self._connection is None: return` is accepted: whether a loss is ever swallowed is the two-party product's verdict)
    from ..cfg import none_atom
    n_e, guarded = g.when_must_pass(none_atom(lambda e: is_self_attr(e, "_connection")), False, tt)
    ok = len(lc) == 1 and len(tt) == 1 and g.must_pass(lc, start=g.branch_targets(tt[0], 'T'), to=[g.exit, g.raise_exit], explicit_only=True) \
        and (g.must_pass(tt) or (n_e > 0 and guarded))
    rep.check("C16.R2", "connector_connection_lost reports the loss to the timer whenever one exists", ok, site(cl, MGR), key="C16.R2:connection_lost:lost_connection")
    for name, kind in (("_stop_using_connection", "method"), ("abandon_connection", "output")):
        fn = tree.func(MGR, "Manager", name)
        g = build(fn, split=True)
        from ..cfg import none_atom as _none_atom
        no_timer = _none_atom(lambda e: is_self_attr(e, "_timer"))
        armed, unarmed = g.cond_edges(no_timer, False), g.cond_edges(no_timer, True)      # `is not None` / `is None`, whichever way it is spelled
        cn = g.call_nodes(lambda c: dotted(c.func) == "self._timer.cancel")
        clr = g.nodes(lambda s: isinstance(s, ast.Assign) and any(is_self_attr(t, "_timer") for t in s.targets) and const(s.value) is None)
        ok = bool(armed) and len(cn) >= 1 and len(clr) >= 1 \
            and g.exit not in g.reach(g.entry, avoid_edges=set(armed) | set(unarmed), explicit_only=True) \
            and all(g.exit not in g.reach([y], avoid_nodes=set(cn), explicit_only=True) for (x, y, l) in armed) \
            and all(g.exit not in g.reach([y], avoid_nodes=set(clr), explicit_only=True) for (x, y, l) in armed) \
            and not g.precedes(cn, clr) and not g.only_when(cn, no_timer, False)
        rep.check("C16.R2", "Manager.%s cancels a pending interval timer and clears it" % name, ok, site(fn, MGR), key="C16.R2:%s:timer" % name,
                  what="an interval timer of the old connection survives %s and is later counted against the next connection" % name)
    sr = tree.func(MGR, "Manager", (reconnect_method if mk and reconnect_method else "_signal_reconnect"))
    g = build(sr, split=True)
    dc = g.call_nodes(lambda c: dotted(c.func) == "self._connection.disconnect")
    connected = truthy_atom(lambda e: is_self_attr(e, "_connection"))
    ce = g.cond_edges(connected, True)
    ok = len(dc) == 1 and bool(ce) and all(g.exit not in g.reach([y], avoid_nodes=set(dc), explicit_only=True) for (x, y, l) in ce) \
        and not g.only_when(dc, connected, True)
    rep.check("C16.R2", "_signal_reconnect drops the current connection", ok, site(sr, MGR), key="C16.R2:_signal_reconnect")
    sp = tree.func(MGR, "Manager", "_send_ping_reset_timer")
    nested = {n.name: n for n in ast.walk(sp) if isinstance(n, ast.FunctionDef) and n is not sp}
    mgr_methods = tree.methods(MGR, "Manager")

    def callback_of(e):
        """the function a callback expression denotes: a closure of _send_ping_reset_timer, a lambda, or a bound method of Manager"""
        if isinstance(e, ast.Name) and e.id in nested:
            return nested[e.id]
        if isinstance(e, ast.Lambda):
            return e
        if is_self_attr(e) and e.attr in mgr_methods:
            return mgr_methods[e.attr]
        return None
    # pong callback: the only caller of traffic_seen
    ts_sites = []
    for c in ast.walk(tree.ast(MGR)):
        if isinstance(c, ast.Call) and dotted(c.func) == "self._traffic.traffic_seen":
            ts_sites.append(enclosing_function(c))
    sping = [c for c in ast.walk(sp) if isinstance(c, ast.Call) and dotted(c.func) == "self.send_ping"]
    ok = len(ts_sites) == 1 and len(sping) == 1 and len(sping[0].args) == 2
    if ok:
        cbf = callback_of(sping[0].args[1])
        # the one traffic_seen site is inside the function handed to send_ping as the pong callback
        ok = cbf is not None and any(isinstance(c, ast.Call) and dotted(c.func) == "self._traffic.traffic_seen" for c in ast.walk(cbf)) \
            and (ts_sites[0] is cbf or (isinstance(cbf, ast.Lambda) and ts_sites[0] is sp))
        from ..astutil import resolve_local as _rl
        pid = sping[0].args[0]
        if isinstance(pid, ast.Name):
            pid = _rl(sp, pid)
        ok = ok and isinstance(pid, ast.Call) and dotted(pid.func) == "os.urandom" and eval_int(pid.args[0]) == 4
    rep.check("C16.R2", "each timing step sends a ping with a fresh 4-byte id whose pong callback (and nothing else) reports traffic_seen", ok, site(sp, MGR),
              key="C16.R2:ping-pong-traffic", what="traffic is reported from somewhere other than a matching pong, or pings are not sent")
    hp = tree.func(MGR, "Manager", "handle_pong")
    g = build(hp, split=True)
    # the callback is the first element of the entry taken out of _pings_outstanding, whatever the local is called
    cbnames = set()
    for a in ast.walk(hp):
        if isinstance(a, ast.Assign) and len(a.targets) == 1 and isinstance(a.targets[0], ast.Tuple) and len(a.targets[0].elts) == 2 \
                and isinstance(a.targets[0].elts[0], ast.Name):
            v = a.value
            if (isinstance(v, ast.Call) and dotted(v.func) == "self._pings_outstanding.pop") \
                    or (isinstance(v, ast.Subscript) and is_self_attr(v.value, "_pings_outstanding")):
                cbnames.add(a.targets[0].elts[0].id)
    cb = g.call_nodes(lambda c: isinstance(c.func, ast.Name) and c.func.id in cbnames)
    outstanding = in_atom(lambda e: isinstance(e, ast.Name) and e.id in params(hp), lambda e: is_self_attr(e, "_pings_outstanding"))
    ok = len(cb) == 1 and bool(g.cond_edges(outstanding, False)) and not g.only_when(cb, outstanding, True)
    if ok:
        pops = [c for c in ast.walk(hp) if isinstance(c, ast.Call) and dotted(c.func) == "self._pings_outstanding.pop"]
        dels = [d for d in ast.walk(hp) if isinstance(d, ast.Delete) and any(isinstance(t, ast.Subscript) and is_self_attr(t.value, "_pings_outstanding")
                                                                           for t in d.targets)]
        ok = len(pops) + len(dels) == 1
    rep.check("C16.R2", "a pong counts only if it answers an outstanding ping (which is then retired)", ok, site(hp, MGR), key="C16.R2:handle_pong")
    # the interval timer
    cl_ = [c for c in ast.walk(sp) if isinstance(c, ast.Call) and dotted(c.func) == "self._reactor.callLater"]
    ok = len(cl_) == 1 and is_self_attr(cl_[0].args[0], "_ping_interval") and len(cl_[0].args) == 2 and callback_of(cl_[0].args[1]) is not None \
        and not isinstance(callback_of(cl_[0].args[1]), ast.Lambda)
    texp = callback_of(cl_[0].args[1]) if ok else None
    asg = [n for n in ast.walk(sp) if isinstance(n, ast.Assign) and any(is_self_attr(t, "_timer") for t in n.targets) and n.value in cl_]
    ok = ok and len(asg) == 1
    rep.check("C16.R2", "the interval timer is callLater(self._ping_interval, <expiry>) stored in self._timer", ok, site(sp, MGR), key="C16.R2:interval-timer")
    if texp is not None:
        g = build(texp)
        clr = g.nodes(lambda s: isinstance(s, ast.Assign) and any(is_self_attr(t, "_timer") for t in s.targets) and const(s.value) is None)
        ie = g.call_nodes(lambda c: dotted(c.func) == "self._traffic.interval_elapsed")
        ok = len(clr) == 1 and len(ie) == 1 and g.must_pass(clr) and g.must_pass(ie) and not g.precedes(clr, ie)
        rep.check("C16.R2", "the expiry callback clears self._timer before it reports interval_elapsed (a non-None _timer is always a pending call)", ok,
                  site(texp, MGR), key="C16.R2:expiry-clears-timer",
                  what="a fired DelayedCall can stay in self._timer: the next cancel() raises AlreadyCalled inside connection-loss / stop handling")
    # guard of the arm branch: only when no timer is pending
    g = build(sp, split=True)
    arm = g.call_nodes(lambda c: dotted(c.func) == "self._reactor.callLater")
    no_timer = none_atom(lambda e: is_self_attr(e, "_timer"))
    ok = len(arm) == 1 and not g.only_when(arm, no_timer, True)
    rep.check("C16.R2", "a new interval timer is armed only when none is pending (self._timer is None)", ok, site(sp, MGR), key="C16.R2:arm-guard")
    own, foreign = class_writers(tree, "Manager", "_timer")
    allowed_w = {"__attrs_post_init__", "_send_ping_reset_timer", "_stop_using_connection", "abandon_connection"}
    if texp is not None:
        allowed_w.add(texp.name)
    ok = not foreign and all(w.fn in allowed_w for w in own)
    rep.check("C16.R2", "Manager._timer writers are the constructor, the arm/expiry pair and the two cancel sites", ok, MGR, key="C16.R2:_timer-writers",
              what="writers: %s" % [w.brief() for w in own + foreign])


def r3(tree, rep):
    """a ping (and the pong that answers the peer's ping) goes onto the link whenever there is a connection - nothing else may
    hold it back (a dropped ping is recorded and timed all the same: two of them replace a healthy connection)"""
    OUT = "src/wormhole/_dilation/outbound.py"
    fn = tree.func(OUT, "Outbound", "send_if_connected")
    g = build(fn, split=True)
    connected = truthy_atom(lambda e: is_self_attr(e, "_connection"))
    snd = g.call_nodes(lambda c: dotted(c.func) == "self._connection.send_record")
    ce = g.cond_edges(connected, True)
    ok = len(snd) == 1 and bool(ce) and not g.only_when(snd, connected, True) \
        and all(g.exit not in g.reach([y], avoid_nodes=set(snd), explicit_only=True) for (x, y, l) in ce)
    other = [s for n, s in g.stmt.items() if isinstance(s, tuple) and s[0] == "COND" and connected(s[1]) is None] + \
            [s for n, s in g.stmt.items() if isinstance(s, (ast.If, ast.While)) and not g._is_compound_test(s.test) and connected(s.test) is None
             and not (isinstance(s.test, ast.UnaryOp) and connected(s.test.operand) is not None)]
    rep.check("C16.R3", "Outbound.send_if_connected writes the record exactly when a connection exists (no other condition)", ok and not other,
              site(fn, OUT), key="C16.R3:send_if_connected",
              what="pings/pongs can be dropped although a connection exists: the leader counts the silence and replaces a healthy connection")
    for meth, rec in (("send_ping", "Ping"), ("send_pong", "Pong")):
        f = tree.func(MGR, "Manager", meth)
        gm = build(f)
        sn = gm.call_nodes(lambda c, rec=rec: dotted(c.func) == "self._outbound.send_if_connected" and c.args and isinstance(c.args[0], ast.Call)
                           and dotted(c.args[0].func) == rec)
        rep.check("C16.R3", "Manager.%s hands a %s to send_if_connected on every path" % (meth, rec), len(sn) == 1 and gm.must_pass(sn, explicit_only=True),
                  site(f, MGR), key="C16.R3:%s" % meth)
    hp = tree.func(MGR, "Manager", "handle_ping")
    rep.check("C16.R3", "every peer ping is answered with a pong", len(calls_named(hp, "self.send_pong")) == 1 and build(hp).must_pass(
        build(hp).call_nodes(lambda c: dotted(c.func) == "self.send_pong"), explicit_only=True), site(hp, MGR), key="C16.R3:handle_ping")


def r4(tree, rep, tier):
    """the monitor in the two-party product (engine A5): a connection whose pings go unanswered is asked to close at the second
    expiry at the latest; the monitor never drops a connection unless a ping went unanswered over an expiry"""
    from .. import a5common
    sums = a5common.explorations(tree, tier, rep)
    a5common.fill_extra(rep, sums)
    a5common.report(rep, "C16.R4", sums, ("silent-connection-kept", "responsive-connection-dropped"))
    if any(getattr(s, "rtt_assumption_used", False) for s in sums.values()):
        # the pong callback compares its argument with the ping interval, and the product decided that comparison assuming the argument
        # is the round-trip time in the interval's unit (seconds, at most one interval): the producer must hand over exactly that
        hp = tree.func(MGR, "Manager", "handle_pong")
        stored = {t.id for a in ast.walk(hp) if isinstance(a, ast.Assign) and any(isinstance(c, ast.Call) and isinstance(c.func, ast.Attribute)
                  and c.func.attr in ("pop", "get") for c in ast.walk(a.value)) or (isinstance(a, ast.Assign) and isinstance(a.value, ast.Subscript))
                  for tt in a.targets for t in ast.walk(tt) if isinstance(t, ast.Name)}
        calls = [c for c in ast.walk(hp) if isinstance(c, ast.Call) and isinstance(c.func, ast.Name) and c.func.id in stored and c.args]
        ok = bool(calls)
        for c in calls:
            a = expand(hp, c.args[0], stop=tuple(stored))
            ok = ok and isinstance(a, ast.BinOp) and isinstance(a.op, ast.Sub) and isinstance(a.left, ast.Call) \
                and (dotted(a.left.func) or "").split(".")[-1] in ("seconds", "time", "monotonic") \
                and isinstance(a.right, ast.Name) and a.right.id in stored
        rep.check("C16.R4", "the pong callback weighs its argument against the ping interval: handle_pong hands it the plain elapsed time "
                  "(now - start, in the clock's seconds), unscaled", ok, site(calls[0] if calls else hp, MGR), key="C16.R4:handle_pong:rtt-unit",
                  what="the pong callback compares the round-trip time with the ping interval (seconds) but handle_pong passes %s: answered "
                       "pings are not credited and a responsive peer is dropped" % (ast.unparse(calls[0].args[0])[:60] if calls else "?"))
    for envname, s in sums.items():
        n = s.obl.get("C16:expiry", 0)
        rep.check("C16.R4", "two-party environment '%s': %d timer expiries on a connection in use were examined" % (envname, n),
                  n > 0 or not s.exhaustive or bool(s.viol), key="C16.R4:expiries-examined:%s" % envname,
                  what="the ping timer never expires on a connection in use in the two-party product: the Leader does not monitor its connection")


def r6(tree, rep):
    """the interval the application asked for is the interval the monitor runs on: Dilator.dilate hands its `ping_interval` parameter to
    the Manager unchanged (`ping_interval or <default>` - only a missing / zero value gets the default), never reassigned on the way;
    every bound of the property ("under three ping intervals", "within one interval") is stated in that unit"""
    fn = tree.func(MGR, "Dilator", "dilate")
    stores = [x for x in ast.walk(fn) if isinstance(x, ast.Name) and x.id == "ping_interval" and isinstance(x.ctx, ast.Store)]
    mk = [c for c in ast.walk(fn) if isinstance(c, ast.Call) and dotted(c.func) == "Manager"]
    ok = len(mk) == 1 and not stores
    passed = None
    if ok:
        cands = [a for a in list(mk[0].args) + [k.value for k in mk[0].keywords]
                 if any(isinstance(x, ast.Name) and x.id == "ping_interval" for x in ast.walk(a))]
        ok = len(cands) == 1
        if ok:
            a = cands[0]
            passed = ast.unparse(a)
            plain = isinstance(a, ast.Name)
            defaulted = isinstance(a, ast.BoolOp) and isinstance(a.op, ast.Or) and len(a.values) == 2 and isinstance(a.values[0], ast.Name) \
                and a.values[0].id == "ping_interval" and not any(isinstance(x, ast.Call) for x in ast.walk(a.values[1]))
            ok = plain or defaulted
    rep.check("C16.R6", "Dilator.dilate passes the application's ping_interval to the Manager as given (%s), the parameter is not reassigned" % passed,
              ok, site(fn, MGR), key="C16.R6:dilate:ping_interval-plumbing",
              what="Dilator.dilate changes the ping interval the application asked for before the Manager sees it (reassigned: %s; passed as: %s): "
                   "a legal explicit interval silently becomes another one, and a silent peer is dropped after a multiple of the promised "
                   "three intervals" % (bool(stores), passed))


def run(tree, rep, tier):
    from .. import round9 as _r9
    _r9.delayed_calls_owned(tree, rep, "C16.R7")
    _r9.disconnect_sites(tree, rep, "C16.R7", ("_signal_reconnect", "abandon_connection"))
    prog = Program(tree)
    r1(prog, rep)
    r2(tree, rep)
    r3(tree, rep)
    r4(tree, rep, tier)
    r6(tree, rep)
    from ..tablerules import application_outputs_last
    application_outputs_last(rep, "C16.R5", prog.machine("Manager"),
                             "the Leader has dropped the connection but never sends RECONNECT / never starts the next generation", min_rows=6)


MUTANTS = [
    Mutant("idle-rearms-forever", MGR, "    idle_traffic.upon(\n        interval_elapsed,\n        enter=connected,\n        outputs=[signal_reconnect]\n    )",
           "    idle_traffic.upon(\n        interval_elapsed,\n        enter=idle_traffic,\n        outputs=[begin_timing]\n    )", "C16.R1"),
    Mutant("reconnect-after-one", MGR, "    connected.upon(\n        interval_elapsed,\n        enter=idle_traffic,\n        outputs=[begin_timing]\n    )",
           "    connected.upon(\n        interval_elapsed,\n        enter=connected,\n        outputs=[signal_reconnect]\n    )", "C16.R1"),
    Mutant("idle-no-lost-row", MGR, "    idle_traffic.upon(\n        lost_connection,\n        enter=no_connection,\n        outputs=[]\n    )\n", "", "C16.R1"),
    Mutant("idle-traffic-ignored", MGR, "    idle_traffic.upon(\n        traffic_seen,\n        enter=connected,\n        outputs=[]\n    )", "    idle_traffic.upon(\n        traffic_seen,\n        enter=idle_traffic,\n        outputs=[]\n    )", "C16.R1"),
    Mutant("got_connection-only-first", MGR, "                self._traffic = TrafficTimer(self._signal_reconnect, self._send_ping_reset_timer)\n            self._traffic.got_connection()",
           "                self._traffic = TrafficTimer(self._signal_reconnect, self._send_ping_reset_timer)\n                self._traffic.got_connection()", "C16.R2"),
    Mutant("stop-keeps-timer", MGR, "        # the connection is already lost by this point\n        if self._timer is not None:\n            self._timer.cancel()\n            self._timer = None",
           "        # the connection is already lost by this point\n        self._timer = None", "C16.R2"),
    Mutant("expiry-keeps-timer", MGR, "            def timer_expired():\n                self._timer = None\n                self._traffic.interval_elapsed()", "            def timer_expired():\n                self._traffic.interval_elapsed()", "C16.R2"),
    Mutant("reconnect-signal-noop", MGR, "        if self._connection:\n            self._connection.disconnect()\n\n    def _send_ping_reset_timer", "        pass\n\n    def _send_ping_reset_timer", "C16.R2"),
    Mutant("any-record-is-traffic", MGR, "        elif isinstance(r, Ack):\n            self._outbound.handle_ack(r.resp_seqnum)  # retire queued messages",
           "        elif isinstance(r, Ack):\n            self._outbound.handle_ack(r.resp_seqnum)  # retire queued messages\n            if self._traffic is not None:\n                self._traffic.traffic_seen()", "C16.R2"),
]
REWRITES = [
    Rewrite("lost-check-truthy", MGR, "        if self._traffic is not None:\n            self._traffic.lost_connection()", "        if self._traffic is not None:\n            self._traffic.lost_connection()\n        log.msg(\"lost\")", desc="extra logging"),
]

# engine A5
MUTANTS.append(Mutant("pong-credited-conditionally", MGR, "        def got_pong(_):\n            # ignoring \"ping_id\"\n            self._traffic.traffic_seen()",
                      "        def got_pong(rtt):\n            if rtt <= 2 * self._ping_interval:\n                self._traffic.traffic_seen()", "C16.R4",
                      "two cooperating sites: the producer reports the round-trip time in milliseconds, the consumer weighs it against the interval in seconds",
                      also=((MGR, "                on_pong(self._reactor.seconds() - start)", "                on_pong(int(round((self._reactor.seconds() - start) * 1000)))"),)))
REWRITES.append(Rewrite("pong-credited-within-two-intervals", MGR, "        def got_pong(_):\n            # ignoring \"ping_id\"\n            self._traffic.traffic_seen()",
                        "        def got_pong(rtt):\n            if rtt <= 2 * self._ping_interval:\n                self._traffic.traffic_seen()",
                        desc="a pong that took at most two intervals is credited: every pong of a peer answering within one interval is"))
MUTANTS.append(Mutant("signal-needs-timer", MGR, "        if self._connection:\n            self._connection.disconnect()\n\n    def _send_ping_reset_timer",
                      "        if self._connection and self._timer is not None:\n            self._connection.disconnect()\n\n    def _send_ping_reset_timer", "C16.R4",
                      "when the reconnect signal fires the timer has just expired (_timer is None): the silent connection is never dropped"))
MUTANTS.append(Mutant("status-before-reconnect", MGR, "                   outputs=[send_reconnect, send_status_dilation_generation, send_status_reconnecting])",
                      "                   outputs=[send_status_reconnecting, send_reconnect, send_status_dilation_generation])", "C16.R5",
                      "a status callback that raises on ReconnectingPeer leaves the Leader in FLUSHING without RECONNECT ever sent (seed C16-11)"))
MUTANTS.append(Mutant("timer-bound-to-first-connection", MGR, "                self._traffic = TrafficTimer(self._signal_reconnect, self._send_ping_reset_timer)",
                      "                self._traffic = TrafficTimer(c.disconnect, self._send_ping_reset_timer)", "C16.R2", "seed C16-12"))
MUTANTS.append(Mutant("sub-second-interval-defaulted", MGR, "        self._did_dilate()\n", "        self._did_dilate()\n        if ping_interval is not None and ping_interval < 1:\n            ping_interval = None\n", "C16.R6", "seed C16-16"))

MUTANTS.append(Mutant("unowned-abort-watchdog", MGR, "        if self._connection:\n            self._connection.disconnect()\n", "        if self._connection:\n            self._connection.disconnect()\n            self._reactor.callLater(self._ping_interval * 2, self._connection.disconnect)\n", "C16.R7", "seed C16-18"))
