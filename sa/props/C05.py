"""C05 — `wormhole receive` writes only where it said it would, and never clobbers."""
import ast

from ..srcmodel import AnalysisError, site
from ..astutil import (dotted, const, params, local_defs, is_self_attr, calls_named, same_expr, walk_shallow, resolve_local,
                       parent, ancestors, enclosing_function, OPAQUE)
from ..dataflow import expand, expand_flow, call_arg
from ..cfg import build, truthy_atom, cmp_atom
from ..selftest import Mutant, Rewrite

EXPLANATION = ("(R1) taint: the peer-supplied name reaches a path only as os.path.basename(name) placed directly into "
               "abspath(join(cwd[, output_file], .)); every other use is display (repr / message); the offer's name goes nowhere "
               "else. (R2) who-may-write table: the filesystem-mutating call sites of cmd_receive.py are exactly the reviewed ones "
               "and each takes a path derived from self.abs_destname; no recursive delete, no extractall. (R3) _extract_file "
               "extracts/chmods only past the abspath(join(dir, member)).startswith(dir + os.sep) guard whose failing edge raises. "
               "(R4) overwrite is allowed only under --output-file; an existing destination otherwise raises; _remove_existing "
               "removes files only and refuses directories, and runs on both the --accept-file and the interactive path. "
               "OS path semantics (symlinks below the destination) are not decided.")
TRUSTED_BASE = ["T1", "T2", "T4"]
MIN_OBLIGATIONS = 25

RX = "src/wormhole/cli/cmd_receive.py"
MUTATORS = {"os.rename", "os.replace", "os.remove", "os.unlink", "os.chmod", "os.chown", "os.mkdir", "os.makedirs", "os.rmdir",
            "os.removedirs", "os.symlink", "os.link", "os.truncate", "os.utime", "shutil.rmtree", "shutil.move", "shutil.copy",
            "shutil.copy2", "shutil.copyfile", "shutil.copytree", "shutil.unpack_archive"}
FORBIDDEN = {"shutil.rmtree", "os.rmdir", "os.removedirs", "shutil.unpack_archive"}


def _is_basename_of(node, name):
    return isinstance(node, ast.Call) and dotted(node.func) == "os.path.basename" and len(node.args) == 1 \
        and isinstance(node.args[0], ast.Name) and node.args[0].id == name


def _args_attr(node, attr):
    return dotted(node) == "self.args." + attr


def r1(tree, rep):
    fn = tree.func(RX, "Receiver", "_decide_destname")
    ps = params(fn)
    if "destname" not in ps:
        raise AnalysisError("_decide_destname has no destname parameter")
    assigns = [n for n in walk_shallow(fn) if isinstance(n, ast.Assign) and any(isinstance(t, ast.Name) and t.id == "abs_destname" for t in n.targets)]
    rep.check("C05.R1", "_decide_destname computes abs_destname (%d assignments)" % len(assigns), len(assigns) >= 2, site(fn, RX),
              key="C05.R1:assignments")
    for a in assigns:
        v = a.value
        ok = isinstance(v, ast.Call) and dotted(v.func) == "os.path.abspath" and len(v.args) == 1 and isinstance(v.args[0], ast.Call) \
            and dotted(v.args[0].func) == "os.path.join"
        comps = []
        if ok:
            for x in v.args[0].args:
                x = resolve_local(fn, x)
                if _args_attr(x, "cwd"):
                    comps.append("cwd")
                elif _args_attr(x, "output_file"):
                    comps.append("output_file")
                elif _is_basename_of(x, "destname"):
                    comps.append("basename")
                else:
                    comps.append("?")
            ok = "?" not in comps and comps[0] == "cwd" and comps in (["cwd", "output_file"], ["cwd", "basename"], ["cwd", "output_file", "basename"])
        rep.check("C05.R1", "abs_destname = abspath(join(cwd[, output_file][, basename(destname)])) (components %s)" % comps, ok,
                  site(a, RX), key="C05.R1:abs_destname:%s" % "+".join(comps or ["unrecognised"]),
                  what="the destination path is built from something other than cwd / --output-file / os.path.basename(<offered name>) "
                       "(a transformed or unsanitised peer-supplied name can escape the destination)")
    rets = [r for r in walk_shallow(fn) if isinstance(r, ast.Return)]
    rep.check("C05.R1", "_decide_destname returns abs_destname", all(isinstance(r.value, ast.Name) and r.value.id == "abs_destname" for r in rets) and bool(rets),
              site(fn, RX), key="C05.R1:returns")
    rep.check("C05.R1", "destname is not rebound inside _decide_destname", not local_defs(fn, "destname"), site(fn, RX), key="C05.R1:destname-rebound")
    bad = []
    for n in walk_shallow(fn):
        if isinstance(n, ast.Name) and n.id == "destname" and isinstance(n.ctx, ast.Load):
            p = parent(n)
            if _is_basename_of(p, "destname"):
                continue
            display = False
            for a in ancestors(n):
                if isinstance(a, ast.Call) and dotted(a.func) in ("repr", "self._msg"):
                    display = True
                    break
                if isinstance(a, ast.stmt):
                    break
            if not display:
                bad.append(n)
    rep.check("C05.R1", "every other use of the offered name in _decide_destname is display only (repr / message)", not bad,
              site(bad[0], RX) if bad else site(fn, RX), key="C05.R1:other-uses")
    # the offer's name fields go nowhere but _decide_destname
    cls = tree.cls(RX, "Receiver")
    for key in ("filename", "dirname"):
        uses = [n for n in ast.walk(cls) if isinstance(n, ast.Subscript) and const(n.slice) == key]
        ok = bool(uses)
        for u in uses:
            p = parent(u)
            ok = ok and isinstance(p, ast.Call) and dotted(p.func) == "self._decide_destname" and len(p.args) == 2 and p.args[1] is u
        rep.check("C05.R1", "the offer's %r is used only as the name argument of _decide_destname" % key, ok,
                  site(uses[0], RX) if uses else site(cls, RX), key="C05.R1:offer-field:%s" % key)
    for m in ("_handle_file", "_handle_directory"):
        f = tree.func(RX, "Receiver", m)
        w = [n for n in ast.walk(f) if isinstance(n, ast.Assign) and any(is_self_attr(t, "abs_destname") for t in n.targets)]
        ok = len(w) == 1 and isinstance(w[0].value, ast.Call) and dotted(w[0].value.func) == "self._decide_destname"
        rep.check("C05.R1", "%s takes self.abs_destname from _decide_destname" % m, ok, site(f, RX), key="C05.R1:%s:abs_destname" % m)
    from ..effects import class_writers
    own, foreign = class_writers(tree, "Receiver", "abs_destname")
    rep.check("C05.R1", "Receiver.abs_destname is written only by the two offer handlers",
              not foreign and sorted(w.fn for w in own) == ["_handle_directory", "_handle_file"], RX, key="C05.R1:abs_destname-writers",
              what="abs_destname writers: %s" % [w.brief() for w in own + foreign])


def _mutating_sites(tree):
    sites = []
    mod = tree.ast(RX)
    for c in ast.walk(mod):
        if not isinstance(c, ast.Call):
            continue
        d = dotted(c.func)
        kind = None
        if d in MUTATORS:
            kind = d
        elif isinstance(c.func, ast.Attribute) and c.func.attr in ("extract", "extractall"):
            kind = "zip." + c.func.attr
        elif d == "open" and len(c.args) >= 2 and isinstance(const(c.args[1]), str) and any(ch in const(c.args[1]) for ch in "wax+"):
            kind = "open(w)"
        elif d == "open" and any(k.arg == "mode" and isinstance(const(k.value), str) and any(ch in const(k.value) for ch in "wax+") for k in c.keywords):
            kind = "open(w)"
        elif d in ("os.open", "io.open", "codecs.open"):
            kind = d
        if kind:
            f = enclosing_function(c)
            sites.append((f.name if f else "<module>", kind, c))
    return sites


def r2(tree, rep):
    allowed = {("_handle_file", "open(w)"), ("_write_file", "os.rename"), ("_remove_existing", "os.remove"),
               ("_extract_file", "zip.extract"), ("_extract_file", "os.chmod")}
    sites = _mutating_sites(tree)
    found = set()
    for (fname, kind, c) in sites:
        ok = (fname, kind) in allowed and kind not in FORBIDDEN and kind != "zip.extractall"
        found.add((fname, kind))
        rep.check("C05.R2", "filesystem-mutating call %s in %s is one of the reviewed sites" % (kind, fname), ok, site(c, RX),
                  key="C05.R2:site:%s:%s" % (fname, kind),
                  what="new / forbidden filesystem-mutating call %s in %s (the receive command may write or delete outside the announced destination)" % (kind, fname))
    missing = allowed - found
    if missing:
        raise AnalysisError("reviewed filesystem-mutating sites no longer present: %s" % sorted(missing))
    # path arguments
    re_fn = tree.func(RX, "Receiver", "_remove_existing")
    rm = [c for f, k, c in sites if f == "_remove_existing"][0]
    rep.check("C05.R2", "_remove_existing removes exactly its path parameter", isinstance(rm.args[0], ast.Name) and rm.args[0].id in params(re_fn)
              and not local_defs(re_fn, rm.args[0].id), site(rm, RX), key="C05.R2:_remove_existing:arg")
    cls = tree.cls(RX, "Receiver")
    for c in [c for c in ast.walk(cls) if isinstance(c, ast.Call) and dotted(c.func) == "self._remove_existing"]:
        a = c.args[0]
        f = enclosing_function(c)
        ok = is_self_attr(a, "abs_destname") or (isinstance(a, ast.Name) and a.id == "abs_destname" and f.name == "_decide_destname")
        rep.check("C05.R2", "_remove_existing is applied only to the destination (in %s)" % f.name, ok, site(c, RX),
                  key="C05.R2:_remove_existing:caller:%s" % f.name)
    wd = tree.func(RX, "Receiver", "_write_directory")
    ex = [c for c in ast.walk(wd) if isinstance(c, ast.Call) and dotted(c.func) == "self._extract_file"]
    ok = len(ex) == 1 and len(ex[0].args) == 3 and is_self_attr(ex[0].args[2], "abs_destname")
    rep.check("C05.R2", "_write_directory extracts every member through _extract_file into self.abs_destname", ok, site(wd, RX),
              key="C05.R2:_write_directory")
    zf_other = [c for c in ast.walk(wd) if isinstance(c, ast.Call) and isinstance(c.func, ast.Attribute) and c.func.attr in ("extract", "extractall", "open", "read")]
    rep.check("C05.R2", "_write_directory itself never extracts", not zf_other, site(wd, RX), key="C05.R2:_write_directory:direct-extract")


def r3(tree, rep):
    fn = tree.func(RX, "Receiver", "_extract_file")
    ps = params(fn)
    g = build(fn, split=True)
    targets = g.call_nodes(lambda c: (isinstance(c.func, ast.Attribute) and c.func.attr == "extract") or dotted(c.func) == "os.chmod")
    def inside(t):
        if not (isinstance(t, ast.Call) and isinstance(t.func, ast.Attribute) and t.func.attr == "startswith" and len(t.args) == 1):
            return False
        subj = expand_flow(fn, t.func.value)
        pre = t.args[0]
        if isinstance(pre, ast.Name):
            pre = resolve_local(fn, pre)            # required_prefix = extract_dir + os.sep
        okp = isinstance(pre, ast.BinOp) and isinstance(pre.op, ast.Add) and isinstance(pre.left, ast.Name) and pre.left.id == "extract_dir" \
            and dotted(pre.right) in ("os.sep", "os.path.sep")
        oks = isinstance(subj, ast.Call) and dotted(subj.func) == "os.path.abspath" and isinstance(subj.args[0], ast.Call) \
            and dotted(subj.args[0].func) == "os.path.join" and len(subj.args[0].args) == 2 \
            and isinstance(subj.args[0].args[0], ast.Name) and subj.args[0].args[0].id == "extract_dir" \
            and dotted(subj.args[0].args[1]) == "info.filename"
        return okp and oks
    contained = truthy_atom(inside)
    ok = len(targets) == 2 and "extract_dir" in ps and g.when_always_raises(contained, False) and not g.only_when(targets, contained, True)
    rep.check("C05.R3", "_extract_file: extract and chmod are reachable only when abspath(join(extract_dir, member)) starts with "
              "extract_dir + os.sep; the failing edge raises", ok, site(fn, RX), key="C05.R3:guard",
              what="a zip member name can be extracted / chmod-ed outside the destination directory")
    if ok:
        # the path that is chmod-ed is the guarded path; the extracted member is the guarded member into the guarded dir
        for t in targets:
            for c in [c for c in ast.walk(g.stmt[t]) if isinstance(c, ast.Call)]:
                if dotted(c.func) == "os.chmod":
                    a = expand_flow(fn, c.args[0])
                    okc = isinstance(a, ast.Call) and dotted(a.func) == "os.path.abspath"
                    rep.check("C05.R3", "chmod applies to the guarded absolute path", okc, site(c, RX), key="C05.R3:chmod-arg")
                elif isinstance(c.func, ast.Attribute) and c.func.attr == "extract":
                    m = call_arg(c, 0, "member")
                    pth = call_arg(c, 1, "path")
                    okc = m is not None and dotted(resolve_local(fn, m)) == "info.filename" and isinstance(pth, ast.Name) and pth.id == "extract_dir"
                    rep.check("C05.R3", "extract(member=info.filename, path=extract_dir)", okc, site(c, RX), key="C05.R3:extract-args")
    rep.check("C05.R3", "extract_dir/info are not rebound in _extract_file", not local_defs(fn, "extract_dir") and not local_defs(fn, "info"),
              site(fn, RX), key="C05.R3:rebound")


def r4(tree, rep):
    fn = tree.func(RX, "Receiver", "_decide_destname")
    g = build(fn, split=True)

    def is_output_file(e):
        return _args_attr(resolve_local(fn, e) if isinstance(e, ast.Name) else e, "output_file")
    with_of = truthy_atom(is_output_file)
    # the permission flag, whatever it is called and however "no" is spelled (False / None): the one local that starts as a
    # falsy constant, is assigned again, and is tested
    from ..cfg import object_atom
    falsy = lambda v: isinstance(v, ast.Constant) and v.value in (False, None) and not isinstance(v.value, (int, float)) or \
        (isinstance(v, ast.Constant) and v.value is False)
    cand = []
    for nm in sorted({t.id for a in ast.walk(fn) if isinstance(a, ast.Assign) for t in a.targets if isinstance(t, ast.Name)}):
        asg = [a for a in ast.walk(fn) if isinstance(a, ast.Assign) and any(isinstance(t, ast.Name) and t.id == nm for t in a.targets)]
        tested = bool(g.cond_edges(object_atom(lambda e, nm=nm: isinstance(e, ast.Name) and e.id == nm), True))
        if len(asg) >= 2 and any(falsy(a.value) for a in asg) and any(not falsy(a.value) for a in asg) and tested:
            cand.append(nm)
    flag = cand[0] if len(cand) == 1 else "overwrite_allowed"
    sets = g.nodes(lambda s: isinstance(s, ast.Assign) and any(isinstance(t, ast.Name) and t.id == flag for t in s.targets))
    sets_maybe_true = [n for n in sets if not falsy(g.stmt[n].value)]
    ok = bool(sets_maybe_true) and len(sets) > len(sets_maybe_true) and not g.only_when(sets_maybe_true, with_of, True) \
        and bool(g.cond_edges(with_of, True))
    rep.check("C05.R4", "overwrite_allowed becomes True only under --output-file", ok, site(fn, RX), key="C05.R4:overwrite-only-with-output-file",
              what="an existing destination can be overwritten without --output-file")
    exists = truthy_atom(lambda e: isinstance(e, ast.Call) and dotted(e.func) == "os.path.exists" and len(e.args) == 1
                         and isinstance(e.args[0], ast.Name) and e.args[0].id == "abs_destname")
    allowed = object_atom(lambda e: isinstance(e, ast.Name) and e.id == flag)
    assigns = g.nodes(lambda s: isinstance(s, ast.Assign) and any(isinstance(t, ast.Name) and t.id in ("abs_destname", flag)
                                                               for t in s.targets))
    # "does not exist" / "overwriting allowed" as established on the FINAL path: no assignment of the path or the flag afterwards
    final_free = [(x, y, l) for (x, y, l) in g.cond_edges(exists, False) if not (g.reach([y]) & set(assigns))]
    final_allowed = [(x, y, l) for (x, y, l) in g.cond_edges(allowed, True) if not (g.reach([y]) & set(assigns))]
    final_denied = [(x, y, l) for (x, y, l) in g.cond_edges(allowed, False) if not (g.reach([y]) & set(assigns))]
    # the normal exit is reached only over "does not exist" or "overwriting allowed" (anything else must have raised)
    ok = bool(final_free) and bool(final_allowed) and bool(final_denied) \
        and g.exit not in g.reach(g.entry, avoid_edges=set(final_free) | set(final_allowed), explicit_only=True)
    rep.check("C05.R4", "an existing destination makes _decide_destname raise unless overwriting was allowed (checked on the final path)", ok,
              site(fn, RX), key="C05.R4:exists-raises", what="a pre-existing destination is silently reused")
    rm = g.call_nodes(lambda c: dotted(c.func) == "self._remove_existing")
    accept = truthy_atom(lambda e: _args_attr(e, "accept_file"))
    acc_edges = g.cond_edges(accept, True)
    ok = bool(rm) and bool(acc_edges) and not g.only_when(rm, allowed, True) \
        and all(g.exit not in g.reach([y], avoid_nodes=set(rm), explicit_only=True) for (x, y, l) in acc_edges)
    rep.check("C05.R4", "with --accept-file an allowed overwrite goes through _remove_existing (which refuses directories)", ok, site(fn, RX),
              key="C05.R4:accept-file-remove")
    re_fn = tree.func(RX, "Receiver", "_remove_existing")
    g2 = build(re_fn, split=True)
    rm = g2.call_nodes(lambda c: dotted(c.func) in ("os.remove", "os.unlink"))
    isfile = truthy_atom(lambda e: isinstance(e, ast.Call) and dotted(e.func) == "os.path.isfile")
    isdir = truthy_atom(lambda e: isinstance(e, ast.Call) and dotted(e.func) == "os.path.isdir")
    dir_edges = g2.cond_edges(isdir, True) + g2.cond_edges(isdir, False)
    # removal only of a regular file; a directory always raises; no exit without having asked "is it a directory?"
    ok = len(rm) == 1 and bool(g2.cond_edges(isfile, True)) and bool(dir_edges) and not g2.only_when(rm, isfile, True) \
        and g2.when_always_raises(isdir, True) and g2.exit not in g2.reach(g2.entry, avoid_edges=set(dir_edges), explicit_only=True)
    rep.check("C05.R4", "_remove_existing removes only regular files and raises for an existing directory", ok, site(re_fn, RX),
              key="C05.R4:_remove_existing", what="an existing directory can be deleted / silently kept as the destination")
    ap = tree.func(RX, "Receiver", "_ask_permission")
    g3 = build(ap, split=True)
    rm3 = g3.call_nodes(lambda c: dotted(c.func) == "self._remove_existing")
    exists3 = truthy_atom(lambda e: isinstance(e, ast.Call) and dotted(e.func) == "os.path.exists" and len(e.args) == 1
                          and is_self_attr(e.args[0], "abs_destname"))
    accept3 = truthy_atom(lambda e: _args_attr(e, "accept_file"))
    ex_edges = g3.cond_edges(exists3, True)
    # without --accept-file the normal exit is reached only past the existence test, and from its true edge only through _remove_existing
    avoid = set(g3.cond_edges(accept3, True)) | set(g3.cond_edges(exists3, True)) | set(g3.cond_edges(exists3, False))
    ok = len(rm3) == 1 and bool(ex_edges) and g3.exit not in g3.reach(g3.entry, avoid_edges=avoid, explicit_only=True) \
        and all(g3.exit not in g3.reach([y], avoid_nodes=set(rm3), explicit_only=True) for (x, y, l) in ex_edges)
    rep.check("C05.R4", "interactive confirmation: an existing destination goes through _remove_existing before the transfer proceeds", ok,
              site(ap, RX), key="C05.R4:_ask_permission:remove-existing",
              what="without --accept-file an existing directory named by --output-file/.. is no longer refused")
    says_yes = truthy_atom(lambda e: isinstance(e, ast.Call) and isinstance(e.func, ast.Attribute) and e.func.attr == "startswith"
                           and len(e.args) == 1 and const(e.args[0]) == "y")
    is_len_ok = lambda e: isinstance(e, ast.Call) and dotted(e.func) == "len" and len(e.args) == 1
    je1 = cmp_atom(is_len_ok, lambda e: const(e) == 0)
    je2 = cmp_atom(lambda e: isinstance(e, ast.Name), lambda e: const(e) == "")
    just_enter = lambda e: je1(e) or je2(e)
    rs = g3.nodes(lambda s: isinstance(s, ast.Raise))
    avoid = set(g3.cond_edges(accept3, True)) | set(g3.cond_edges(says_yes, True)) | set(g3.cond_edges(just_enter, True))
    ok = bool(rs) and bool(g3.cond_edges(says_yes, True)) and g3.exit not in g3.reach(g3.entry, avoid_edges=avoid, explicit_only=True)
    rep.check("C05.R4", "the transfer proceeds only on a yes answer; anything else raises TransferRejectedError", ok, site(ap, RX),
              key="C05.R4:_ask_permission:answer")
    for m in ("_handle_file", "_handle_directory"):
        f = tree.func(RX, "Receiver", m)
        g4 = build(f)
        askn = g4.call_nodes(lambda c: dotted(c.func) == "self._ask_permission")
        ddn = g4.call_nodes(lambda c: dotted(c.func) == "self._decide_destname")
        ok = len(askn) == 1 and len(ddn) == 1 and g4.must_pass(askn) and not g4.precedes(ddn, askn)
        rep.check("C05.R4", "%s decides the destination, then asks permission, on every path that accepts the offer" % m, ok, site(f, RX),
                  key="C05.R4:%s:ask" % m)


def r5(tree, rep):
    """a refused offer writes nothing: every filesystem-creating call of the two offer handlers comes after _ask_permission()"""
    for m in ("_handle_file", "_handle_directory"):
        f = tree.func(RX, "Receiver", m)
        g = build(f)
        ask = g.call_nodes(lambda c: dotted(c.func) == "self._ask_permission")
        creates = g.call_nodes(lambda c: dotted(c.func) in ("open", "os.mkdir", "os.makedirs", "tempfile.SpooledTemporaryFile", "tempfile.NamedTemporaryFile")
                               and not (dotted(c.func) == "tempfile.SpooledTemporaryFile"))
        ok = len(ask) == 1 and not g.precedes(ask, creates)
        rep.check("C05.R5", "Receiver.%s creates nothing under the working directory before the offer was accepted" % m, ok, site(f, RX),
                  key="C05.R5:%s:create-after-permission" % m,
                  what="%s opens / creates a file before the user (or the free-space check) accepted the offer: a refused offer leaves "
                       "or truncates <name>.tmp" % m)


def run(tree, rep, tier):
    # a failure while unpacking one member (disk full, refused write) is a failed transfer: no handler in _extract_file / _write_directory turns
    # an exception of zf.extract / os.chmod / open / os.rename into a normal return
    from ..ctxmgr import swallowing_handlers
    for fname_ in ("_extract_file", "_write_directory", "_write_file", "_transfer_data"):
        fn_ = tree.func(RX, "Receiver", fname_)
        bad_ = swallowing_handlers(fn_, lambda c: isinstance(c.func, ast.Attribute) and c.func.attr in ("extract", "extractall", "chmod", "rename", "write", "open", "makedirs")
                                   or (isinstance(c.func, ast.Name) and c.func.id == "open"))
        rep.check("C05.R7", "Receiver.%s: no except-clause swallows a failure of writing / extracting / renaming" % fname_, not bad_,
                  site(bad_[0][0] if bad_ else fn_, RX), key="C05.R7:%s:no-swallow" % fname_,
                  what="Receiver.%s catches %s around %s and carries on: a member that could not be written is reported as a successful transfer" % (
                      fname_, ast.unparse(bad_[0][0].type) if bad_ and bad_[0][0].type is not None else "everything",
                      ast.unparse(bad_[0][1].func) if bad_ else "?"))
    from .. import ctxmgr
    ctxmgr.check_with_blocks(tree, rep, "C05.R6", ["src/wormhole/cli/cmd_receive.py"])
    r1(tree, rep)
    r2(tree, rep)
    r3(tree, rep)
    r4(tree, rep)
    r5(tree, rep)


MUTANTS = [
    Mutant("join-raw-name", RX, "            abs_destname = os.path.abspath(os.path.join(self.args.cwd, os.path.basename(destname)))",
           "            abs_destname = os.path.abspath(os.path.join(self.args.cwd, destname))", "C05.R1"),
    Mutant("normalise-after-basename", RX, "            abs_destname = os.path.abspath(os.path.join(self.args.cwd, os.path.basename(destname)))",
           "            name = os.path.basename(destname).strip()\n            abs_destname = os.path.abspath(os.path.join(self.args.cwd, name))", "C05.R1"),
    Mutant("dirname-used-directly", RX, "        f = tempfile.SpooledTemporaryFile(max_size=10*1000*1000)", "        os.makedirs(file_data[\"dirname\"], exist_ok=True)\n        f = tempfile.SpooledTemporaryFile(max_size=10*1000*1000)", ("C05.R1", "C05.R2")),
    Mutant("extractall", RX, "                for info in zf.infolist():\n                    self._extract_file(zf, info, self.abs_destname)", "                zf.extractall(self.abs_destname)", "C05.R2"),
    Mutant("no-zip-guard", RX, "        if not out_path.startswith(extract_dir + os.sep):\n            raise ValueError(\n                \"malicious zipfile, %s outside of extract_dir %s\" %\n                (info.filename, extract_dir))\n", "", "C05.R3"),
    Mutant("zip-guard-no-sep", RX, "        if not out_path.startswith(extract_dir + os.sep):", "        if not out_path.startswith(extract_dir):", "C05.R3"),
    Mutant("zip-guard-no-abspath", RX, "        out_path = os.path.abspath(out_path)\n", "", "C05.R3"),
    Mutant("rmtree-existing", RX, "        if os.path.isdir(path):\n            self._msg(f\"Not deleting existing directory: {path}\")\n            raise TransferRejectedError()",
           "        if os.path.isdir(path):\n            import shutil\n            shutil.rmtree(path)", ("C05.R2", "C05.R4")),
    Mutant("overwrite-always", RX, "        overwrite_allowed = False\n", "        overwrite_allowed = True\n", "C05.R4"),
    Mutant("remove-without-isfile", RX, "        if os.path.isfile(path):\n            os.remove(path)", "        os.remove(path)", "C05.R4"),
    Mutant("interactive-no-remove", RX, "                    if os.path.exists(self.abs_destname):\n                        self._remove_existing(self.abs_destname)\n                    break", "                    break", "C05.R4"),
    Mutant("exists-no-raise", RX, "                self._msg(\n                    f\"Error: refusing to overwrite existing {repr(destname)}\")\n                raise TransferRejectedError()",
           "                self._msg(\n                    f\"Warning: overwriting existing {repr(destname)}\")", "C05.R4"),
]
REWRITES = [
    Rewrite("basename-local", RX, "            abs_destname = os.path.abspath(os.path.join(self.args.cwd, os.path.basename(destname)))",
            "            base = os.path.basename(destname)\n            abs_destname = os.path.abspath(os.path.join(self.args.cwd, base))", desc="basename through a local"),
    Rewrite("zip-guard-positive", RX, "        if not out_path.startswith(extract_dir + os.sep):\n            raise ValueError(\n                \"malicious zipfile, %s outside of extract_dir %s\" %\n                (info.filename, extract_dir))\n\n        zf.extract(info.filename, path=extract_dir)\n\n        # not sure why zipfiles store the perms 16 bits away but they do\n        perm = info.external_attr >> 16\n        os.chmod(out_path, perm)",
            "        if out_path.startswith(extract_dir + os.sep):\n            zf.extract(info.filename, path=extract_dir)\n            perm = info.external_attr >> 16\n            os.chmod(out_path, perm)\n        else:\n            raise ValueError(\"malicious zipfile\")", desc="guard in positive form"),
]
