"""C07 — transit picks exactly one connection, chosen by the sender, key holders only."""
import ast

from ..srcmodel import AnalysisError, site
from ..astutil import dotted, const, params, local_defs, is_self_attr, calls_named, same_expr, walk_shallow, resolve_local
from ..dataflow import expand, call_arg
from ..effects import class_writers, is_const
from ..cfg import build, truthy_atom
from ..siblings import role_table, is_sender_test, eval_int
from ..selftest import Mutant, Rewrite

EXPLANATION = ("(R1) Common._winner is written once under its falsy guard; only that path returns \"go\"; a receiver always "
               "waits for the decision. (R2) _negotiationSuccessful is called only in state wait-for-decision after the literal "
               "go line matched, or in state go; those states come only from connection_ready, which is only reached after the "
               "peer's expected handshake matched. (R3) _check_and_remove is a stateless prefix comparison: divergence raises, "
               "short input returns False and every caller returns on False. (R4) 2x2 role table of the handshakes. (R5) "
               "connect() is bounded by _not_forever(2*TIMEOUT) around the race of all contenders, each connection arms its "
               "timeout, the winner cancels the losers exactly once. Byte-level races between live connections are not decided.")
TRUSTED_BASE = ["T1", "T2", "T4"]
MIN_OBLIGATIONS = 28

TR = "src/wormhole/transit.py"
CONN = "Connection"


def _ret_consts(g):
    out = {}
    for n in g.nodes(lambda s: isinstance(s, ast.Return)):
        v = g.stmt[n].value
        out.setdefault(const(v) if v is not None else None, []).append(n)
    return out


def r1(tree, rep):
    fn = tree.func(TR, "Common", "connection_ready")
    g = build(fn)
    rets = _ret_consts(g)
    ok = set(rets) == {"wait-for-decision", "nevermind", "go"}
    rep.check("C07.R1", "connection_ready answers exactly wait-for-decision / nevermind / go", ok, site(fn, TR), key="C07.R1:answers",
              what="connection_ready returns %s" % sorted(map(str, rets)))
    if not ok:
        return
    role = [n for n in g.nodes(lambda s: isinstance(s, ast.If)) if is_sender_test(g.stmt[n].test) is not None]
    ok = len(role) == 1
    if ok:
        pol = is_sender_test(g.stmt[role[0]].test)
        recv_lab, send_lab = ('F', 'T') if pol else ('T', 'F')
        sender_only = rets["go"] + rets["nevermind"]
        ok = g.branch_never_reaches(role[0], recv_lab, sender_only) and not g.guarded_by(role, sender_only, send_lab) \
            and g.branch_never_reaches(role[0], send_lab, rets["wait-for-decision"])
    rep.check("C07.R1", "a receiver always answers wait-for-decision; only a sender can answer go/nevermind", ok, site(fn, TR),
              key="C07.R1:role-split", what="the receiver side can declare a winner (or the sender waits for a decision nobody makes)")
    from ..cfg import object_atom
    gs = build(fn, split=True)
    has_winner = object_atom(lambda e: is_self_attr(e, "_winner"))
    go_rets = [n for n in gs.nodes(lambda s: isinstance(s, ast.Return)) if const(gs.stmt[n].value) == "go"]
    sets = gs.nodes(lambda s: isinstance(s, ast.Assign) and any(is_self_attr(t, "_winner") for t in s.targets))
    ok = len(sets) == 1 and bool(go_rets)
    if ok:
        n_have, bad = gs.when_never_reaches(has_winner, True, go_rets + sets)
        # with a winner: neither recorded again nor "go"; both only where "no winner yet" was established; recorded before "go"
        ok = n_have > 0 and not bad and not gs.only_when(go_rets + sets, has_winner, False) and not gs.precedes(sets, go_rets)
        v = gs.stmt[sets[0]].value
        ok = ok and isinstance(v, ast.Name) and v.id in params(fn)
    rep.check("C07.R1", "\"go\" is answered only on the path that records the winner, and only while no winner exists", ok, site(fn, TR),
              key="C07.R1:first-wins", what="a second connection can be told \"go\" (two winners), or go is answered without recording the winner")
    own, foreign = class_writers(tree, "Common", "_winner")
    ok = not foreign and all((w.fn == "__init__" and is_const(w.value, None)) or w.fn == "connection_ready" for w in own) and len(own) == 2
    rep.check("C07.R1", "Common._winner is written only by the constructor (None) and connection_ready", ok, TR, key="C07.R1:_winner:writers",
              what="Common._winner writers: %s" % [w.brief() for w in own + foreign])


def r2(tree, rep):
    fn = tree.func(TR, CONN, "_dataReceived")
    cls = tree.cls(TR, CONN)
    for m in cls.body:
        if isinstance(m, ast.FunctionDef):
            for c in calls_named(m, "self._negotiationSuccessful"):
                rep.check("C07.R2", "_negotiationSuccessful is called only from _dataReceived (here %s)" % m.name, m.name == "_dataReceived",
                          site(c, TR), key="C07.R2:caller:%s" % m.name)
    g = build(fn)
    succ = g.call_nodes(lambda c: dotted(c.func) == "self._negotiationSuccessful")
    rep.check("C07.R2", "exactly two call sites of _negotiationSuccessful", len(succ) == 2, site(fn, TR), key="C07.R2:two-sites")
    def state_tests(value):
        return [n for n in g.nodes(lambda s: isinstance(s, ast.If)) if isinstance(g.stmt[n].test, ast.Compare)
                and is_self_attr(g.stmt[n].test.left, "state") and isinstance(g.stmt[n].test.ops[0], ast.Eq)
                and const(g.stmt[n].test.comparators[0]) == value]
    wfd, go = state_tests("wait-for-decision"), state_tests("go")
    ok = len(wfd) == 1 and len(go) == 1 and not g.guarded_by(wfd + go, succ, 'T')
    rep.check("C07.R2", "_negotiationSuccessful is reachable only in state wait-for-decision or go", ok, site(fn, TR), key="C07.R2:state-guard",
              what="a connection can start exchanging records without the sender's decision")
    def check_calls(arg_pred):
        return g.call_nodes(lambda c: dotted(c.func) == "self._check_and_remove" and len(c.args) == 1 and arg_pred(c.args[0]))
    go_checks = [n for n in check_calls(lambda a: const(a) == b"go\n")]
    ok = len(go_checks) == 1 and isinstance(g.stmt[go_checks[0]], ast.If)
    if ok and len(wfd) == 1:
        # inside the wait-for-decision branch, success is reachable only through the check's success edge
        lab = 'F' if isinstance(g.stmt[go_checks[0]].test, ast.UnaryOp) else 'T'
        in_wfd = [s for s in succ if s in g.reach(g.branch_targets(wfd[0], 'T'), avoid_nodes=go)]
        ok = len(in_wfd) == 1 and not g.guarded_by(go_checks, in_wfd, lab) and go_checks[0] in g.reach(g.branch_targets(wfd[0], 'T'))
    rep.check("C07.R2", "the receiver proceeds only after the literal b\"go\\n\" matched", ok, site(fn, TR), key="C07.R2:receiver-needs-go",
              what="a receiver connection can be selected without (or with a different) sender decision")
    # sender: writes go then succeeds
    if len(go) == 1:
        writes = g.call_nodes(lambda c: dotted(c.func) == "self.transport.write" and (const(expand(fn, c.args[0])) == b"go\n"))
        in_go = [s for s in succ if s in g.reach(g.branch_targets(go[0], 'T'))]
        ok = len(writes) == 1 and bool(in_go) and not g.precedes(writes, in_go)
        rep.check("C07.R2", "the sender writes b\"go\\n\" before using the connection", ok, site(fn, TR), key="C07.R2:sender-writes-go")
    # states go / wait-for-decision / nevermind are never assigned literally
    own, foreign = class_writers(tree, CONN, "state")
    lit = [w for w in own + foreign if isinstance(const(w.value), str) and const(w.value) in ("go", "wait-for-decision", "nevermind", "records")
           and not (const(w.value) == "records" and w.fn == "_negotiationSuccessful")]
    rep.check("C07.R2", "the decision states are never assigned as literals (they come from connection_ready only)", not lit,
              lit[0].site if lit else TR, key="C07.R2:literal-decision-state")
    cr = [w for w in own if isinstance(w.value, ast.Call) and dotted(w.value.func) == "self.owner.connection_ready"]
    ok = len(cr) == 1 and cr[0].fn == "_dataReceived"
    if ok:
        exp_checks = check_calls(lambda a: isinstance(a, ast.Call) and dotted(a.func) == "self.owner._expect_this")
        crn = [g.node_of(cr[0].node)]
        ok = len(exp_checks) == 1 and isinstance(g.stmt[exp_checks[0]], ast.If) and crn[0] is not None
        if ok:
            lab = 'F' if isinstance(g.stmt[exp_checks[0]].test, ast.UnaryOp) else 'T'
            ok = not g.guarded_by(exp_checks, crn, lab)
    rep.check("C07.R2", "connection_ready is consulted only after the peer's expected handshake matched", ok, site(fn, TR),
              key="C07.R2:ready-needs-handshake", what="a connection can become a contender without presenting the correct handshake")
    for m in cls.body:
        if isinstance(m, ast.FunctionDef):
            for c in calls_named(m, "self.owner.connection_ready"):
                rep.check("C07.R2", "connection_ready is called only from _dataReceived (here %s)" % m.name, m.name == "_dataReceived",
                          site(c, TR), key="C07.R2:ready-caller:%s" % m.name)


def r3(tree, rep):
    fn = tree.func(TR, CONN, "_check_and_remove")
    p = params(fn)
    attrs = {n.attr for n in ast.walk(fn) if is_self_attr(n)}
    rep.check("C07.R3", "_check_and_remove is stateless apart from the receive buffer (self attributes used: %s)" % sorted(attrs),
              attrs == {"buf"}, site(fn, TR), key="C07.R3:stateless",
              what="the handshake comparison depends on state carried across calls (%s): bytes can escape comparison" % sorted(attrs - {"buf"}))
    from ..cfg import truthy_atom, cmp_atom, ge_atom
    g = build(fn, split=True)
    rs = lambda e: expand(fn, e) if isinstance(e, ast.Name) and e.id != p[0] else e       # locals such as received = len(self.buf)
    buf = lambda x: is_self_attr(rs(x), "buf")
    exp = lambda x: isinstance(rs(x), ast.Name) and rs(x).id == p[0]

    def head_of(x, base, other):
        """x is base[:len(other)]"""
        x = rs(x)
        if not (isinstance(x, ast.Subscript) and isinstance(x.slice, ast.Slice) and x.slice.lower is None and x.slice.step is None
                and x.slice.upper is not None and base(x.value)):
            return False
        u = rs(x.slice.upper)
        return isinstance(u, ast.Call) and dotted(u.func) == "len" and len(u.args) == 1 and other(u.args[0])

    def _startswith(t):
        # buf.startswith(expected[:len(buf)])  /  expected.startswith(buf[:len(expected)])
        if isinstance(t, ast.Call) and isinstance(t.func, ast.Attribute) and t.func.attr == "startswith" and len(t.args) == 1:
            a, b = t.func.value, t.args[0]
            return (buf(a) and head_of(b, exp, buf)) or (exp(a) and head_of(b, buf, exp))
        return False
    a_sw = truthy_atom(_startswith)
    # buf[:len(expected)] == expected[:len(buf)]
    a_eq = cmp_atom(lambda e: head_of(e, buf, exp), lambda e: head_of(e, exp, buf))
    agrees = lambda e: a_sw(e) or a_eq(e)
    ok = bool(g.cond_edges(agrees, True)) and g.when_always_raises(agrees, False) and not g.only_when([g.exit], agrees, True)
    rep.check("C07.R3", "_check_and_remove raises as soon as the buffer diverges from the expected bytes (full prefix comparison)", ok,
              site(fn, TR), key="C07.R3:divergence-raises", what="received bytes that differ from the expected handshake are not rejected")
    is_len = lambda pred: (lambda e: isinstance(rs(e), ast.Call) and dotted(rs(e).func) == "len" and len(rs(e).args) == 1 and pred(rs(e).args[0]))
    complete = ge_atom(is_len(buf), is_len(exp))
    rets = _ret_consts(g)
    ok = True in rets and False in rets and bool(g.cond_edges(complete, False)) and not g.only_when(rets[True], complete, True)
    rep.check("C07.R3", "_check_and_remove answers True only when at least len(expected) bytes arrived (else False: keep waiting)", ok,
              site(fn, TR), key="C07.R3:complete-before-true")
    # consumption: buf = buf[len(expected):]
    cons = [n for n in ast.walk(fn) if isinstance(n, ast.Assign) and any(is_self_attr(t, "buf") for t in n.targets)]
    ok = len(cons) == 1 and isinstance(cons[0].value, ast.Subscript) and buf(cons[0].value.value) \
        and isinstance(cons[0].value.slice, ast.Slice) and cons[0].value.slice.upper is None and cons[0].value.slice.lower is not None \
        and is_len(exp)(cons[0].value.slice.lower)
    rep.check("C07.R3", "_check_and_remove consumes exactly the matched bytes", ok, site(fn, TR), key="C07.R3:consume")
    dr = tree.func(TR, CONN, "_dataReceived")
    gd = build(dr, split=True)
    n = 0
    for c in calls_named(dr, "self._check_and_remove"):
        n += 1
        arrived = truthy_atom(lambda e, c=c: e is c)
        edges = gd.cond_edges(arrived, False)
        ok = bool(edges)
        for (x, y, lab) in edges:
            # "not yet": nothing else happens in this call of _dataReceived
            for m in gd.reach([y], explicit_only=True):
                st = gd.stmt[m]
                ok = ok and (m == gd.exit or isinstance(st, (ast.Return, ast.Pass)))
        rep.check("C07.R3", "_dataReceived returns (keeps waiting) when _check_and_remove(%s) says not yet" % ast.unparse(c.args[0])[:30], ok,
                  site(c, TR), key="C07.R3:caller-returns:%d" % n)
    rep.check("C07.R3", "the relay reply, the peer handshake and the go line are each verified through _check_and_remove (%d sites)" % n,
              n >= 3, site(dr, TR), key="C07.R3:call-sites", what="only %d of the three expected byte strings are still verified" % n)


def _hs_ctx(tree, fname):
    fn = tree.func(TR, None, fname)
    hk = [c for c in ast.walk(fn) if isinstance(c, ast.Call) and dotted(c.func) == "HKDF"]
    if len(hk) != 1:
        return None
    k = call_arg(hk[0], 0, "skm")
    ctx = call_arg(hk[0], 3, "CTXinfo")
    if isinstance(k, ast.Name) and k.id == params(fn, False)[0] and isinstance(const(ctx), bytes):
        rets = [r for r in ast.walk(fn) if isinstance(r, ast.Return)]
        v = expand(fn, rets[0].value) if len(rets) == 1 else None
        uses = v is not None and any(isinstance(x, ast.Call) and dotted(x.func) == "HKDF" for x in ast.walk(v))
        return const(ctx) if uses else None
    return None


def r4(tree, rep):
    tabs = {}
    for name in ("_send_this", "_expect_this"):
        fn = tree.func(TR, "Common", name)
        t = role_table(fn, is_sender_test, TR)
        row = {}
        for role, e in t.items():
            ok = isinstance(e, ast.Call) and dotted(e.func) in ("build_sender_handshake", "build_receiver_handshake") \
                and len(e.args) == 1 and is_self_attr(e.args[0], "_transit_key")
            row[role] = dotted(e.func) if ok else None
        tabs[name] = row
        rep.check("C07.R4", "Common.%s builds a handshake from self._transit_key in both roles" % name, None not in row.values(), site(fn, TR),
                  key="C07.R4:%s:shape" % name)
    s, e = tabs["_send_this"], tabs["_expect_this"]
    if None not in list(s.values()) + list(e.values()):
        rep.check("C07.R4", "what the sender sends is what the receiver expects", s[True] == e[False], TR, key="C07.R4:sender->receiver")
        rep.check("C07.R4", "what the receiver sends is what the sender expects", s[False] == e[True], TR, key="C07.R4:receiver->sender")
        rep.check("C07.R4", "a role does not expect its own handshake", s[True] != e[True] and s[False] != e[False], TR, key="C07.R4:not-own")
    a, b = _hs_ctx(tree, "build_sender_handshake"), _hs_ctx(tree, "build_receiver_handshake")
    rep.check("C07.R4", "the two handshakes are HKDF(key, .., distinct contexts) (%s / %s)" % (a, b), a is not None and b is not None and a != b, TR,
              key="C07.R4:contexts")


def r5(tree, rep):
    consts = tree.module_constants(TR)
    TIMEOUT = eval_int(consts.get("TIMEOUT")) if "TIMEOUT" in consts else None
    if TIMEOUT is None:
        raise AnalysisError("transit.TIMEOUT is not an integer constant")
    fn = tree.func(TR, "Common", "_connect")
    rets = [r for r in walk_shallow(fn) if isinstance(r, ast.Return)]
    ok = bool(rets)
    for r in rets:
        v = r.value
        good = isinstance(v, ast.Call) and dotted(v.func) == "self._not_forever" and len(v.args) == 2
        if good:
            k = eval_int(expand(fn, v.args[0]), {"TIMEOUT": TIMEOUT})
            w = resolve_local(fn, v.args[1])
            good = k is not None and k > 0 and isinstance(w, ast.Call) and dotted(w.func) == "there_can_be_only_one" \
                and isinstance(w.args[0], ast.Name) and w.args[0].id == "contenders"
            if good:
                # the overall deadline is of the order of the per-connection negotiation timeout (at least one of them, so a slow but
                # live negotiation can finish; at most ten, so "by its deadline" still means minutes, not an effectively endless wait)
                rep.check("C07.R5", "the deadline around the race evaluates to %s s: between one and ten per-connection timeouts (TIMEOUT = %s s)" % (k, TIMEOUT),
                          TIMEOUT <= k <= 10 * TIMEOUT, site(v, TR), key="C07.R5:_connect:deadline-magnitude",
                          what="the deadline around the whole race evaluates to %s seconds (per-connection timeout: %s s): connect() effectively "
                               "hangs when nothing can be negotiated, or gives up before a single negotiation may finish" % (k, TIMEOUT))
        ok = ok and good
    rep.check("C07.R5", "Common._connect returns only _not_forever(<deadline>, there_can_be_only_one(contenders))", ok, site(fn, TR),
              key="C07.R5:_connect:deadline", what="connect() is no longer bounded by a deadline around the whole race (it can hang)")
    cls_node = tree.cls(TR, "Common")
    methods = {m.name: m for m in cls_node.body if isinstance(m, ast.FunctionDef)}

    def elements_of(f, name, depth=0):
        """expressions appended to the local list `name` of f, following extend() of local lists and of lists returned
        by methods of the same class"""
        out = []
        if depth > 4:
            return out
        for c in ast.walk(f):
            if not (isinstance(c, ast.Call) and isinstance(c.func, ast.Attribute) and isinstance(c.func.value, ast.Name)
                    and c.func.value.id == name and c.args):
                continue
            if c.func.attr == "append":
                a0 = c.args[0]
                if isinstance(a0, ast.Name) and local_defs(f, a0.id):
                    out.extend(d for d in local_defs(f, a0.id) if isinstance(d, ast.AST))
                else:
                    out.append(a0)
            elif c.func.attr == "extend":
                src = c.args[0]
                if isinstance(src, ast.Name):
                    defs = [d for d in local_defs(f, src.id) if isinstance(d, ast.AST)]
                    out.extend(elements_of(f, src.id, depth + 1))
                    for d in defs:
                        if isinstance(d, ast.Name):          # an alias of another local list
                            out.extend(elements_of(f, d.id, depth + 1))
                    srcs_ = [d for d in defs if isinstance(d, ast.Call)]
                else:
                    srcs_ = [src] if isinstance(src, ast.Call) else []
                for d in srcs_:
                    dn = dotted(d.func) or ""
                    if dn.startswith("self.") and dn.split(".")[1] in methods:
                        m = methods[dn.split(".")[1]]
                        for r in [r for r in walk_shallow(m) if isinstance(r, ast.Return)]:
                            if isinstance(r.value, ast.Name):
                                out.extend(elements_of(m, r.value.id, depth + 1))
        return out
    cands = elements_of(fn, "contenders")
    srcs = set()
    for a in cands:
        if is_self_attr(a, "_listener_d"):
            srcs.add("listener")
        elif isinstance(a, ast.Call) and dotted(a.func) == "self._start_connector":
            srcs.add("direct")
        elif isinstance(a, ast.Call) and (dotted(a.func) or "").endswith("deferLater") and any(dotted(x) == "self._start_connector" for x in a.args):
            srcs.add("relay")
    rep.check("C07.R5", "the race includes the listener, every direct connector and every relay connector", srcs == {"listener", "direct", "relay"},
              site(fn, TR), key="C07.R5:_connect:contenders", what="contender kinds found: %s" % sorted(srcs))
    nf = tree.func(TR, "Common", "_not_forever")
    cl = [c for c in ast.walk(nf) if isinstance(c, ast.Call) and (dotted(c.func) or "").endswith(".callLater")]
    ok = len(cl) == 1 and isinstance(cl[0].args[0], ast.Name) and cl[0].args[0].id == params(nf)[0] \
        and dotted(cl[0].args[1]) == params(nf)[1] + ".cancel"
    rets = [r for r in walk_shallow(nf) if isinstance(r, ast.Return)]
    ok = ok and len(rets) == 1 and isinstance(rets[0].value, ast.Name) and rets[0].value.id == params(nf)[1]
    rep.check("C07.R5", "_not_forever arms callLater(timeout, d.cancel) and returns d", ok, site(nf, TR), key="C07.R5:_not_forever")
    cm = tree.func(TR, CONN, "connectionMade")
    st = [c for c in ast.walk(cm) if isinstance(c, ast.Call) and dotted(c.func) == "self.setTimeout"]
    ok = len(st) == 1 and (eval_int(st[0].args[0], {"TIMEOUT": TIMEOUT}) or 0) > 0
    g = build(cm)
    ok = ok and g.must_pass(g.call_nodes(lambda c: dotted(c.func) == "self.setTimeout"))
    rep.check("C07.R5", "every connection arms its negotiation timeout in connectionMade", ok, site(cm, TR), key="C07.R5:connectionMade:timeout")
    tc = tree.func(TR, CONN, "timeoutConnection")
    rep.check("C07.R5", "a negotiation timeout drops the connection", bool(calls_named(tc, "self.transport.loseConnection")), site(tc, TR),
              key="C07.R5:timeoutConnection")
    sc = tree.func(TR, "_ThereCanBeOnlyOne", "_succeeded")
    loops = [lp for lp in ast.walk(sc) if isinstance(lp, ast.For) and any(is_self_attr(x, "_remaining") for x in ast.walk(lp.iter))
             and any(isinstance(c, ast.Call) and isinstance(c.func, ast.Attribute) and c.func.attr == "cancel" for c in ast.walk(lp))]
    rep.check("C07.R5", "_ThereCanBeOnlyOne._succeeded cancels every remaining contender", len(loops) == 1, site(sc, TR), key="C07.R5:_succeeded:cancel",
              what="losing connections are not cancelled when a winner appears")
    md = tree.func(TR, "_ThereCanBeOnlyOne", "_maybe_done")
    from ..cfg import truthy_atom
    g = build(md, split=True)
    fired = truthy_atom(lambda e: is_self_attr(e, "_fired"))
    remaining = truthy_atom(lambda e: is_self_attr(e, "_remaining"))
    fired_s = g.nodes(lambda s: isinstance(s, ast.Assign) and any(is_self_attr(t, "_fired") for t in s.targets) and const(s.value) is True)
    fire = g.call_nodes(lambda c: dotted(c.func) in ("self._winner_d.callback", "self._winner_d.errback"))
    ok = len(fired_s) == 1 and len(fire) == 2 and not g.only_when(fire, fired, False) and not g.precedes(fired_s, fire) \
        and not g.only_when(fire, remaining, False)
    rep.check("C07.R5", "_maybe_done fires the summary Deferred at most once, and only when no contender remains", ok, site(md, TR),
              key="C07.R5:_maybe_done:once")
    own, foreign = class_writers(tree, "_ThereCanBeOnlyOne", "_fired")
    rep.check("C07.R5", "_fired is a write-once latch", not foreign and all((w.fn == "__init__" and is_const(w.value, False)) or
              (w.fn == "_maybe_done" and is_const(w.value, True)) for w in own), TR, key="C07.R5:_fired:writers")
    ps = tree.func(TR, "InboundConnectionFactory", "_proto_succeeded")
    g = build(ps)
    sh = g.call_nodes(lambda c: dotted(c.func) == "self._shutdown")
    cb = g.call_nodes(lambda c: dotted(c.func) == "self._inbound_d.callback")
    ok = len(sh) == 1 and len(cb) == 1 and g.must_pass(sh) and g.must_pass(cb)
    rep.check("C07.R5", "the listener's first successful negotiation shuts the other pending negotiations down", ok, site(ps, TR),
              key="C07.R5:_proto_succeeded")
    sd = tree.func(TR, "InboundConnectionFactory", "_shutdown")
    loops = [lp for lp in ast.walk(sd) if isinstance(lp, ast.For) and any(is_self_attr(x, "_pending_connections") for x in ast.walk(lp.iter))
             and any(isinstance(c, ast.Call) and isinstance(c.func, ast.Attribute) and c.func.attr == "cancel" for c in ast.walk(lp))]
    rep.check("C07.R5", "InboundConnectionFactory._shutdown cancels every pending negotiation", len(loops) == 1, site(sd, TR), key="C07.R5:_shutdown")
    cw = tree.func(TR, "InboundConnectionFactory", "connectionWasMade")
    ok = bool(calls_named(cw, "self._pending_connections.add")) and bool(calls_named(cw, "p.startNegotiation"))
    rep.check("C07.R5", "every inbound connection's negotiation is tracked as pending", ok, site(cw, TR), key="C07.R5:connectionWasMade")
    ca = tree.func(TR, CONN, "_cancel")
    g = build(ca)
    lose = g.call_nodes(lambda c: dotted(c.func) == "self.transport.loseConnection")
    rep.check("C07.R5", "cancelling a negotiation closes its connection", bool(lose) and g.must_pass(lose), site(ca, TR), key="C07.R5:_cancel:lose")


def race_discipline(tree, rep, rule="C07.R5"):
    """_ThereCanBeOnlyOne: contenders may fire synchronously while they are being wired (a peer that finished on our listening
    socket before connect(), a hint whose endpoint fails at once).  So (a) the set of remaining contenders holds ALL of them before
    the first callback is attached, (b) every loop whose body can fire a contender walks a copy of that set."""
    cls = "_ThereCanBeOnlyOne"
    own, foreign = class_writers(tree, cls, "_remaining")
    init = tree.func(TR, cls, "__init__")
    ip = params(init)
    ok = not foreign and bool(own)
    for w in own:
        if w.fn == "__init__" and w.kind == "assign":
            v = w.value
            ok = ok and isinstance(v, ast.Call) and dotted(v.func) in ("set", "list") and len(v.args) == 1 and isinstance(v.args[0], ast.Name) \
                and v.args[0].id in ip
        elif w.kind in ("call:remove", "call:discard"):
            pass
        else:
            ok = False
    rep.check(rule, "%s._remaining holds every contender from the constructor on and is only ever shrunk" % cls, ok and any(w.fn == "__init__" for w in own),
              site(init, TR), key="%s:race:remaining-complete" % rule,
              what="a contender that fails synchronously while the race is being wired can end the race although others are still to be tried "
                   "(writers: %s)" % [w.brief() for w in own + foreign])
    c = tree.cls(TR, cls)
    n = 0
    for m in c.body:
        if not isinstance(m, ast.FunctionDef):
            continue
        for lp in [x for x in ast.walk(m) if isinstance(x, ast.For)]:
            touches = any(is_self_attr(x, "_remaining") for x in ast.walk(lp.iter))
            fires = any(isinstance(x, ast.Call) and isinstance(x.func, ast.Attribute) and x.func.attr in (
                "addCallback", "addCallbacks", "addBoth", "addErrback", "cancel", "callback", "errback") for b in lp.body for x in ast.walk(b))
            if touches and fires:
                n += 1
                it = lp.iter
                copied = isinstance(it, ast.Call) and dotted(it.func) in ("list", "tuple", "sorted", "set", "frozenset") and len(it.args) == 1
                rep.check(rule, "%s.%s walks a copy of _remaining while it attaches callbacks / cancels" % (cls, m.name), copied, site(lp, TR),
                          key="%s:race:iterate-copy:%s" % (rule, m.name),
                          what="%s.%s iterates self._remaining itself while its body can fire a contender, which removes it from that set "
                               "(RuntimeError: Set changed size during iteration escapes connect())" % (cls, m.name))
    if n < 2:
        raise AnalysisError("%s: fewer loops over _remaining than expected (%d)" % (cls, n))
    # one wiring loop: the callback that takes a contender out of _remaining and the callbacks that record its outcome are
    # attached in the same iteration (a contender that has already fired runs them at once, in this order)
    run = tree.func(TR, cls, "run")
    def attaches(lp, name):
        return any(isinstance(x, ast.Call) and isinstance(x.func, ast.Attribute) and x.func.attr in ("addCallback", "addCallbacks", "addBoth", "addErrback")
                   and any(is_self_attr(a, name) or (isinstance(a, ast.Name) and a.id == name) for a in x.args) for b in lp.body for x in ast.walk(b))
    loops = [lp for lp in ast.walk(run) if isinstance(lp, ast.For)]
    rem = [lp for lp in loops if attaches(lp, "_remove")]
    ok = len(rem) == 1 and all(attaches(rem[0], nm) for nm in ("_succeeded", "_failed", "_maybe_done")) and \
        not any(attaches(lp, nm) for lp in loops if lp is not rem[0] for nm in ("_succeeded", "_failed", "_maybe_done"))
    rep.check(rule, "%s.run wires _remove, _succeeded/_failed and _maybe_done on a contender in one loop iteration" % cls, ok, site(run, TR),
              key="%s:race:single-wiring-loop" % rule,
              what="a contender that fired before run() takes itself out of _remaining before its outcome callbacks are attached: "
                   "its result is ignored (connect() fails although the sender already said go on that link)")


def r6(tree, rep):
    """the listening port is closed whatever ends the listener contender - an inbound winner (callback) or its cancellation
    by another winner / the deadline (errback): the stop is attached with addBoth"""
    fn = tree.func(TR, "Common", "_get_direct_hints")
    from ..astutil import callback_function, enclosing_function
    cm = tree.methods(TR, "Common")
    sites = [c for m_ in cm.values() for c in ast.walk(m_) if isinstance(c, ast.Call) and isinstance(c.func, ast.Attribute)
             and is_self_attr(c.func.value, "_listener_d") and c.func.attr in ("addBoth", "addCallback", "addErrback", "addCallbacks")]
    def stops(cb, at):
        f = callback_function(cb, enclosing_function(at), cm)
        if f is None:
            # a closure of an outer function
            outer = enclosing_function(at)
            while outer is not None and f is None:
                f = callback_function(cb, outer, cm)
                outer = enclosing_function(outer)
        return f is not None and any(isinstance(x, ast.Call) and isinstance(x.func, ast.Attribute) and x.func.attr == "stopListening" for x in ast.walk(f))
    stop_sites = [c for c in sites if c.args and stops(c.args[0], c)]
    ok = len(stop_sites) == 1 and (stop_sites[0].func.attr == "addBoth" or (
        stop_sites[0].func.attr == "addCallbacks" and len(stop_sites[0].args) >= 2 and stops(stop_sites[0].args[1], stop_sites[0])))
    rep.check("C07.R6", "the listener contender stops listening on success AND on cancellation (addBoth)", ok,
              site(stop_sites[0] if stop_sites else fn, TR), key="C07.R6:listener:stop-on-both",
              what="after connect() finished (another winner, or the deadline) the port keeps listening: a late peer is still accepted, "
                   "told go, and never returned or closed")


def r8_cancel_and_listener(tree, rep):
    """(a) cancelling a negotiation (the deadline, a winner elsewhere) makes the connection deaf at once: Connection._cancel puts it into the
    state in which _dataReceived ignores everything, in the same call that asks the transport to close - bytes already in flight when
    the cancel happens must not be able to complete a handshake.  (b) the listener's Deferred is a contender of the race whenever a
    listener exists - also when it has already fired (an inbound connection that won before connect() was called IS the result)"""
    dr = tree.func(TR, "Connection", "_dataReceived")
    g = build(dr, split=True)
    terminal = []
    for n in g.nodes(lambda st: isinstance(st, ast.If)):
        t = g.stmt[n].test if not isinstance(g.stmt[n], tuple) else None
        if isinstance(t, ast.Compare) and is_self_attr(t.left, "state") and len(t.ops) == 1 and isinstance(t.ops[0], ast.Eq) \
                and isinstance(const(t.comparators[0]), str):
            body = g.stmt[n].body
            if len(body) == 1 and isinstance(body[0], ast.Return) and body[0].value is None:
                terminal.append(const(t.comparators[0]))
    if len(terminal) != 1:
        raise AnalysisError("Connection._dataReceived: cannot identify the terminal (ignore everything) state: %s" % terminal)
    cn = tree.func(TR, "Connection", "_cancel")
    gc = build(cn)
    sets = gc.nodes(lambda st: isinstance(st, ast.Assign) and any(is_self_attr(t, "state") for t in st.targets) and const(st.value) == terminal[0])
    lose = gc.call_nodes(lambda c: (dotted(c.func) or "").endswith(".loseConnection"))
    rep.check("C07.R8", "Connection._cancel enters the terminal state %r on every path, in the call that closes the transport" % terminal[0],
              bool(sets) and gc.must_pass(sets) and bool(lose) and gc.must_pass(lose), site(cn, TR), key="C07.R8:_cancel:terminal-state",
              what="a cancelled negotiation keeps reacting to bytes that are already in flight: a handshake arriving between loseConnection() and "
                   "connectionLost() can still be answered with `go` after connect() has failed")
    co = tree.func(TR, "Common", "_connect")
    g2 = build(co, split=True)
    apps = g2.call_nodes(lambda c: isinstance(c.func, ast.Attribute) and c.func.attr == "append" and c.args and is_self_attr(c.args[0], "_listener_d"))
    ok = len(apps) == 1
    if ok:
        exists = truthy_atom(lambda e: is_self_attr(e, "_listener_d"))
        # reachable whenever the listener exists: no edge other than "the listener does not exist" leads around it
        r = g2.reach_feasible(g2.entry, avoid_nodes=set(apps), avoid_edges=set(g2.cond_edges(exists, False)))
        ok = g2.exit not in r
    rep.check("C07.R8", "Common._connect enters the listener's Deferred into the race whenever a listener exists (no further condition)", ok, site(co, TR),
              key="C07.R8:_connect:listener-contender",
              what="the listener's Deferred is left out of the race under some condition (e.g. when it has already fired): an inbound connection that was "
                   "confirmed before connect() was called is not the result of connect()")


def every_attempt_is_a_contender(tree, rep, rule="C07.R10"):
    """every connection attempt Common._connect starts (directly or through deferLater) is entered into the race before the next attempt
    is started or the loop moves on: an attempt that is dialled but not registered can complete its handshake, be told "go" by
    connection_ready and carry on as the Sender's link although connect() never returns it - while a registered one gets "nevermind"."""
    fn = tree.func(TR, "Common", "_connect")
    g = build(fn)

    def starts(s):
        return isinstance(s, ast.Assign) and len(s.targets) == 1 and isinstance(s.targets[0], ast.Name) and any(
            (isinstance(x, ast.Attribute) and x.attr == "_start_connector") for x in ast.walk(s.value))
    created = g.nodes(starts)
    ok = bool(created)
    bad = None
    for c in created:
        v = g.stmt[c].targets[0].id
        apps = g.call_nodes(lambda k, v=v: isinstance(k.func, ast.Attribute) and k.func.attr == "append" and len(k.args) == 1
                            and isinstance(k.args[0], ast.Name) and k.args[0].id == v)
        nxt = [y for (y, lab) in g.succ[c] if lab != 'exc']
        r = g.reach(nxt, avoid_nodes=set(apps), explicit_only=True)
        if g.exit in r or (set(created) & r):
            ok = False
            bad = bad or g.stmt[c]
    rep.check(rule, "Common._connect: each of the %d places that start a connection attempt appends it to the contenders before another "
              "attempt starts or the function returns" % len(created), ok, site(bad or fn, TR), key="%s:_connect:every-attempt-registered" % rule,
              what="Common._connect starts a connection attempt that is not (always) entered into the race: with two relays of one priority tier "
                   "only the last is a contender - the other can still win the Sender's 'go' and become a link connect() never returns")


def contenders_stay_failed(tree, rep, rule="C07.R9"):
    """every Deferred that joins the race succeeds only with a negotiated connection: a connection attempt that FAILED (refused, DNS,
    bad handshake, cancelled) must stay failed.  there_can_be_only_one takes the first success as the winner and cancels everyone else,
    so an errback stage that swallows a failure (falls off its end, returns f.trap(..)'s class, log.err) makes a dead hint win: connect()
    returns None or an exception class and the viable contenders are cancelled."""
    from ..deferredchain import failure_to_success_stages, stages
    from ..astutil import callback_function
    methods = tree.methods(TR, "Common")
    n = 0
    for fname in ("_start_connector", "_connect"):
        fn = tree.func(TR, "Common", fname)
        dvars = sorted({t.id for a in ast.walk(fn) if isinstance(a, ast.Assign) for t in a.targets if isinstance(t, ast.Name)
                        and stages(fn, t.id)})
        for v in dvars:
            bad = failure_to_success_stages(fn, v, lambda e: callback_function(e, fn, methods))
            n += len(stages(fn, v))
            rep.check(rule, "Common.%s: no stage of the callback chain on `%s` (%d stage(s)) turns a failed attempt into a success" % (fname, v, len(stages(fn, v))),
                      not bad, site(bad[0] if bad else fn, TR), key="%s:%s:%s:failure-preserved" % (rule, fname, v),
                      what="Common.%s: the errback `%s` can end without re-raising / returning the failure: a connection attempt that failed "
                           "(refused, DNS error) becomes a SUCCESS of the race with a result that is no connection - the dead hint wins, every "
                           "viable contender is cancelled and connect() returns %s" % (fname, ast.unparse(bad[0])[:90] if bad else "", "None / an exception class"))
    sc = tree.func(TR, "Common", "_start_connector")
    rep.check(rule, "Common._start_connector builds its contender as a callback chain on ep.connect(..) (%d stage(s) examined)" % n, n >= 1 and
              any(isinstance(c, ast.Attribute) and c.attr == "connect" for c in ast.walk(sc)), site(sc, TR), key="%s:_start_connector:shape" % rule)


def run(tree, rep, tier):
    r8_cancel_and_listener(tree, rep)
    from .. import ctxmgr
    ctxmgr.check_with_blocks(tree, rep, "C07.R7", ["src/wormhole/transit.py"])
    from .. import sharedstate
    sharedstate.check(tree, rep, "C07.R0")
    r1(tree, rep)
    r2(tree, rep)
    r3(tree, rep)
    r4(tree, rep)
    r5(tree, rep)
    race_discipline(tree, rep)
    r6(tree, rep)
    contenders_stay_failed(tree, rep)
    every_attempt_is_a_contender(tree, rep)


MUTANTS = [
    Mutant("go-without-guard", TR, "        if self._winner:\n            # we already have a winner, so this one loses\n            return \"nevermind\"\n", "", "C07.R1"),
    Mutant("receiver-decides", TR, "        if not self.is_sender:\n            return \"wait-for-decision\"\n", "", "C07.R1"),
    Mutant("receiver-skips-go", TR, "        if self.state == \"wait-for-decision\":\n            if not self._check_and_remove(b\"go\\n\"):\n                return\n            self._negotiationSuccessful()",
           "        if self.state == \"wait-for-decision\":\n            self._negotiationSuccessful()", "C07.R2"),
    Mutant("success-after-handshake", TR, "            self.state = self.owner.connection_ready(self)\n", "            self.state = self.owner.connection_ready(self)\n            self._negotiationSuccessful()\n", "C07.R2"),
    Mutant("check-lengths-only", TR, "        if not self.buf.startswith(expected[:len(self.buf)]):\n            raise BadHandshake(f\"got {self.buf!r} want {expected!r}\")\n", "", "C07.R3"),
    Mutant("check-offset-state", TR, "        if not self.buf.startswith(expected[:len(self.buf)]):", "        self._checked = len(self.buf)\n        if not self.buf.startswith(expected[:len(self.buf)]):", "C07.R3"),
    Mutant("expect-own-handshake", TR, "    def _expect_this(self):\n        assert self._transit_key\n        if self.is_sender:\n            return build_receiver_handshake(self._transit_key)",
           "    def _expect_this(self):\n        assert self._transit_key\n        if self.is_sender:\n            return build_sender_handshake(self._transit_key)", "C07.R4"),
    Mutant("connect-no-deadline", TR, "        return self._not_forever(2 * TIMEOUT, winner)", "        return winner", "C07.R5"),
    Mutant("deadline-listener-only", TR, "        winner = there_can_be_only_one(contenders)\n        return self._not_forever(2 * TIMEOUT, winner)",
           "        if self._listener_d:\n            self._not_forever(2 * TIMEOUT, self._listener_d)\n        winner = there_can_be_only_one(contenders)\n        return winner", "C07.R5"),
    Mutant("succeeded-no-cancel", TR, "        self._first_success = res\n        for d in list(self._remaining):\n            d.cancel()", "        self._first_success = res", "C07.R5"),
    Mutant("no-conn-timeout", TR, "        self.setTimeout(TIMEOUT)  # does timeoutConnection() when it expires\n", "", "C07.R5"),
    Mutant("ready-before-handshake", TR, "            if not self._check_and_remove(self.owner._expect_this()):\n                return\n            self.state = self.owner.connection_ready(self)",
           "            self.state = self.owner.connection_ready(self)", "C07.R2"),
]
REWRITES = [
    Rewrite("winner-is-not-none", TR, "        if self._winner:\n            # we already have a winner", "        if self._winner is not None:\n            # we already have a winner", desc="explicit None test"),
    Rewrite("deadline-local", TR, "        return self._not_forever(2 * TIMEOUT, winner)", "        deadline = 2 * TIMEOUT\n        return self._not_forever(deadline, winner)", desc="deadline through a local"),
]
