"""C14 — no internal failure on any legal use against a conformant server."""
import ast

from ..srcmodel import AnalysisError, site
from ..astutil import dotted, calls_named, is_self_attr, params
from ..cfg import build
from .. import a3common
from ..selftest import Mutant, Rewrite

EXPLANATION = ("R1: typestate analysis (abstract interpretation of the source of the 13 Automat machine classes + "
               "RendezvousConnector, composed - and, in the `dilation` environment, Dilator and the dilation Manager machine "
               "created by dilate(); every interleaving of API calls, connection loss/re-open and "
               "conformant-server deliveries) - reports every reachable undeclared (state,input) pair and every "
               "reachable failing assertion on a tracked attribute. R2: CFG rule - the catch-all handlers of "
               "RendezvousConnector.ws_message/ws_open call Boss.error on every path.")
TRUSTED_BASE = ["T1", "T3", "T4", "T5"]
MIN_OBLIGATIONS = 6

RDV = "src/wormhole/_rendezvous.py"


def r1(tree, rep, tier):
    sums = a3common.explorations(tree, tier, rep.seed, rep, extra=("reentrant",))
    a3common.fill_extra(rep, sums)
    for envname, s in sums.items():
        bad = [v for v in s.viol if v["kind"] in ("NoTransition", "Assert", "Raise", "no-instance", "second-instance")]
        rep.check("C14.R1", "no reachable undeclared (state,input) pair / failing assertion in environment '%s' "
                  "(%d states, %d transitions, %d machine rows exercised)" % (envname, s.nstates, s.ntrans, len(s.fired_rows)),
                  True, evals=1)
        if not s.exhaustive:
            rep.note("environment %s hit its state budget after %d states: verdict covers what was explored" % (envname, s.nstates))
        for v in bad:
            key = "C14.R1:%s:%s" % (v["kind"], v["detail"])
            what = "%s %s is reachable (environment %s)" % (
                {"NoTransition": "undeclared pair", "Assert": "failing assertion", "Raise": "explicit internal-error raise"}.get(v["kind"], v["kind"]),
                v["detail"], envname)
            if envname == "postclose":
                # helper calls after close() are outside the legal-API set (T3); reported, never a verdict
                if not any(x["key"] == key for x in rep.violations):
                    rep.note("outside legal API (helper after close): %s via %s" % (v["detail"], v["path"]))
                continue
            rep.violation("C14.R1", key, what, v["site"],
                          detail="call stack: " + " > ".join(v["stack"]), trace=v["path"])
        rep.sample({"rule": "C14.R1", "environment": envname, "states": s.nstates, "transitions": s.ntrans,
                    "events": sorted(s.events_used)[:30]})
    q = sums.get("quick")
    if q is not None and q.unknown_handlers:
        raise AnalysisError("RendezvousConnector has response handlers the environment does not model: %s"
                            % q.unknown_handlers)


def _catch_all_handlers(fn):
    out = []
    for n in ast.walk(fn):
        if isinstance(n, ast.Try):
            for h in n.handlers:
                if h.type is None or (isinstance(h.type, ast.Name) and h.type.id in ("Exception", "BaseException")):
                    out.append((n, h))
    return out


def r2(tree, rep):
    for fname, protected in (("ws_message", None), ("ws_open", ".connected")):
        fn = tree.func(RDV, "RendezvousConnector", fname)
        g = build(fn)
        hs = _catch_all_handlers(fn)
        # the try must cover the dispatch: ws_message -> the call of the looked-up handler; ws_open -> N/M/L/A.connected
        if fname == "ws_message":
            # the dispatched call: a call whose callee is a local bound from getattr(self, ...)
            disp = [c for c in ast.walk(fn) if isinstance(c, ast.Call) and isinstance(c.func, ast.Name)
                    and any(isinstance(d, ast.Call) and dotted(d.func) == "getattr"
                            for d in _defs(fn, c.func.id))]
        else:
            disp = [c for c in ast.walk(fn) if isinstance(c, ast.Call) and (dotted(c.func) or "").endswith(".connected")]
        if not disp:
            raise AnalysisError("%s: cannot find the dispatch call(s) the safety net must cover" % fname)
        for c in disp:
            covering = [(t, h) for (t, h) in hs if any(c in ast.walk(b) for b in t.body)]
            ok = bool(covering)
            if ok:
                t, h = covering[-1]
                hn = g.node_of(h)
                berr = g.call_nodes(lambda x: dotted(x.func) == "self._B.error")
                ok = hn is not None and g.must_pass(berr, start=hn, to=[g.exit, g.raise_exit], explicit_only=True)
            rep.check("C14.R2", "%s: %s is inside a catch-all handler that reports to Boss.error on every path"
                      % (fname, dotted(c.func)), ok, site(c, RDV),
                      key="C14.R2:%s:%s" % (fname, dotted(c.func)),
                      what="an exception in %s (%s) is not reported to Boss.error" % (fname, dotted(c.func)))


def _defs(fn, name):
    from ..astutil import local_defs
    return [d for d in local_defs(fn, name) if isinstance(d, ast.AST)]


def r3(tree, rep):
    """state before notification: within one transition, the outputs that record what the input brought run before the outputs
    that hand control to application code synchronously (plain Deferreds fired with .callback, the delegate / wormhole object):
    a callback may legally call straight back into the API, and must find the recorded state (no `assert self._x` can fire)"""
    from ..automat_x import Program, output_calls
    prog = Program(tree)
    n = 0
    for name in ("Input", "Code", "Boss", "Nameplate", "Mailbox", "Allocator", "Lister", "Key", "Receive", "Send", "Order"):
        m = prog.machine(name)
        for r in m.rows.values():
            if len(r.outputs) < 2:
                continue
            rec, notify = [], []
            for i, o in enumerate(r.outputs):
                fn = m.outputs[o]
                assigns = [t.attr for x in ast.walk(fn) if isinstance(x, ast.Assign) for t in x.targets if is_self_attr(t)]
                fires = [c for c in output_calls(m, o) if isinstance(c.func, ast.Attribute) and c.func.attr in ("callback", "errback")
                         and not is_self_attr(c.func.value)]
                if fires:
                    notify.append(i)
                elif assigns and not fires:
                    rec.append((i, assigns))
            if not notify or not rec:
                continue
            # only the attributes that some function reachable from the API asserts / reads matter; keep it simple: every recorder first
            n += 1
            late = [(i, a) for (i, a) in rec if i > min(notify)]
            rep.check("C14.R3", "%s %s.%s records its state (%s) before it fires waiting Deferreds" % (name, r.src, r.inp, [a for _, a in rec]),
                      not late, r.site, key="C14.R3:%s[%s].%s:record-before-notify" % (name, r.src, r.inp),
                      what="%s %s.%s outputs %s: waiting Deferreds are fired before %s is recorded; a callback that calls back into the "
                           "API at once finds the old state (an internal assertion fires on a legal call)" % (
                               name, r.src, r.inp, r.outputs, [a for _, a in late]))
    if n == 0:
        raise AnalysisError("no transition both records state and fires waiting Deferreds")


def r4(tree, rep, tier):
    """the dilation control plane (Manager, TrafficTimer, Connector of both sides, engine A5): no undeclared pair, no failing assertion"""
    from .. import a5common
    sums = a5common.explorations(tree, tier, rep)
    a5common.fill_extra(rep, sums)
    a5common.report(rep, "C14.R4", sums, a5common.INTERNAL)


def r5(tree, rep):
    """package-wide interface agreement: a method called on a wired collaborator exists on the collaborator's class (an AttributeError on
    a legal API call is an internal failure that no unit test sees, because the tests hand every class a mock neighbour)"""
    from .. import interfaces
    from ..automat_x import Program
    prog = Program(tree)
    n_sites = interfaces.check(tree, rep, "C14.R5", [c for c in prog.classes if ":" not in c])
    if n_sites < 150:
        raise AnalysisError("interface agreement: only %d resolvable call sites in the package" % n_sites)


def r6(tree, rep):
    """a Deferred that the client keeps in a list in order to fire it later has no canceller, or its canceller takes it out of the list:
    twisted swallows the callback() that follows a cancel() only for Deferreds WITHOUT a canceller; with one, the later callback()
    raises AlreadyCalledError inside the transition that notifies the waiters"""
    from ..automat_x import Program
    prog = Program(tree)
    n = 0
    for cname, ci in prog.classes.items():
        if ":" in cname or "/cli/" in ci.file or "/test/" in ci.file:
            continue
        for fname, fn in list(ci.methods.items()) + list(ci.outputs.items()):
            for c in ast.walk(fn):
                if not (isinstance(c, ast.Call) and (dotted(c.func) or "").split(".")[-1] == "Deferred"):
                    continue
                n += 1
                canc = c.args[0] if c.args else next((k.value for k in c.keywords if k.arg == "canceller"), None)
                if canc is None:
                    continue
                from ..astutil import callback_function
                target = callback_function(canc, fn, dict(ci.methods))
                removes = target is not None and any(isinstance(x, ast.Call) and isinstance(x.func, ast.Attribute) and x.func.attr in ("remove", "discard", "pop")
                                                     for x in ast.walk(target))
                stored = any(isinstance(x, ast.Call) and isinstance(x.func, ast.Attribute) and x.func.attr in ("append", "add") and is_self_attr(x.func.value)
                             for x in ast.walk(fn))
                rep.check("C14.R6", "%s.%s creates a Deferred with a canceller: the canceller forgets the Deferred" % (ci.name, fname),
                          removes or not stored, site(c, ci.file), key="C14.R6:%s.%s:canceller" % (ci.name, fname),
                          what="%s.%s keeps a Deferred that has a canceller in a waiter list, and the canceller leaves it there: after the application "
                               "cancels it (addTimeout), the later notification raises AlreadyCalledError inside a state-machine transition" % (ci.name, fname))
    rep.check("C14.R6", "Deferreds created by the client (%d sites) were examined for cancellers" % n, n > 0)


def r8(tree, rep):
    """an echo can arrive for a phase that is no longer (or was never) pending - the server replays the whole mailbox after every
    re-open, and an echo is retired on its first arrival: Mailbox.dequeue must tolerate the absent key (pop with a default, or a
    membership test), a bare `del d[phase]` / `d.pop(phase)` is a KeyError inside the handler of `message`"""
    MB = "src/wormhole/_mailbox.py"
    fn = tree.func(MB, "Mailbox", "dequeue")
    g = build(fn, split=True)
    from ..cfg import in_atom
    ph = params(fn)[0] if params(fn) else None
    guarded = in_atom(lambda e: isinstance(e, ast.Name) and e.id == ph, lambda e: is_self_attr(e, "_pending_outbound"))
    risky = []
    for n in g.stmt:
        for e in g.head_expr(n):
            for x in ast.walk(e):
                if isinstance(x, ast.Call) and isinstance(x.func, ast.Attribute) and x.func.attr == "pop" and is_self_attr(x.func.value, "_pending_outbound") \
                        and len(x.args) < 2 and not x.keywords:
                    risky.append(n)
                if isinstance(x, ast.Subscript) and is_self_attr(x.value, "_pending_outbound") and isinstance(x.ctx, (ast.Del, ast.Load)):
                    risky.append(n)
    bad = g.only_when(risky, guarded, True) if risky else []
    rep.check("C14.R8", "Mailbox.dequeue tolerates an echo for a phase that is not pending (pop with a default, or under `phase in _pending_outbound`)",
              not bad, site(fn, MB), key="C14.R8:Mailbox.dequeue:absent-key",
              what="Mailbox.dequeue removes the echoed phase without allowing for its absence: the replay after a re-open echoes phases that "
                   "were already retired - KeyError inside the handler of `message`, reported by close() as an internal error")


def r7(tree, rep):
    """an `assert` about a value another machine built is an agreement between the two: Code.do_finish_allocate asserts
    code.startswith(nameplate + "-") for what Allocator.build_and_notify hands it - discharged by the shape of that builder
    (<nameplate> + "-" + <words>, for every word count including zero; the rule instance is C19.R5:build_and_notify)"""
    from ..automat_x import Program
    from . import C19
    prog = Program(tree)
    CODE = prog.machine("Code")
    asserts = []
    for name, fn in CODE.outputs.items():
        for a in ast.walk(fn):
            if isinstance(a, ast.Assert) and any(isinstance(c, ast.Call) and isinstance(c.func, ast.Attribute) and c.func.attr == "startswith"
                                                 for c in ast.walk(a.test)):
                asserts.append((name, a))
    if not asserts:
        rep.check("C14.R7", "Code asserts nothing about the shape of an allocated code", True, CODE.file, key="C14.R7:no-assert")
        return
    sub = type(rep)(rep.pid, rep.tier, rep.seed)
    try:
        C19.r5(tree, sub)
    except AnalysisError:
        pass
    ob = [o for o in sub.obligations if "build_and_notify" in str(o.get("key", "")) or "allocated code is" in o["instance"]]
    bad = [v for v in sub.violations if v["key"] == "C19.R5:build_and_notify"]
    for (name, a) in asserts:
        rep.check("C14.R7", "Code.%s: `%s` holds for every code the Allocator builds (<nameplate> + '-' + choose_words(n), n >= 0)"
                  % (name, ast.unparse(a.test)[:60]), bool(ob) and not bad, site(a, CODE.file), key="C14.R7:Code.%s:assert-discharged" % name,
                  what="Code.%s asserts `%s`, but Allocator.build_and_notify no longer builds the code as <nameplate> + '-' + <words> for "
                       "every word count: allocate_code(0) (legal) trips the assertion inside the handler of `allocated` - an internal "
                       "AssertionError instead of a code" % (name, ast.unparse(a.test)[:60]))


def run(tree, rep, tier):
    from .. import round9 as _r9
    _r9.app_not_called_mid_transition(tree, rep, "C14.R9")
    _r9.numeric_phase_pattern_anchored(tree, rep, "C14.R10")
    r6(tree, rep)
    from .. import sharedstate
    sharedstate.check(tree, rep, "C14.R0")
    r2(tree, rep)
    r3(tree, rep)
    r4(tree, rep, tier)
    r5(tree, rep)
    r7(tree, rep)
    r8(tree, rep)
    r1(tree, rep, tier)


_B = "src/wormhole/_boss.py"
_M = "src/wormhole/_mailbox.py"
_N = "src/wormhole/_nameplate.py"
MUTANTS = [
    Mutant("del-S3closing-scared", _B, "    S3_closing.upon(scared, enter=S3_closing, outputs=[])\n", "",
           "C14.R1", "ignore row deleted: scared while closing"),
    Mutant("del-N-S4B-rx_claimed", _N, "    S4B.upon(rx_claimed, enter=S4B, outputs=[])\n", "",
           "C14.R1", "late `claimed` after close"),
    Mutant("del-M-S3B-add_message", _M, "    S3B.upon(add_message, enter=S3B, outputs=[])\n", "",
           "C14.R1", "send while closing"),
    Mutant("del-M-S4-rx_theirs", _M, "    S4.upon(rx_message_theirs, enter=S4, outputs=[])\n", "",
           "C14.R1", "peer message after mailbox closed"),
    Mutant("ws_message-no-Berror", RDV, "            log.err(e)\n            self._B.error(e)\n            raise\n",
           "            log.err(e)\n            raise\n", "C14.R2", "safety net no longer reports to Boss"),
    Mutant("ws_open-no-Berror", RDV, "        except Exception as e:\n            self._B.error(e)\n            raise\n        self._debug(\"R.connected finished",
           "        except Exception as e:\n            raise\n        self._debug(\"R.connected finished", "C14.R2", ""),
]
MUTANTS.append(Mutant("dilate-message-not-gated", "src/wormhole/_dilation/manager.py",
                      "        if self._manager and self._manager_has_versions:\n            while self._pending_inbound_dilate_messages:",
                      "        if self._manager:\n            while self._pending_inbound_dilate_messages:", "C14.R1",
                      "peer's dilate-0 delivered before its version reaches a Manager still WAITING"))
REWRITES = [
    Rewrite("add-ignore-row", _B, "    S4_closed.upon(error, enter=S4_closed, outputs=[])\n",
            "    S4_closed.upon(error, enter=S4_closed, outputs=[])\n    S4_closed.upon(rx_error, enter=S4_closed, outputs=[])\n",
            desc="an extra ignore row"),
    Rewrite("ws_message-handler-reordered", RDV, "            log.err(e)\n            self._B.error(e)\n            raise\n",
            "            self._B.error(e)\n            log.err(e)\n            raise\n", desc="handler statements reordered"),
]

# engine A5 and the container-kind rule of A3
MUTANTS.append(Mutant("connector-stopped-accept-row", "src/wormhole/_dilation/connector.py", "    stopped.upon(accept, enter=stopped, outputs=[])\n", "", "C14.R4",
                      "F11 again: the eventual accept() reaches a Connector that was stopped meanwhile"))
MUTANTS.append(Mutant("nameplates-list-or-set", RDV, "        self._L.rx_nameplates(nids)", "        self._L.rx_nameplates(sorted(nids))", "C14.R1",
                      "two cooperating sites: a list is handed on where a set is merged with |",
                      also=(("src/wormhole/_input.py", "        # we get a set of nameplate id strings\n",
                             "        # we get a set of nameplate id strings\n        if self._all_nameplates:\n            all_nameplates = all_nameplates | self._all_nameplates\n"),)))
MUTANTS.append(Mutant("del-M-S4-got_mailbox", _M, "    S4.upon(got_mailbox, enter=S4, outputs=[])\n", "", "C14.R1",
                      "finding F21 put back: close() from the wordlist callback, then got_mailbox"))
MUTANTS.append(Mutant("dequeue-del-absent-key", _M, "        self._pending_outbound.pop(phase, None)", "        del self._pending_outbound[phase]", "C14.R8", "seed C14-17"))

MUTANTS.append(Mutant("status-callout-before-lost", "src/wormhole/_rendezvous.py", "        was_open = bool(self._ws)\n        self._ws = None\n", "        was_open = bool(self._ws)\n        self._ws = None\n        self._evolve_status(mailbox_connection=Connecting(self._url, self._reactor.seconds()))\n", "C14.R9", "seed C14-18"))

MUTANTS.append(Mutant("numeric-phase-open-ended", "src/wormhole/_boss.py", "        elif re.search(r'^\\d+$', phase):", "        elif re.match(r'\\d+', phase):", "C14.R10", "seed C14-21"))
