"""C02 — the mailbox server cannot forge, alter, re-label, replay or reflect messages."""
import ast

from ..srcmodel import AnalysisError, site
from ..automat_x import Program
from ..astutil import (dotted, const, params, local_defs, is_self_attr, calls_named, same_expr, enclosing_function,
                       enclosing_class, resolve_local)
from ..dataflow import expand, call_arg, reaches
from ..effects import class_writers, is_empty_ctor
from ..cfg import build
from ..tablerules import row_calls, rows_calling
from ..selftest import Mutant, Rewrite

EXPLANATION = ("Lemma rules: (R1) the phase key's HKDF purpose contains sha256(side) and sha256(phase), each strictly "
               "encoded; (R2) the receiver keys on the labels the server sent, the sender on its own side and the phase it "
               "labels the message with; (R3) one side per wormhole; (R4) own-side messages are echoes and never reach "
               "Order/Receive, and only Mailbox feeds Order, only Order feeds Receive; (R5) a phase is accepted once "
               "(add-only dedup set dominating the hand-over); (R6) undecryptable => scared, never delivered (C01.R6); "
               "(R7) unknown phases are only logged. SecretBox authenticity and SPAKE2's reflection rejection are trusted.")
TRUSTED_BASE = ["T1", "T2", "T4"]
MIN_OBLIGATIONS = 25

KEY = "src/wormhole/_key.py"
BOSS = "src/wormhole/_boss.py"


def _strict_encode_of(node, name):
    """node is <name>.encode(<ascii|utf-8>) with no error handler"""
    return (isinstance(node, ast.Call) and isinstance(node.func, ast.Attribute) and node.func.attr == "encode"
            and isinstance(node.func.value, ast.Name) and node.func.value.id == name and len(node.args) <= 1
            and not node.keywords and (not node.args or str(const(node.args[0])).lower().replace("-", "") in ("ascii", "utf8")))


def _digest_of(node):
    """sha256(X).digest() -> X else None"""
    if isinstance(node, ast.Call) and isinstance(node.func, ast.Attribute) and node.func.attr == "digest" and not node.args:
        inner = node.func.value
        if isinstance(inner, ast.Call) and (dotted(inner.func) or "").split(".")[-1] == "sha256" and len(inner.args) == 1:
            return inner.args[0]
    return None


def _add_terms(node):
    from ..astutil import concat_terms
    return concat_terms(node)


def r1(tree, rep):
    fn = tree.func(KEY, None, "derive_phase_key")
    ps = params(fn, skip_self=False)
    if ps[:3] != ["key", "side", "phase"]:
        raise AnalysisError("derive_phase_key signature changed: %s" % ps)
    rets = [n for n in ast.walk(fn) if isinstance(n, ast.Return)]
    ok = len(rets) == 1
    terms = []
    if ok:
        v = expand(fn, rets[0].value)
        ok = isinstance(v, ast.Call) and dotted(v.func) == "derive_key" and len(v.args) == 2 and not v.keywords \
            and isinstance(v.args[0], ast.Name) and v.args[0].id == "key"
        if ok:
            terms = _add_terms(v.args[1])
    consts = [t for t in terms if isinstance(const(t), bytes)]
    digs = [_digest_of(t) for t in terms]
    side_d = [d for d in digs if d is not None and _strict_encode_of(d, "side")]
    phase_d = [d for d in digs if d is not None and _strict_encode_of(d, "phase")]
    others = [t for t, d in zip(terms, digs) if d is None and not isinstance(const(t), bytes)]
    ok = ok and len(side_d) == 1 and len(phase_d) == 1 and len(consts) >= 1 and not others and len(terms) == 3
    rep.check("C02.R1", "derive_phase_key: purpose = <const> + sha256(side.encode()).digest() + sha256(phase.encode()).digest(), "
              "strict encodings, handed to derive_key(key, purpose)", ok, site(fn, KEY), key="C02.R1:derive_phase_key",
              what="the per-message key no longer binds both the sender side and the phase through their own fixed-width digests")
    if ok:
        order = [("side" if _strict_encode_of(d, "side") else "phase") for d in digs if d is not None]
        rep.check("C02.R1", "side digest and phase digest are distinct operands (order %s)" % order, order in (["side", "phase"], ["phase", "side"]),
                  site(fn, KEY), key="C02.R1:derive_phase_key:order")


def r2(tree, prog, rep):
    R = prog.machine("Receive")
    gm = R.methods["got_message"]
    cs = calls_named(gm, "derive_phase_key")
    ok = len(cs) == 1 and len(cs[0].args) == 3 and is_self_attr(cs[0].args[0], "_key")
    if ok:
        for a, want in zip(cs[0].args[1:], ("side", "phase")):
            ok = ok and isinstance(a, ast.Name) and a.id == want and a.id in params(gm) and not local_defs(gm, a.id)
    rep.check("C02.R2", "Receive.got_message derives the key from its own (side, phase) parameters - the labels the server sent",
              ok, site(gm, R.file), key="C02.R2:Receive.got_message",
              what="the receiver's message key is not derived from exactly the side and phase labels the message arrived under")
    # the labels arrive unmodified from the server message: RC -> Mailbox.rx_message -> rx_message_theirs -> O.got_message -> R.got_message
    chain = [("src/wormhole/_mailbox.py", "Mailbox", "rx_message", "self.rx_message_theirs", ("side", "phase", "body")),
             ("src/wormhole/_mailbox.py", "Mailbox", "N_release_and_accept", "self._O.got_message", ("side", "phase", "body")),
             ("src/wormhole/_order.py", "Order", "_deliver", "self._R.got_message", ("side", "phase", "body")),
             ("src/wormhole/_order.py", "Order", "got_message", "self.got_non_pake", ("side", "phase", "body")),
             ("src/wormhole/_order.py", "Order", "deliver", "self._deliver", ("side", "phase", "body"))]
    for (f, c, m, callee, names) in chain:
        fn = tree.func(f, c, m)
        cc = calls_named(fn, callee)
        ok = len(cc) >= 1
        for call in cc:
            ok = ok and [a.id if isinstance(a, ast.Name) else None for a in call.args] == list(names) \
                and all(n in params(fn) and not local_defs(fn, n) for n in names)
        rep.check("C02.R2", "%s.%s passes (side, phase, body) on to %s unmodified" % (c, m, callee), ok, site(fn, f),
                  key="C02.R2:plumb:%s.%s" % (c, m))
    # Order.queue / drain keep the triple
    O = prog.machine("Order")
    q = O.outputs.get("queue")
    ap = [c for c in ast.walk(q) if isinstance(c, ast.Call) and dotted(c.func) == "self._queue.append"] if q else []
    ok = len(ap) == 1 and isinstance(ap[0].args[0], ast.Tuple) and [getattr(e, "id", None) for e in ap[0].args[0].elts] == ["side", "phase", "body"]
    rep.check("C02.R2", "Order.queue stores the (side, phase, body) triple", ok, site(q, O.file) if q else O.file, key="C02.R2:Order.queue")
    d = O.outputs.get("drain")
    ok = False
    if d:
        for lp in [x for x in ast.walk(d) if isinstance(x, ast.For)]:
            if dotted(lp.iter) == "self._queue" and isinstance(lp.target, ast.Tuple):
                tn = [getattr(e, "id", None) for e in lp.target.elts]
                cc = [c for c in ast.walk(lp) if isinstance(c, ast.Call) and dotted(c.func) == "self._deliver"]
                ok = len(cc) == 1 and [getattr(a, "id", None) for a in cc[0].args] == tn and len(tn) == 3
    rep.check("C02.R2", "Order.drain delivers each queued triple as stored", ok, site(d, O.file) if d else O.file, key="C02.R2:Order.drain")
    # sender side
    S = prog.machine("Send")
    es = S.methods.get("_encrypt_and_send")
    if es is None:
        raise AnalysisError("Send._encrypt_and_send not found")
    _sender_rule(rep, es, S.file, "Send._encrypt_and_send", "self._key")
    SK = prog.machine("_SortedKey")
    ck = SK.outputs.get("compute_key")
    if ck is None:
        raise AnalysisError("_SortedKey.compute_key not found")
    _sender_rule(rep, ck, SK.file, "_SortedKey.compute_key", None)
    ed = tree.func(KEY, None, "encrypt_data")
    boxes = [c for c in ast.walk(ed) if isinstance(c, ast.Call) and (dotted(c.func) or "").split(".")[-1] == "SecretBox"]
    encs = [c for c in ast.walk(ed) if isinstance(c, ast.Call) and isinstance(c.func, ast.Attribute) and c.func.attr == "encrypt"]
    ok = len(boxes) == 1 and len(encs) == 1 and isinstance(boxes[0].args[0], ast.Name) and boxes[0].args[0].id == params(ed, False)[0] \
        and isinstance(encs[0].args[0], ast.Name) and encs[0].args[0].id == params(ed, False)[1]
    rep.check("C02.R2", "encrypt_data = SecretBox(key).encrypt(plaintext, nonce)", ok, site(ed, KEY), key="C02.R2:encrypt_data")


def _sender_rule(rep, fn, file, label, keyexpr):
    dk = calls_named(fn, "derive_phase_key")
    add = calls_named(fn, "self._M.add_message")
    enc = calls_named(fn, "encrypt_data")
    ok = len(dk) == 1 and len(add) == 1 and len(enc) == 1 and len(dk[0].args) == 3 and len(add[0].args) == 2
    if ok:
        ok = is_self_attr(dk[0].args[1], "_side")
        ph_k, ph_m = dk[0].args[2], add[0].args[0]
        ek, em = expand(fn, ph_k), expand(fn, ph_m)
        # one phase value for key and label: the same parameter / once-bound local, or the same literal
        ok = ok and same_expr(ek, em) and (
            (isinstance(ph_k, ast.Name) and isinstance(ph_m, ast.Name) and ph_k.id == ph_m.id and len(local_defs(fn, ph_k.id)) <= 1)
            or (isinstance(ek, ast.Constant) and isinstance(ek.value, str)))
        if keyexpr:
            ok = ok and dotted(dk[0].args[0]) == keyexpr
        body = expand(fn, add[0].args[1])
        ok = ok and isinstance(body, ast.Call) and dotted(body.func) == "encrypt_data" and len(body.args) == 2 \
            and isinstance(body.args[0], ast.Call) and dotted(body.args[0].func) == "derive_phase_key"
    rep.check("C02.R2", "%s keys on (own side, phase) and labels the message with the same phase" % label, ok, site(fn, file),
              key="C02.R2:%s" % label, what="%s: the phase bound into the key differs from the label sent, or the side is not our own" % label)


def r3(tree, prog, rep):
    bw = tree.func(BOSS, "Boss", "_build_workers")
    for cname in ("Mailbox", "Send", "Order", "Key", "Receive", "RendezvousConnector"):
        fields = prog.cls(cname).attr_fields
        cs = [c for c in ast.walk(bw) if isinstance(c, ast.Call) and dotted(c.func) == cname]
        ok = len(cs) == 1 and "_side" in fields
        if ok:
            a = call_arg(cs[0], fields.index("_side"), "side")
            ok = a is not None and is_self_attr(a, "_side")
        rep.check("C02.R3", "Boss hands its own side to %s" % cname, ok, site(cs[0], BOSS) if cs else site(bw, BOSS),
                  key="C02.R3:side:%s" % cname)
    kp = tree.func(KEY, "Key", "__attrs_post_init__")
    cs = [c for c in ast.walk(kp) if isinstance(c, ast.Call) and dotted(c.func) == "_SortedKey"]
    fields = prog.cls("_SortedKey").attr_fields
    ok = len(cs) == 1 and "_side" in fields
    if ok:
        a = call_arg(cs[0], fields.index("_side"), "side")
        ok = a is not None and is_self_attr(a, "_side")
    rep.check("C02.R3", "Key hands its side to _SortedKey", ok, site(kp, KEY), key="C02.R3:side:_SortedKey")
    for cname in ("Mailbox", "Send", "Receive", "_SortedKey"):
        own, foreign = class_writers(tree, cname, "_side")
        rep.check("C02.R3", "%s._side is never reassigned" % cname, not own and not foreign,
                  (own + foreign)[0].site if (own + foreign) else prog.cls(cname).file, key="C02.R3:side-writer:%s" % cname)


def dedup_set_discipline(tree, rep, rule):
    """the set of peer phases already handed on is created once, by the constructor, and only ever grows"""
    own, foreign = class_writers(tree, "Mailbox", "_processed")
    for w in own + foreign:
        ok = w in own and ((w.kind == "assign" and w.fn in ("__init__", "__attrs_post_init__") and is_empty_ctor(w.value, ("set",)))
                           or w.kind == "call:add")
        rep.check(rule, "Mailbox._processed writer %s only initialises (in the constructor) or adds" % w.brief(), ok, w.site,
                  key="%s:_processed:writer:%s" % (rule, w.brief()),
                  what="the per-phase dedup set is modified by %s (a phase could be accepted twice, e.g. after a reconnect)" % w.brief())
    if len(own) < 2:
        raise AnalysisError("Mailbox._processed has fewer writers than expected")


def echo_filter(prog, rep, rule="C02.R4"):
    M = prog.machine("Mailbox")
    rx = M.methods.get("rx_message")
    if rx is None:
        raise AnalysisError("Mailbox.rx_message not found")
    from ..cfg import build as _build, cmp_atom, truth_on_branch
    g = _build(rx, split=True)
    same_side = cmp_atom(lambda e: isinstance(e, ast.Name) and e.id == "side", lambda e: is_self_attr(e, "_side"))
    ours_n = g.call_nodes(lambda c: dotted(c.func) == "self.rx_message_ours")
    theirs_n = g.call_nodes(lambda c: dotted(c.func) == "self.rx_message_theirs")
    selfcalls = [dotted(c.func) for c in ast.walk(rx) if isinstance(c, ast.Call) and (dotted(c.func) or "").startswith("self.")]
    tests = [n.test for n in ast.walk(rx) if isinstance(n, (ast.If, ast.While, ast.IfExp))]
    ok = (len(ours_n) == 1 and len(theirs_n) == 1 and sorted(selfcalls) == ["self.rx_message_ours", "self.rx_message_theirs"]
          and bool(tests) and all(None not in truth_on_branch(t, same_side) for t in tests)
          and not g.only_when(ours_n, same_side, True) and not g.only_when(theirs_n, same_side, False)
          and "side" in params(rx) and not local_defs(rx, "side"))
    rep.check(rule, "Mailbox.rx_message: side == self._side (and nothing else) decides echo vs. peer message", ok,
              site(rx, M.file), key="%s:Mailbox.rx_message" % rule,
              what="a message carrying our own side can be treated as a peer message (reflection; after a re-open every replayed echo of a retired "
                   "phase would be decrypted as the peer's and end the session), or the test is not a plain side comparison")


def r4_r5(tree, prog, rep):
    M = prog.machine("Mailbox")
    echo_filter(prog, rep)
    for r in M.rows_on("rx_message_ours"):
        cs = row_calls(M, r)
        bad = [c for c in cs if c.startswith("self._O.") or c.startswith("self._R.") or c.startswith("self._N.")]
        rep.check("C02.R4", "Mailbox %s.rx_message_ours never reaches Order/Receive" % r.src, not bad, r.site,
                  key="C02.R4:Mailbox[%s].rx_message_ours" % r.src)
    # who may call Order.got_message / Receive.got_message / Boss.got_message
    for callee, allowed in (("_O.got_message", {("Mailbox", "rx_message_theirs")}), ("_R.got_message", {("Order", None)}),
                            ("_B.got_message", {("Receive", "got_message_good")})):
        n = 0
        for cname, ci in prog.classes.items():
            for fname, fn in list(ci.outputs.items()) + list(ci.methods.items()):
                for c in ast.walk(fn):
                    if isinstance(c, ast.Call) and (dotted(c.func) or "") == "self." + callee:
                        n += 1
                        okc = any(a[0] == ci.name for a in allowed)
                        if okc and ci.is_machine and fname in ci.outputs:
                            want_inp = [a[1] for a in allowed if a[0] == ci.name][0]
                            if want_inp:
                                okc = all(r.inp == want_inp for r in ci.rows.values() if fname in r.outputs)
                        rep.check("C02.R4", "%s is called only from %s (here: %s.%s)" % (callee, sorted(allowed), ci.name, fname),
                                  okc, site(c, ci.file), key="C02.R4:caller:%s:%s.%s" % (callee, ci.name, fname),
                                  what="%s.%s feeds %s, bypassing the echo filter / decryption" % (ci.name, fname, callee))
        if n == 0:
            raise AnalysisError("no call site of %s found" % callee)
    # R5 dedup
    dedup_set_discipline(tree, rep, "C02.R5")
    n = 0
    for oname, ofn in M.outputs.items():
        gm = calls_named(ofn, "self._O.got_message")
        if not gm:
            continue
        n += 1
        g = build(ofn)
        tests = [x for x in g.nodes(lambda s: isinstance(s, ast.If)) if _is_notin_processed(g.stmt[x].test)]
        calls = g.call_nodes(lambda c: dotted(c.func) == "self._O.got_message")
        adds = g.call_nodes(lambda c: dotted(c.func) == "self._processed.add" and len(c.args) == 1 and _is_dedup_key(c.args[0]))
        ok = bool(tests) and bool(adds)
        if ok:
            # the key that is recorded is the key that is tested
            keys = {ast.dump(_dedup_key_of_test(g.stmt[t].test)) for t in tests} | {
                ast.dump(c.args[0]) for a in adds for c in ast.walk(g.stmt[a]) if isinstance(c, ast.Call) and dotted(c.func) == "self._processed.add"}
            ok = len(keys) == 1
        if ok:
            lab = 'T' if _notin_polarity(g.stmt[tests[0]].test) else 'F'
            ok = not g.guarded_by(tests, calls, lab)
            # on every path that delivers, the phase is recorded
            for c in calls:
                ok = ok and (not g.precedes(adds, [c]) or g.must_pass(adds, start=c, to=[g.exit], explicit_only=True))
        rep.check("C02.R5", "Mailbox.%s hands a message to Order only if its phase was not processed before, and records it" % oname,
                  ok, site(ofn, M.file), key="C02.R5:Mailbox.%s:dedup" % oname,
                  what="a peer phase can be handed to Order twice (the membership test no longer dominates the hand-over)")
    if n != 1:
        raise AnalysisError("expected exactly one Mailbox output feeding Order, found %d" % n)


def _is_notin_processed(t):
    if isinstance(t, ast.UnaryOp) and isinstance(t.op, ast.Not):
        return _is_notin_processed(t.operand)
    return isinstance(t, ast.Compare) and len(t.ops) == 1 and isinstance(t.ops[0], (ast.In, ast.NotIn)) \
        and _is_dedup_key(t.left) and is_self_attr(t.comparators[0], "_processed")


def _is_dedup_key(e):
    """the de-duplication key: the phase label, alone or together with the side label (a message is only ever opened with the key of
    its own side label - C02.R2 - so a phase is still delivered at most once: only the peer's real side decrypts)"""
    if isinstance(e, ast.Name):
        return e.id == "phase"
    return isinstance(e, ast.Tuple) and all(isinstance(x, ast.Name) and x.id in ("side", "phase") for x in e.elts) \
        and any(x.id == "phase" for x in e.elts)


def _dedup_key_of_test(t):
    while isinstance(t, ast.UnaryOp) and isinstance(t.op, ast.Not):
        t = t.operand
    return t.left


def _notin_polarity(t):
    """True if the test is true exactly when phase is NOT in _processed"""
    neg = False
    while isinstance(t, ast.UnaryOp) and isinstance(t.op, ast.Not):
        neg = not neg
        t = t.operand
    return isinstance(t.ops[0], ast.NotIn) != neg


def r6_r7(tree, prog, rep):
    from .C01 import r5_r6 as c01_r5_r6
    # re-labelled under C02.R6 by running the same rule (deliveries only after a good decryption)
    sub = type(rep)(rep.pid, rep.tier, rep.seed)
    c01_r5_r6(tree, prog, sub)
    for o in sub.obligations:
        if o["rule"] == "C01.R6":
            rep.obligations.append(dict(o, rule="C02.R6"))
            rep.evaluations += 1
    for v in sub.violations:
        if v["rule"] == "C01.R6":
            rep.violation("C02.R6", v["key"].replace("C01.R6", "C02.R6"), v["what"], v.get("site"), v.get("detail"), _count=False)
    # R7 dispatch
    gm = tree.func(BOSS, "Boss", "got_message")
    g = build(gm)
    inputs = {"self._got_version", "self._got_dilate", "self._got_phase"}
    calls = {}
    for n in g.nodes():
        for c in [c for e in g.head_expr(n) for c in ast.walk(e) if isinstance(c, ast.Call)]:
            d = dotted(c.func) or ""
            if d.startswith("self."):
                calls.setdefault(d, []).append((n, c))
    ok = set(calls) == inputs
    rep.check("C02.R7", "Boss.got_message dispatches only to _got_version/_got_dilate/_got_phase; anything else is logged",
              ok, site(gm, BOSS), key="C02.R7:Boss.got_message:dispatch", what="Boss.got_message calls %s" % sorted(calls))
    # each dispatch passes the plaintext parameter on unmodified
    for d, lst in calls.items():
        for (n, c) in lst:
            last = c.args[-1] if c.args else None
            rep.check("C02.R7", "%s receives the plaintext parameter unmodified" % d,
                      isinstance(last, ast.Name) and last.id == "plaintext" and not local_defs(gm, "plaintext"), site(c, BOSS),
                      key="C02.R7:Boss.got_message:%s:plaintext" % d)
    # version branch is exactly phase == "version"
    vtests = [n for n in g.nodes(lambda s: isinstance(s, ast.If)) if isinstance(g.stmt[n].test, ast.Compare)
              and isinstance(g.stmt[n].test.left, ast.Name) and g.stmt[n].test.left.id == "phase"
              and const(g.stmt[n].test.comparators[0]) == "version" and isinstance(g.stmt[n].test.ops[0], ast.Eq)]
    vcalls = [n for (n, c) in calls.get("self._got_version", [])]
    rep.check("C02.R7", "peer versions are accepted only under the phase label \"version\"",
              bool(vtests) and bool(vcalls) and not g.guarded_by(vtests, vcalls, 'T'), site(gm, BOSS), key="C02.R7:version-label")
    # numeric phase: int(phase) of the label
    pcalls = [c for (n, c) in calls.get("self._got_phase", [])]
    ok = len(pcalls) == 1 and isinstance(pcalls[0].args[0], ast.Call) and dotted(pcalls[0].args[0].func) == "int" \
        and isinstance(pcalls[0].args[0].args[0], ast.Name) and pcalls[0].args[0].args[0].id == "phase"
    rep.check("C02.R7", "application messages are indexed by int(<phase label>)", ok, site(gm, BOSS), key="C02.R7:phase-int")


def r8(tree, prog, rep):
    """a decrypted application message is delivered at the position its (authenticated) phase label names: Boss files it under
    that phase and hands out phase n as the n-th message - the server cannot permute, skip or re-label authentic messages
    (the rule instances are those of C03.R2)"""
    from .C03 import r2 as c03_r2
    sub = type(rep)(rep.pid, rep.tier, rep.seed)
    c03_r2(tree, prog, sub)
    for o in sub.obligations:
        if o["rule"] == "C03.R2":
            rep.obligations.append(dict(o, rule="C02.R8"))
            rep.evaluations += 1
    for v in sub.violations:
        if v["rule"] == "C03.R2":
            rep.violation("C02.R8", v["key"].replace("C03.R2", "C02.R8"),
                          v["what"] + " (an authentic message is delivered under another position than the phase it was encrypted for)",
                          v.get("site"), v.get("detail"), _count=False)


def run(tree, rep, tier):
    from .. import round9 as _r9
    _r9.forwarded_in_same_turn(tree, rep, "C02.R9", "src/wormhole/_rendezvous.py", (("RendezvousConnector", "_response_handle_message", "self._M.rx_message"),),
                               "an exception raised while a peer message is processed (a reflected or malformed PAKE fails in SPAKE2.finish()) no longer "
                               "travels back into ws_message's try/except: Boss.error never hears of it, the forged message is consumed as the peer's and "
                               "the wormhole neither delivers an error nor closes")
    from .. import sharedstate
    sharedstate.check(tree, rep, "C02.R0")
    prog = Program(tree)
    r1(tree, rep)
    r2(tree, prog, rep)
    r3(tree, prog, rep)
    r4_r5(tree, prog, rep)
    r6_r7(tree, prog, rep)
    r8(tree, prog, rep)


_REC = "src/wormhole/_receive.py"
_MB = "src/wormhole/_mailbox.py"
_SEND = "src/wormhole/_send.py"
MUTANTS = [
    Mutant("purpose-no-side", KEY, "    purpose = (b\"wormhole:phase:\" + sha256(side_bytes).digest() +\n               sha256(phase_bytes).digest())",
           "    purpose = (b\"wormhole:phase:\" +\n               sha256(phase_bytes).digest())", "C02.R1"),
    Mutant("purpose-raw-concat", KEY, "    purpose = (b\"wormhole:phase:\" + sha256(side_bytes).digest() +\n               sha256(phase_bytes).digest())",
           "    purpose = (b\"wormhole:phase:\" + side_bytes +\n               phase_bytes)", "C02.R1"),
    Mutant("phase-encode-ignore", KEY, "    phase_bytes = phase.encode(\"ascii\")", "    phase_bytes = phase.encode(\"ascii\", \"ignore\")", "C02.R1"),
    Mutant("receiver-own-side", _REC, "        data_key = derive_phase_key(self._key, side, phase)", "        data_key = derive_phase_key(self._key, self._side, phase)", "C02.R2"),
    Mutant("receiver-side-lower", _REC, "        data_key = derive_phase_key(self._key, side, phase)", "        data_key = derive_phase_key(self._key, side.lower(), phase)", "C02.R2"),
    Mutant("sender-label-mismatch", _SEND, "        self._M.add_message(phase, encrypted)", "        self._M.add_message(phase.strip(), encrypted)", "C02.R2"),
    Mutant("ours-to-theirs", _MB, "        if side == self._side:\n            self.rx_message_ours(phase, body)\n        else:\n            self.rx_message_theirs(side, phase, body)",
           "        self.rx_message_theirs(side, phase, body)", "C02.R4"),
    Mutant("echo-only-if-pending", _MB, "        if side == self._side:\n            self.rx_message_ours", "        if side == self._side and phase in self._pending_outbound:\n            self.rx_message_ours", "C02.R4"),
    Mutant("processed-cleared-on-open", _MB, "    def RC_tx_open(self):\n        assert self._mailbox\n", "    def RC_tx_open(self):\n        assert self._mailbox\n        self._processed.clear()\n", "C02.R5"),
    Mutant("dedup-after-deliver", _MB, "        if phase not in self._processed:\n            self._processed.add(phase)\n            self._O.got_message(side, phase, body)",
           "        self._O.got_message(side, phase, body)\n        if phase not in self._processed:\n            self._processed.add(phase)", "C02.R5"),
    Mutant("unknown-phase-delivered", BOSS, "            log.err(_UnknownPhaseError(f\"received unknown phase '{phase}'\"))",
           "            self._W.received(plaintext)", "C02.R7"),
]
REWRITES = [
    Rewrite("dedup-early-return", _MB, "        if phase not in self._processed:\n            self._processed.add(phase)\n            self._O.got_message(side, phase, body)",
            "        if phase in self._processed:\n            return\n        self._processed.add(phase)\n        self._O.got_message(side, phase, body)", desc="guard as early return"),
    Rewrite("purpose-inline", KEY, "    side_bytes = side.encode(\"ascii\")\n    phase_bytes = phase.encode(\"ascii\")\n    purpose = (b\"wormhole:phase:\" + sha256(side_bytes).digest() +\n               sha256(phase_bytes).digest())",
            "    purpose = (b\"wormhole:phase:\" + sha256(side.encode(\"ascii\")).digest() +\n               sha256(phase.encode(\"ascii\")).digest())", desc="locals inlined"),
]

MUTANTS.append(Mutant("message-handler-deferred-a-turn", "src/wormhole/_rendezvous.py", "        self._M.rx_message(side, phase, body)\n", "        self._reactor.callLater(0, self._M.rx_message, side, phase, body)\n", "C02.R9", "seed C02-20"))
