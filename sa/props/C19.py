"""C19 — codes are well-formed with the promised entropy; code entry is consistent."""
import ast
import re
import sys

from ..srcmodel import AnalysisError, site
from ..automat_x import Program
from ..astutil import dotted, const, params, local_defs, is_self_attr, calls_named, same_expr, walk_shallow, enclosing_function, resolve_local
from ..dataflow import expand, expand_flow, call_arg
from ..effects import class_writers, is_const, is_empty_ctor
from ..cfg import build, truthy_atom, cmp_atom, in_atom, none_atom
from ..tablerules import output_raises, row_calls
from ..selftest import Mutant, Rewrite

EXPLANATION = ("(R1) the raw_words literal: exactly the 256 keys 00..FF, two words each, 256 distinct even and 256 distinct odd words "
               "(case-folded), lists disjoint, no hyphen/space in a word; the derived tables are built from it. (R2) choose_words "
               "appends exactly one word per iteration of range(length), indexed by a fresh os.urandom(1) inside the loop, odd list "
               "first; get_completions picks the list by the same parity convention on the hyphen count and offers a word only if it "
               "extends the typed partial word; no `random` module in the package. (R3) validation happens before any state change: "
               "a space anywhere is rejected and the nameplate pattern (its regex parse tree) is digits only, anchored at the start "
               "and at the end of the STRING. (R4) each of allocate/set/input raises OnlyOneCodeError if a code was started and sets "
               "the flag before delegating. (R5) Input table: words before a nameplate and anything after the words raise; an "
               "allocated code is nameplate + '-' + the chosen words. Statistical uniformity of os.urandom is trusted.")
TRUSTED_BASE = ["T1", "T2", "T4"]
MIN_OBLIGATIONS = 25

WL = "src/wormhole/_wordlist.py"
NP = "src/wormhole/_nameplate.py"
CODE = "src/wormhole/_code.py"
BOSS = "src/wormhole/_boss.py"
INP = "src/wormhole/_input.py"
ALLOC = "src/wormhole/_allocator.py"


def r1(tree, rep):
    consts = tree.module_constants(WL)
    rw = consts.get("raw_words")
    if not isinstance(rw, ast.Dict):
        raise AnalysisError("_wordlist.raw_words is not a dict literal")
    keys = [const(k) for k in rw.keys]
    vals = []
    ok_shape = True
    for v in rw.values:
        if isinstance(v, (ast.List, ast.Tuple)) and len(v.elts) == 2 and all(isinstance(const(e), str) for e in v.elts):
            vals.append((const(v.elts[0]), const(v.elts[1])))
        else:
            ok_shape = False
    rep.check("C19.R1", "raw_words: every entry is a pair of string literals (%d entries)" % len(rw.values), ok_shape, site(rw, WL), key="C19.R1:shape")
    want = ["%02X" % i for i in range(256)]
    rep.check("C19.R1", "raw_words has exactly the 256 keys 00..FF, each once", sorted(str(k).upper() for k in keys) == want and len(set(keys)) == 256, site(rw, WL),
              key="C19.R1:keys", what="raw_words has %d keys (%d distinct)" % (len(keys), len(set(keys))))
    if ok_shape:
        even = [a.lower() for a, b in vals]
        odd = [b.lower() for a, b in vals]
        rep.check("C19.R1", "256 distinct even words", len(set(even)) == 256, site(rw, WL), key="C19.R1:even-distinct", what="%d distinct even words" % len(set(even)))
        rep.check("C19.R1", "256 distinct odd words", len(set(odd)) == 256, site(rw, WL), key="C19.R1:odd-distinct", what="%d distinct odd words" % len(set(odd)))
        rep.check("C19.R1", "even and odd lists are disjoint", not (set(even) & set(odd)), site(rw, WL), key="C19.R1:disjoint",
                  what="words in both lists: %s" % sorted(set(even) & set(odd))[:5])
        bad = [w for w in even + odd if not w or any(ch in w for ch in "- \t\n") or not w.isalpha()]
        rep.check("C19.R1", "no word contains a hyphen, whitespace or a non-letter", not bad, site(rw, WL), key="C19.R1:word-chars", what="bad words %s" % bad[:5])
    # derived tables
    for name, idx in (("byte_to_even_word", 0), ("byte_to_odd_word", 1)):
        d = consts.get(name)
        ok = isinstance(d, ast.DictComp) and isinstance(d.value, ast.Subscript) and const(d.value.slice) == idx and \
            isinstance(d.generators[0].iter, ast.Call) and dotted(d.generators[0].iter.func) == "raw_words.items" and \
            isinstance(d.key, ast.Call) and ((dotted(d.key.func) or "").endswith("unhexlify") or dotted(d.key.func) == "bytes.fromhex")
        rep.check("C19.R1", "%s maps unhexlify(key) to word #%d of every raw_words entry" % (name, idx), ok, site(d, WL) if d is not None else WL, key="C19.R1:%s" % name)
    mod = tree.ast(WL)
    adds = {}
    for n in ast.walk(mod):
        if isinstance(n, ast.For) and isinstance(n.iter, ast.Call) and dotted(n.iter.func) == "raw_words.items":
            for c in ast.walk(n):
                if isinstance(c, ast.Call) and isinstance(c.func, ast.Attribute) and c.func.attr == "add" and isinstance(c.func.value, ast.Name):
                    arg = expand_flow(mod, c.args[0]) if False else c.args[0]
                    adds[c.func.value.id] = arg
    # even_word, odd_word = both_words
    ok = set(adds) == {"even_words_lowercase", "odd_words_lowercase"}
    if ok:
        for setname, var in (("even_words_lowercase", "even_word"), ("odd_words_lowercase", "odd_word")):
            a = adds[setname]
            ok = ok and isinstance(a, ast.Call) and isinstance(a.func, ast.Attribute) and a.func.attr == "lower" and dotted(a.func.value) == var
        unp = [n for n in ast.walk(mod) if isinstance(n, ast.Assign) and isinstance(n.targets[0], ast.Tuple)
               and [getattr(e, "id", None) for e in n.targets[0].elts] == ["even_word", "odd_word"]]
        ok = ok and len(unp) == 1
    rep.check("C19.R1", "the lower-case completion sets are filled with word #0 (even) and word #1 (odd) of every entry", ok, WL, key="C19.R1:lowercase-sets")


def _int(e):
    if isinstance(e, ast.UnaryOp) and isinstance(e.op, ast.USub) and isinstance(e.operand, ast.Constant):
        return -e.operand.value
    return e.value if isinstance(e, ast.Constant) and isinstance(e.value, int) else None


def _parity_truth(test, is_var, parity):
    """truth of a parity test on X (is_var(X)) when X % 2 == parity:  X % 2 == 0|1, X % 2 != 0|1, X % 2, X & 1;  else None"""
    def mod2(e):
        return isinstance(e, ast.BinOp) and ((isinstance(e.op, ast.Mod) and const(e.right) == 2) or (isinstance(e.op, ast.BitAnd) and const(e.right) == 1)) \
            and is_var(e.left)
    if mod2(test):
        return parity == 1
    if isinstance(test, ast.Compare) and len(test.ops) == 1 and isinstance(test.ops[0], (ast.Eq, ast.NotEq)):
        l, r = test.left, test.comparators[0]
        if mod2(r):
            l, r = r, l
        if mod2(l) and const(r) in (0, 1) and not isinstance(const(r), bool):
            return (const(r) == parity) == isinstance(test.ops[0], ast.Eq)
    return None


def _peval(expr, is_var, parity):
    """simplify conditional expressions and constant-index selections that depend on the parity of X"""
    import copy

    class T(ast.NodeTransformer):
        def visit_IfExp(self, n):
            self.generic_visit(n)
            t = n.test
            neg = False
            while isinstance(t, ast.UnaryOp) and isinstance(t.op, ast.Not):
                neg = not neg
                t = t.operand
            v = _parity_truth(t, is_var, parity)
            if v is None:
                return n
            return n.body if (v != neg) else n.orelse

        def visit_Subscript(self, n):
            self.generic_visit(n)
            if isinstance(n.value, (ast.Tuple, ast.List)) and len(n.value.elts) == 2 and _parity_truth(n.slice, is_var, parity) is not None \
                    and isinstance(n.slice, ast.BinOp):
                return n.value.elts[parity]
            return n
    return T().visit(copy.deepcopy(expr))


def _parity_branch(fn, test):
    """for `X % 2 == 0` (or != / == 1): returns (X expression, True if the test is true for EVEN values)"""
    if isinstance(test, ast.Compare) and len(test.ops) == 1 and isinstance(test.left, ast.BinOp) and isinstance(test.left.op, ast.Mod) \
            and const(test.left.right) == 2 and const(test.comparators[0]) in (0, 1):
        even = (isinstance(test.ops[0], ast.Eq) and const(test.comparators[0]) == 0) or (isinstance(test.ops[0], ast.NotEq) and const(test.comparators[0]) == 1)
        odd = (isinstance(test.ops[0], ast.Eq) and const(test.comparators[0]) == 1) or (isinstance(test.ops[0], ast.NotEq) and const(test.comparators[0]) == 0)
        if even or odd:
            return test.left.left, even
    return None, None


def r2(tree, rep):
    cw = tree.func(WL, "PGPWordList", "choose_words")
    loops = [n for n in walk_shallow(cw) if isinstance(n, ast.For)]
    ok = len(loops) == 1
    parity_choose = None
    rets = [r for r in walk_shallow(cw) if isinstance(r, ast.Return)]
    joined = rets[0].value.args[0] if len(rets) == 1 and isinstance(rets[0].value, ast.Call) and isinstance(rets[0].value.func, ast.Attribute) \
        and rets[0].value.func.attr == "join" and len(rets[0].value.args) == 1 else None
    lname = joined.id if isinstance(joined, ast.Name) else None
    if ok:
        lp = loops[0]
        ok = isinstance(lp.iter, ast.Call) and dotted(lp.iter.func) == "range" and len(lp.iter.args) == 1 and isinstance(lp.iter.args[0], ast.Name) \
            and lp.iter.args[0].id == params(cw)[0] and isinstance(lp.target, ast.Name) and lname is not None \
            and not any(isinstance(x, (ast.Break, ast.Continue, ast.Return)) for x in ast.walk(lp))
    if ok:
        # evaluate one loop iteration for an even and for an odd index: which table is the (single) appended word drawn from?
        gcw = build(cw, split=True)
        is_i = lambda e: isinstance(e, ast.Name) and e.id == lp.target.id
        tabs = {}
        for parity in (0, 1):
            found = set()
            for nodes, end in gcw.paths_under(lambda t, parity=parity: _parity_truth(t, is_i, parity)):
                apps = [x for x in nodes if isinstance(gcw.stmt[x], ast.Expr) and isinstance(gcw.stmt[x].value, ast.Call)
                        and dotted(gcw.stmt[x].value.func) == lname + ".append"]
                others = [x for x in nodes if x not in apps and any(isinstance(n, ast.Name) and n.id == lname and not isinstance(n.ctx, ast.Load)
                                                                     or (isinstance(n, ast.Attribute) and isinstance(n.value, ast.Name) and n.value.id == lname
                                                                         and n.attr in ("extend", "insert", "pop", "remove", "clear", "sort", "reverse"))
                                                                     for e in gcw.head_expr(x) for n in ast.walk(e))
                          and not (isinstance(gcw.stmt[x], ast.Assign) and isinstance(gcw.stmt[x].value, ast.List) and not gcw.stmt[x].value.elts)]
                if others or end != 'exit':
                    found.add("?")
                    continue
                if not apps:
                    continue                      # the empty range
                if len(apps) != 1:
                    found.add("?")
                    continue
                # the random byte is drawn inside this iteration (locals bound before the loop are not looked through) ...
                in_loop = {id(x) for x in ast.walk(lp) if isinstance(x, ast.stmt)}
                inner = [x for x in nodes if id(gcw.stmt[x]) in in_loop or (isinstance(gcw.stmt[x], tuple) and id(gcw.stmt[x][2]) in in_loop)]
                a = gcw.subst_env(gcw.stmt[apps[0]].value.args[0], gcw.path_env(inner, upto=apps[0]))
                a = _peval(a, is_i, parity)
                base = a.func.value if isinstance(a, ast.Call) and isinstance(a.func, ast.Attribute) and a.func.attr == "lower" and not a.args else None
                if isinstance(base, ast.Subscript) and isinstance(base.slice, ast.Call) and dotted(base.slice.func) == "os.urandom" \
                        and len(base.slice.args) == 1 and const(base.slice.args[0]) == 1:
                    # ... the table may have been named before the loop
                    tb = _peval(gcw.subst_env(base.value, gcw.path_env(nodes, upto=apps[0])), is_i, parity)
                    found.add(dotted(tb) or "?")
                else:
                    found.add("?")
            tabs[parity] = found
        parity_choose = (sorted(tabs[0]), sorted(tabs[1]))
        ok = tabs[0] == {"byte_to_odd_word"} and tabs[1] == {"byte_to_even_word"}
    rep.check("C19.R2", "choose_words: for i in range(length): exactly one word, indexed by a fresh os.urandom(1), odd list for even i then even list",
              ok, site(cw, WL), key="C19.R2:choose_words", what="the allocated words are not one fresh uniform byte each / the alternation is wrong (%s)" % (parity_choose,))
    ok = lname is not None and const(rets[0].value.func.value) == "-"
    inits = [d for d in local_defs(cw, lname)] if lname else []
    ok = ok and len(inits) == 1 and isinstance(inits[0], ast.List) and not inits[0].elts
    rep.check("C19.R2", "choose_words returns the words joined by '-' (nothing else is added)", ok, site(cw, WL), key="C19.R2:choose_words:join")
    gc = tree.func(WL, "PGPWordList", "get_completions")
    # which list is scanned when an even / odd number of hyphens has been typed?
    ggc = build(gc, split=True)

    def is_hyphens(e):
        xv = expand_flow(gc, e) if isinstance(e, ast.Name) else e
        return isinstance(xv, ast.Call) and isinstance(xv.func, ast.Attribute) and xv.func.attr == "count" and len(xv.args) == 1 \
            and const(xv.args[0]) == "-" and isinstance(xv.func.value, ast.Name) and xv.func.value.id == params(gc)[0]
    floops = [n for n in ggc.nodes(lambda st: isinstance(st, ast.For))]
    ok = len(floops) == 1
    lists = {}
    if ok:
        for parity in (0, 1):
            found = set()
            for nodes, end in ggc.paths_under(lambda t, parity=parity: _parity_truth(t, is_hyphens, parity)):
                if floops[0] not in nodes:
                    found.add("?")           # a path that never scans a list
                    continue
                it = ggc.subst_env(ggc.stmt[floops[0]].iter, ggc.path_env(nodes, upto=floops[0]))
                found.add(dotted(_peval(it, is_hyphens, parity)) or "?")
            lists[parity] = found
        ok = lists[0] == {"odd_words_lowercase"} and lists[1] == {"even_words_lowercase"}
    rep.check("C19.R2", "get_completions picks the list by (number of hyphens typed) % 2: odd list for word 1, 3, .., even list for word 2, 4, ..", ok,
              site(gc, WL), key="C19.R2:get_completions:parity",
              what="completion offers words from the list that choose_words never uses at that position (an accepted completion yields a code allocate could not produce)")
    g = build(gc)
    adds = g.call_nodes(lambda c: dotted(c.func) == "completions.add")
    sw_calls = [c for c in ast.walk(gc) if isinstance(c, ast.Call) and isinstance(c.func, ast.Attribute) and c.func.attr == "startswith"
                and isinstance(c.func.value, ast.Name) and c.func.value.id == "word" and len(c.args) == 1]
    starts = truthy_atom(lambda e: any(e is c for c in sw_calls))
    gs = build(gc, split=True)
    adds = gs.call_nodes(lambda c: dotted(c.func) == "completions.add")
    ok = len(adds) == 1 and len(sw_calls) == 1 and not gs.only_when(adds, starts, True)
    if ok:
        lpw = expand_flow(gc, sw_calls[0].args[0])
        # the partial last word: prefix.split("-")[-1]  /  prefix.rpartition("-")[2] (or [-1])
        ok = isinstance(lpw, ast.Subscript) and isinstance(lpw.value, ast.Call) and isinstance(lpw.value.func, ast.Attribute) \
            and ((lpw.value.func.attr in ("split", "rsplit") and _int(lpw.slice) == -1)
                 or (lpw.value.func.attr == "rpartition" and _int(lpw.slice) in (2, -1))) and const(lpw.value.args[0]) == "-"
    rep.check("C19.R2", "a word is offered only if it starts with the partial last word typed", ok, site(gc, WL), key="C19.R2:get_completions:prefix-guard")
    loopw = [n for n in walk_shallow(gc) if isinstance(n, ast.For)]
    rep.check("C19.R2", "get_completions scans the whole chosen list", len(loopw) == 1 and not any(isinstance(x, (ast.Break, ast.Return)) for x in ast.walk(loopw[0])),
              site(gc, WL), key="C19.R2:get_completions:scan")
    # no `random` module anywhere in the package's code path
    offenders = []
    for p in tree.paths():
        for n in ast.walk(tree.ast(p)):
            if isinstance(n, ast.Import) and any(a.name == "random" or a.name.startswith("random.") for a in n.names):
                offenders.append((p, n))
            if isinstance(n, ast.ImportFrom) and n.module == "random":
                offenders.append((p, n))
    rep.check("C19.R2", "the package never imports the `random` module (code words come from os.urandom)", not offenders,
              site(offenders[0][1], offenders[0][0]) if offenders else WL, key="C19.R2:no-random-module")
    ig = tree.func(INP, "Input", "_get_nameplate_completions")
    g = build(ig, split=True)
    set_locals = {n.targets[0].id for n in ast.walk(ig) if isinstance(n, ast.Assign) and isinstance(n.targets[0], ast.Name)
                  and isinstance(n.value, ast.Call) and dotted(n.value.func) == "set" and not n.value.args}
    adds = g.call_nodes(lambda c: isinstance(c.func, ast.Attribute) and c.func.attr == "add" and isinstance(c.func.value, ast.Name)
                        and c.func.value.id in set_locals)
    starts_np = truthy_atom(lambda e: isinstance(e, ast.Call) and isinstance(e.func, ast.Attribute) and e.func.attr == "startswith"
                            and len(e.args) == 1 and isinstance(e.args[0], ast.Name) and e.args[0].id == params(ig)[0])
    rep.check("C19.R2", "a nameplate completion is offered only if it starts with the typed prefix", len(adds) == 1 and not g.only_when(adds, starts_np, True),
              site(ig, INP), key="C19.R2:nameplate-completions")


def _pattern_ok(pat, how):
    """digits only, anchored at start and at end of STRING.  how in search/match/fullmatch"""
    try:
        import re._parser as sre_parse
        import re._constants as C
    except ImportError:  # pragma: no cover (older pythons)
        import sre_parse
        import sre_constants as C
    try:
        p = list(sre_parse.parse(pat))
    except Exception as e:
        return False, "pattern does not parse: %s" % e
    ops = [(op, av) for op, av in p]
    start_ok = how in ("match", "fullmatch")
    end_ok = how == "fullmatch"
    if ops and ops[0][0] == C.AT and ops[0][1] in (C.AT_BEGINNING, C.AT_BEGINNING_STRING):
        start_ok = True
        ops = ops[1:]
    if ops and ops[-1][0] == C.AT:
        if ops[-1][1] == C.AT_END_STRING:
            end_ok = True
        elif ops[-1][1] == C.AT_END and not end_ok:
            return False, "end anchor `$` also matches before a trailing newline (use \\Z or fullmatch)"
        ops = ops[:-1]
    if not start_ok:
        return False, "not anchored at the start"
    if not end_ok:
        return False, "not anchored at the end of the string"
    if len(ops) != 1 or ops[0][0] not in (C.MAX_REPEAT,):
        return False, "body is not a single repetition"
    lo, hi, sub = ops[0][1]
    if lo < 1:
        return False, "empty nameplate allowed"
    sub = list(sub)
    if len(sub) != 1 or sub[0][0] != C.IN:
        return False, "body is not a character class"
    for op, av in sub[0][1]:
        if op == C.CATEGORY and av == C.CATEGORY_DIGIT:
            continue
        if op == C.RANGE and av == (ord("0"), ord("9")):
            continue
        if op == C.LITERAL and chr(av).isdigit():
            continue
        return False, "class contains non-digits"
    return True, ""


def r3(tree, rep):
    vn = tree.func(NP, None, "validate_nameplate")
    g = build(vn)
    p0 = params(vn, False)[0]
    found = []
    for c in ast.walk(vn):
        if isinstance(c, ast.Call):
            d = dotted(c.func) or ""
            if d in ("re.search", "re.match", "re.fullmatch") and len(c.args) >= 2 and isinstance(const(c.args[0]), str) and isinstance(c.args[1], ast.Name) and c.args[1].id == p0:
                found.append((const(c.args[0]), d.split(".")[1], c, len(c.args) > 2 or bool(c.keywords)))
            elif isinstance(c.func, ast.Attribute) and c.func.attr in ("search", "match", "fullmatch") and isinstance(c.func.value, ast.Name) \
                    and c.args and isinstance(c.args[0], ast.Name) and c.args[0].id == p0:
                comp = tree.module_constants(NP).get(c.func.value.id)
                if isinstance(comp, ast.Call) and dotted(comp.func) == "re.compile" and isinstance(const(comp.args[0]), str):
                    found.append((const(comp.args[0]), c.func.attr, c, len(comp.args) > 1 or bool(comp.keywords)))
    ok = len(found) == 1
    why = "no single regular-expression test of the nameplate found"
    if ok:
        pat, how, call, flags = found[0]
        ok, why = _pattern_ok(pat, how)
        if flags:
            ok, why = False, "regex flags change the meaning of the anchors"
        rep.sample({"rule": "C19.R3", "pattern": pat, "method": how})
    rep.check("C19.R3", "validate_nameplate accepts exactly non-empty digit strings (pattern anchored at start and at the end of the string)", ok,
              site(vn, NP), key="C19.R3:nameplate-pattern", what="the nameplate pattern admits non-numeric input: %s" % why)
    if len(found) == 1:
        the_call = found[0][2]

        def matches(e):
            if e is the_call:
                return True
            if isinstance(e, ast.Compare) and len(e.ops) == 1 and e.left is the_call and isinstance(e.comparators[0], ast.Constant) \
                    and e.comparators[0].value is None:
                return "neg" if isinstance(e.ops[0], (ast.Is, ast.Eq)) else (True if isinstance(e.ops[0], (ast.IsNot, ast.NotEq)) else None)
            return None
        gs = build(vn, split=True)
        ok = gs.when_always_raises(matches, False) and not gs.only_when([gs.exit], matches, True)
        rep.check("C19.R3", "validate_nameplate raises when the pattern does not match", ok, site(vn, NP), key="C19.R3:nameplate-raises")
    vc = tree.func(CODE, None, "validate_code")
    g = build(vc, split=True)
    has_space = in_atom(lambda e: const(e) == " ", lambda e: isinstance(e, ast.Name) and e.id == params(vc, False)[0])
    vnc = g.call_nodes(lambda c: dotted(c.func) == "validate_nameplate")
    ok = g.when_always_raises(has_space, True) and not g.only_when([g.exit], has_space, False) and len(vnc) == 1 and g.must_pass(vnc)
    if ok:
        c = [c for c in ast.walk(g.stmt[vnc[0]]) if isinstance(c, ast.Call) and dotted(c.func) == "validate_nameplate"][0]
        a = expand(vc, c.args[0])
        # the part before the first hyphen: code.split("-"[, n])[0]  or  code.partition("-")[0]
        ok = isinstance(a, ast.Subscript) and const(a.slice) == 0 and isinstance(a.value, ast.Call) and isinstance(a.value.func, ast.Attribute) \
            and a.value.func.attr in ("split", "partition") and const(a.value.args[0]) == "-" \
            and isinstance(a.value.func.value, ast.Name) and a.value.func.value.id == params(vc, False)[0]
    rep.check("C19.R3", "validate_code rejects a space anywhere and validates the part before the first hyphen as the nameplate", ok, site(vc, CODE), key="C19.R3:validate_code")
    for (f, cls, meth, first, then_) in ((BOSS, "Boss", "set_code", "validate_code", ("self._C.set_code",)),
                                         (CODE, "Code", "set_code", "validate_code", ("self._set_code",)),
                                         (INP, "Input", "choose_nameplate", "validate_nameplate", ("self._choose_nameplate",)),
                                         (NP, "Nameplate", "set_nameplate", "validate_nameplate", ("self._set_nameplate",))):
        fn = tree.func(f, cls, meth)
        g = build(fn)
        v = g.call_nodes(lambda c, first=first: dotted(c.func) == first and isinstance(c.args[0], ast.Name) and c.args[0].id in params(fn))
        eff = g.call_nodes(lambda c: (dotted(c.func) or "").startswith("self.")) + g.nodes(
            lambda s: isinstance(s, (ast.Assign, ast.AugAssign)) and any(is_self_attr(t) for t in (s.targets if isinstance(s, ast.Assign) else [s.target])))
        eff = [e for e in eff if e not in v]
        ok = len(v) >= 1 and not g.precedes(v, eff) and bool(eff)
        rep.check("C19.R3", "%s.%s validates its argument before any state change or send" % (cls, meth), ok, site(fn, f), key="C19.R3:validate-first:%s.%s" % (cls, meth),
                  what="%s.%s can change state / send with a malformed %s" % (cls, meth, "code" if "code" in first else "nameplate"))


def r4(tree, rep):
    from ..cfg import object_atom
    _no = lambda v: isinstance(v, ast.Constant) and (v.value is False or v.value is None)
    _yes = lambda v: isinstance(v, ast.Constant) and not _no(v) and bool(v.value)
    for meth, delegate in (("input_code", "self._C.input_code"), ("allocate_code", "self._C.allocate_code"), ("set_code", "self._C.set_code")):
        fn = tree.func(BOSS, "Boss", meth)
        g = build(fn, split=True)
        started = object_atom(lambda e: is_self_attr(e, "_did_start_code"))       # False / None = "not yet", anything else = started
        sets = g.nodes(lambda s: isinstance(s, ast.Assign) and any(is_self_attr(x, "_did_start_code") for x in s.targets) and _yes(s.value))
        dl = g.call_nodes(lambda c, delegate=delegate: dotted(c.func) == delegate)
        te = g.cond_edges(started, True)
        ok = len(sets) == 1 and len(dl) == 1 and bool(te) and g.when_always_raises(started, True) and not g.only_when(dl + sets, started, False) \
            and not g.precedes(sets, dl)
        if ok:
            rs = [r for r in g.nodes(lambda s: isinstance(s, ast.Raise)) if any(r in g.reach([y]) for (x, y, l) in te)]
            ok = any(dotted(g.stmt[r].exc.func if isinstance(g.stmt[r].exc, ast.Call) else g.stmt[r].exc) == "OnlyOneCodeError" for r in rs)
        rep.check("C19.R4", "Boss.%s raises OnlyOneCodeError if a code was already started, and sets the flag before delegating to Code" % meth, ok, site(fn, BOSS),
                  key="C19.R4:Boss.%s" % meth, what="%s can be used after another code method was used (two codes / two allocations)" % meth)
    own, foreign = class_writers(tree, "Boss", "_did_start_code")
    ok = not foreign and all((w.fn == "_init_other_state" and _no(w.value)) or (w.fn in ("input_code", "allocate_code", "set_code") and _yes(w.value)) for w in own)
    rep.check("C19.R4", "Boss._did_start_code is cleared only by the constructor and set only by the three entry points", ok and len(own) == 4, BOSS, key="C19.R4:flag-writers",
              what="writers: %s" % [w.brief() for w in own + foreign])
    from ..astutil import walk_shallow as ws
    for cls in ("_DeferredWormhole", "_DelegatedWormhole"):
        for meth, callee in (("allocate_code", "self._boss.allocate_code"), ("set_code", "self._boss.set_code"), ("input_code", "self._boss.input_code")):
            fn = tree.func("src/wormhole/wormhole.py", cls, meth)
            rep.check("C19.R4", "%s.%s goes through the Boss entry point" % (cls, meth), len(calls_named(fn, callee)) == 1, site(fn, "src/wormhole/wormhole.py"),
                      key="C19.R4:frontend:%s.%s" % (cls, meth))


def r5(tree, rep):
    prog = Program(tree)
    I = prog.machine("Input")
    start = [r.enter for r in I.rows_on("start")]
    typing_np = start[0] if len(set(start)) == 1 else None
    r = I.row(typing_np, "choose_words") if typing_np else None
    rep.check("C19.R5", "choosing words before a nameplate raises", r is not None and any(output_raises(I, o) for o in r.outputs) and r.enter == typing_np, I.file,
              key="C19.R5:words-before-nameplate")
    done = [r.enter for r in I.rows_on("choose_words") if r.enter != r.src]
    ok = len(set(done)) == 1
    if ok:
        d = done[0]
        for i in ("refresh_nameplates", "get_nameplate_completions", "_choose_nameplate", "get_word_completions", "choose_words"):
            r = I.row(d, i)
            rep.check("C19.R5", "after the words were chosen, Input.%s raises" % i, r is not None and any(output_raises(I, o) for o in r.outputs) and r.enter == d,
                      r.site if r else I.file, key="C19.R5:after-words:%s" % i)
    for r in I.rows_on("_choose_nameplate"):
        if r.src != typing_np:
            rep.check("C19.R5", "a second nameplate choice (state %s) raises" % r.src, any(output_raises(I, o) for o in r.outputs), r.site, key="C19.R5:second-nameplate:%s" % r.src)
    dw = I.outputs.get("do_words")
    ok = False
    if dw is not None:
        fi = calls_named(dw, "self._C.finished_input")
        if len(fi) == 1:
            v = expand(dw, fi[0].args[0])
            from ..astutil import hyphen_joined
            hj = hyphen_joined(v)
            ok = hj is not None and is_self_attr(hj[0], "_nameplate") and isinstance(hj[1], ast.Name) and hj[1].id in params(dw)
    rep.check("C19.R5", "the entered code is <chosen nameplate> + '-' + <chosen words>", ok, site(dw, I.file) if dw else I.file, key="C19.R5:do_words")
    A = prog.machine("Allocator")
    bn = A.outputs.get("build_and_notify")
    ok = False
    if bn is not None:
        al = calls_named(bn, "self._C.allocated")
        cw = [c for c in ast.walk(bn) if isinstance(c, ast.Call) and isinstance(c.func, ast.Attribute) and c.func.attr == "choose_words"]
        if len(al) == 1 and len(cw) == 1 and len(al[0].args) == 2 and len(cw[0].args) == 1:
            v = expand(bn, al[0].args[1])
            from ..astutil import hyphen_joined
            hj = hyphen_joined(v)
            ok = hj is not None and isinstance(hj[0], ast.Name) and hj[0].id in params(bn) \
                and isinstance(hj[1], ast.Call) and isinstance(hj[1].func, ast.Attribute) and hj[1].func.attr == "choose_words" \
                and isinstance(al[0].args[0], ast.Name) and al[0].args[0].id == hj[0].id
    rep.check("C19.R5", "an allocated code is <server nameplate> + '-' + choose_words(..)", ok, site(bn, A.file) if bn else A.file, key="C19.R5:build_and_notify")

    def stored_sources(expr):
        """what the Allocator stored in the place `expr` reads: self.<a> -> the values its writers assign; a local unpacked
        from self.<a> = (x, y) at position i -> element i of what the writers assign.  None = cannot tell."""
        e = expr
        idx = None
        if isinstance(e, ast.Name):
            for asg in ast.walk(bn):
                if isinstance(asg, ast.Assign) and len(asg.targets) == 1:
                    t = asg.targets[0]
                    if isinstance(t, ast.Name) and t.id == e.id:
                        e = asg.value
                        break
                    if isinstance(t, ast.Tuple) and any(isinstance(x, ast.Name) and x.id == e.id for x in t.elts):
                        idx = [getattr(x, "id", None) for x in t.elts].index(e.id)
                        e = asg.value
                        break
            else:
                return None
        if isinstance(e, ast.Subscript) and isinstance(const(e.slice), int):
            idx, e = const(e.slice), e.value
        if not is_self_attr(e):
            return None
        own, foreign = class_writers(tree, "Allocator", e.attr)
        if foreign or not own:
            return None
        out = []
        for w in own:
            val = w.value
            if idx is not None:
                if isinstance(val, ast.Constant) and val.value is None:
                    continue                 # the "nothing requested yet" initial value
                if not (isinstance(val, ast.Tuple) and idx < len(val.elts)):
                    return None
                val = val.elts[idx]
            out.append((w, val))
        return out
    ok = False
    if bn is not None and len(cw) == 1 and len(cw[0].args) == 1:
        src = stored_sources(cw[0].args[0])
        ok = bool(src) and all(isinstance(val, ast.Name) and val.id == "length" for (w, val) in src)
        rcv = stored_sources(cw[0].func.value)
        ok = ok and bool(rcv) and all(isinstance(val, ast.Call) and dotted(val.func) == "_interfaces.IWordlist" and len(val.args) == 1
                                      and isinstance(val.args[0], ast.Name) and val.args[0].id == "wordlist" for (w, val) in rcv)
    rep.check("C19.R5", "the words are chosen by the wordlist, and with the length, given to allocate()", ok, A.file, key="C19.R5:_length")
    ba = tree.func(BOSS, "Boss", "allocate_code")
    cs = calls_named(ba, "self._C.allocate_code")
    ok = len(cs) == 1 and isinstance(cs[0].args[0], ast.Name) and cs[0].args[0].id in params(ba) and isinstance(expand(ba, cs[0].args[1]), ast.Call) \
        and dotted(expand(ba, cs[0].args[1]).func) == "PGPWordList"
    rep.check("C19.R5", "Boss.allocate_code passes the requested length and the PGP word list", ok, site(ba, BOSS), key="C19.R5:Boss.allocate_code")


RLC = "src/wormhole/_rlcompleter.py"


def r6(tree, rep):
    """interactive entry hands the code it was given to the input helper, or fails: CodeInputter.finish never swallows what
    choose_nameplate / choose_words raise (a nameplate chosen earlier - by a TAB that got as far as the claim - stays the nameplate:
    entering another one must fail, not silently become the first)"""
    fn = tree.func(RLC, "CodeInputter", "finish")
    calls = [c for c in ast.walk(fn) if isinstance(c, ast.Call) and any(
        isinstance(x, ast.Attribute) and x.attr in ("choose_nameplate", "choose_words") for x in ast.walk(c))]
    if len(calls) < 2:
        raise AnalysisError("CodeInputter.finish no longer calls choose_nameplate / choose_words")
    bad = []
    for t in [n for n in ast.walk(fn) if isinstance(n, ast.Try)]:
        if not any(c in list(ast.walk(b)) for b in t.body for c in calls):
            continue
        for h in t.handlers:
            g = build(fn)
            hn = g.node_of(h)
            raises = g.nodes(lambda st: isinstance(st, ast.Raise))
            if hn is None or not g.must_pass(raises, start=hn, to=[g.exit], explicit_only=True):
                bad.append(h)
    rep.check("C19.R6", "CodeInputter.finish lets every error of choose_nameplate / choose_words reach the caller (%d helper calls)" % len(calls),
              not bad, site(bad[0] if bad else fn, RLC), key="C19.R6:finish:errors-propagate",
              what="CodeInputter.finish swallows an error raised by the input helper (%s): the code that is finally used can differ from the "
                   "code the user entered" % (ast.unparse(bad[0].type) if bad and bad[0].type is not None else "bare except"))


def r7(tree, rep):
    """the nameplates offered for completion are those of the latest listing: Input._all_nameplates is replaced (not merged) by the
    listing it is given"""
    own, foreign = class_writers(tree, "Input", "_all_nameplates")
    fn = tree.func(INP, "Input", "record_nameplates")
    ps = params(fn)
    ok = not foreign and bool(own)
    n_assign = 0
    for w in own:
        if w.fn in ("__init__", "__attrs_post_init__"):
            ok = ok and w.kind == "assign" and is_empty_ctor(w.value, ("set", "list", "frozenset"))
        elif w.fn == "record_nameplates" and w.kind == "assign":
            n_assign += 1
            v = w.value
            while isinstance(v, ast.Call) and isinstance(v.func, ast.Name) and v.func.id in ("set", "frozenset", "sorted", "list", "tuple") and len(v.args) == 1:
                v = v.args[0]
            ok = ok and isinstance(v, ast.Name) and v.id in ps and not local_defs(fn, v.id)
        else:
            ok = False
    # ... by EVERY listing, the empty one included (the server reporting "no nameplates" retires what was on offer)
    from ..cfg import build as _build
    g7 = _build(fn)
    asg7 = g7.nodes(lambda s_: isinstance(s_, ast.Assign) and any(is_self_attr(t, "_all_nameplates") for t in s_.targets))
    ok = ok and bool(asg7) and g7.must_pass(asg7, explicit_only=True)
    rep.check("C19.R7", "Input._all_nameplates is replaced by each listing, on every path (assigned from record_nameplates' parameter; never merged, "
              "updated or kept)", ok and n_assign == 1, own[0].site if own else INP, key="C19.R7:_all_nameplates:replaced",
              what="nameplates of an earlier listing stay on offer after the server released them (writers: %s): a completion can name a "
                   "nameplate nobody is waiting on" % [w.brief() for w in own + foreign])


def run(tree, rep, tier):
    from .. import round9 as _r9
    _r9.completions_from_wordlist(tree, rep, "C19.R8")
    r6(tree, rep)
    r7(tree, rep)
    r1(tree, rep)
    r2(tree, rep)
    r3(tree, rep)
    r4(tree, rep)
    r5(tree, rep)


ALLOC = "src/wormhole/_allocator.py"
MUTANTS = [
    Mutant("allocator-fixed-length", ALLOC, "        words = self._wordlist.choose_words(self._length)", "        words = self._wordlist.choose_words(2)", "C19.R5"),
    Mutant("allocator-length-off", ALLOC, "    def stash(self, length, wordlist):\n        self._length = length", "    def stash(self, length, wordlist):\n        self._length = length + 1", "C19.R5"),
    Mutant("dup-word", WL, "    '01': ['absurd', 'adviser'],", "    '01': ['aardvark', 'adviser'],", "C19.R1"),
    Mutant("drop-entry", WL, "    '01': ['absurd', 'adviser'],\n", "", "C19.R1"),
    Mutant("urandom-hoisted", WL, "        words = []\n        for i in range(length):", "        words = []\n        b = os.urandom(1)\n        for i in range(length):", "C19.R2",
           also=((WL, "                words.append(byte_to_odd_word[os.urandom(1)].lower())", "                words.append(byte_to_odd_word[b].lower())"),)),
    Mutant("completions-parity-flipped", WL, "        if count % 2 == 0:\n            words = odd_words_lowercase", "        if count % 2 == 1:\n            words = odd_words_lowercase", "C19.R2"),
    Mutant("completions-done-not-parity", WL, "        count = prefix.count(\"-\")\n        if count % 2 == 0:", "        count = prefix.count(\"-\")\n        if count == 0:", "C19.R2"),
    Mutant("choose-same-list", WL, "                words.append(byte_to_even_word[os.urandom(1)].lower())", "                words.append(byte_to_odd_word[os.urandom(1)].lower())", "C19.R2"),
    Mutant("regex-no-end", NP, "r'^\\d+\\Z'", "r'^\\d+'", "C19.R3"),
    Mutant("regex-dollar", NP, "r'^\\d+\\Z'", "r'^\\d+$'", "C19.R3"),
    Mutant("regex-compiled-match", NP, "    if not re.search(r'^\\d+\\Z', nameplate):", "    if not re.compile(r'\\d+').match(nameplate):", "C19.R3"),
    Mutant("set_code-validates-late", BOSS, "        validate_code(code)  # can raise KeyFormatError\n        if self._did_start_code:\n            raise OnlyOneCodeError()\n        self._did_start_code = True\n        self._C.set_code(code)",
           "        if self._did_start_code:\n            raise OnlyOneCodeError()\n        self._did_start_code = True\n        validate_code(code)  # can raise KeyFormatError\n        self._C.set_code(code)", "C19.R3"),
    Mutant("allocate-no-guard", BOSS, "    def allocate_code(self, code_length):\n        if self._did_start_code:\n            raise OnlyOneCodeError()\n", "    def allocate_code(self, code_length):\n", "C19.R4"),
    Mutant("space-check-dropped", CODE, "    if ' ' in code:\n        raise KeyFormatError(f\"Code '{code}' contains spaces.\")\n", "", "C19.R3"),
    Mutant("done-allows-words", INP, "    S4_done.upon(\n        choose_words, enter=S4_done, outputs=[raise_already_chose_words2])", "    S4_done.upon(\n        choose_words, enter=S4_done, outputs=[do_words])", "C19.R5"),
]
REWRITES = [
    Rewrite("regex-fullmatch", NP, "    if not re.search(r'^\\d+\\Z', nameplate):", "    if not re.fullmatch(r'\\d+', nameplate):", desc="fullmatch without anchors"),
    Rewrite("regex-class-09", NP, "r'^\\d+\\Z'", "r'^[0-9]+\\Z'", desc="[0-9] instead of \\d"),
]
MUTANTS.append(Mutant("empty-listing-keeps-old-nameplates", INP, "        self._all_nameplates = all_nameplates\n", "        if all_nameplates:\n            self._all_nameplates = all_nameplates\n", "C19.R7", "seed C19-17"))

MUTANTS.append(Mutant("case-insensitive-completions", "src/wormhole/_input.py", "        return self._wordlist.get_completions(prefix)\n", "        return {prefix + c[len(prefix):] for c in self._wordlist.get_completions(prefix.lower())}\n", "C19.R8", "seed C19-18"))
MUTANTS.append(Mutant("cached-completions", "src/wormhole/_input.py", "        return self._wordlist.get_completions(prefix)\n", "        key = prefix.split(\"-\")[-1]\n        if key not in self._cache:\n            self._cache[key] = self._wordlist.get_completions(prefix)\n        return self._cache[key]\n", "C19.R8", "seed C19-19"))
