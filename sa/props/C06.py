"""C06 — transit delivers exactly the records sent, or drops the connection."""
import ast

from ..srcmodel import AnalysisError, site
from ..astutil import dotted, const, params, local_defs, is_self_attr, calls_named, resolve_local, same_expr
from ..dataflow import expand, call_arg
from ..effects import class_writers, is_empty_ctor, is_const, check_counter
from ..cfg import build
from ..siblings import role_table, is_sender_test, hex_format_width, hex_int_of, slice_bounds, eval_int, local_int_env
from ..selftest import Mutant, Rewrite

EXPLANATION = ("(R1) _decrypt_record decrypts only past a nonce == counter test whose unequal edge raises, counter +1 once; "
               "both nonces are monotone counters, send_record uses the value before the increment. (R2) 2x2 role table of the "
               "record keys: what one role sends with, the other receives with, never the same key both ways. (R3) writer and "
               "reader agree on the 4-byte big-endian length prefix and the 24-byte nonce. (R4) any exception in dataReceived "
               "drops the connection and enters the terminal state, in which no record is handled. (R5) records reach the "
               "application only from the decrypt result, FIFO queues, consumer attached without reordering. (R6) connection "
               "loss / close errback every waiting read and the consumer Deferred. SecretBox authenticity and TCP are trusted.")
TRUSTED_BASE = ["T1", "T2", "T4"]
MIN_OBLIGATIONS = 30

TR = "src/wormhole/transit.py"
CONN = "Connection"


def nonce_guard(tree, rep, rule="C06.R1"):
    fn = tree.func(TR, CONN, "_decrypt_record")
    g = build(fn, split=True)
    from ..cfg import cmp_atom

    def _is_record_nonce(e):
        # the big-endian integer parsed from <record parameter>[:NONCE_SIZE] (directly or through locals)
        v = expand(fn, e) if not is_self_attr(e) else e
        src = hex_int_of(v)
        sb = slice_bounds(src) if src is not None else None
        return bool(sb and isinstance(sb[0], ast.Name) and sb[0].id in params(fn) and sb[1] is None)
    nonce_ok = cmp_atom(_is_record_nonce, lambda e: is_self_attr(expand(fn, e) if isinstance(e, ast.Name) else e, "next_receive_nonce"))
    dec = g.call_nodes(lambda c: isinstance(c.func, ast.Attribute) and c.func.attr == "decrypt" and is_self_attr(c.func.value, "receive_box"))
    ok = len(dec) == 1 and not g.only_when(dec, nonce_ok, True) and g.when_always_raises(nonce_ok, False)
    rep.check(rule, "_decrypt_record: decrypt is reachable only when the record's nonce equals next_receive_nonce; "
              "the unequal edge raises", ok, site(fn, TR), key="%s:_decrypt_record:nonce-guard" % rule,
              what="a record whose nonce is not the expected counter value (replayed, dropped, reordered) can be decrypted and delivered")
    return fn, g, dec


def r1(tree, rep):
    fn, g, dec = nonce_guard(tree, rep)
    incs = g.nodes(lambda s: isinstance(s, ast.AugAssign) and is_self_attr(s.target, "next_receive_nonce"))
    ok2 = len(incs) == 1 and g.must_pass(incs) and incs[0] not in g.reach([y for (y, l) in g.succ[incs[0]]])
    rep.check("C06.R1", "_decrypt_record: the receive counter advances exactly once per accepted record", ok2, site(fn, TR),
              key="C06.R1:_decrypt_record:increment")
    if len(dec) == 1:
        c = [c for c in ast.walk(g.stmt[dec[0]]) if isinstance(c, ast.Call) and isinstance(c.func, ast.Attribute) and c.func.attr == "decrypt"][0]
        rets = [x for x in ast.walk(fn) if isinstance(x, ast.Return)]
        ok3 = len(c.args) == 1 and isinstance(c.args[0], ast.Name) and c.args[0].id in params(fn) and not local_defs(fn, c.args[0].id) \
            and len(rets) == 1 and isinstance(expand(fn, rets[0].value), ast.Call) and same_expr(expand(fn, rets[0].value), c)
        rep.check("C06.R1", "_decrypt_record returns receive_box.decrypt(<the record>) unmodified", ok3, site(fn, TR),
                  key="C06.R1:_decrypt_record:result")
    for attr in ("send_nonce", "next_receive_nonce"):
        check_counter(tree, rep, "C06.R1", TR, CONN, attr, 1, init_funcs=("_negotiationSuccessful",))
    sr = tree.func(TR, CONN, "send_record")
    g2 = build(sr)
    reads = [n for n in g2.nodes(lambda s: isinstance(s, ast.Assign)) if any(is_self_attr(x, "send_nonce") for x in ast.walk(g2.stmt[n].value))]
    incs = g2.nodes(lambda s: isinstance(s, ast.AugAssign) and is_self_attr(s.target, "send_nonce"))
    enc = g2.call_nodes(lambda c: isinstance(c.func, ast.Attribute) and c.func.attr == "encrypt" and is_self_attr(c.func.value, "send_box"))
    ok = len(reads) == 1 and len(incs) == 1 and len(enc) == 1
    if ok:
        var = g2.stmt[reads[0]].targets[0]
        ec = [c for c in ast.walk(g2.stmt[enc[0]]) if isinstance(c, ast.Call) and isinstance(c.func, ast.Attribute) and c.func.attr == "encrypt"][0]
        # the counter is read once (into a once-bound local, possibly through a second one), before the increment, and that
        # value - rendered as 24 big-endian bytes - is the nonce argument
        ok = isinstance(var, ast.Name) and not g2.precedes(reads, incs) and g2.must_pass(incs) and len(ec.args) == 2 \
            and len(local_defs(sr, var.id)) == 1 \
            and isinstance(ec.args[0], ast.Name) and ec.args[0].id in params(sr) and not local_defs(sr, ec.args[0].id)
        nonce = expand(sr, ec.args[1])
        uses_var = isinstance(ec.args[1], ast.Name) and (ec.args[1].id == var.id or any(
            isinstance(x, ast.Name) and x.id == var.id for d in local_defs(sr, ec.args[1].id) if isinstance(d, ast.AST) for x in ast.walk(d)))
        w = hex_format_width(nonce, local_int_env(sr))
        ok = ok and uses_var and w is not None and w[0] == 24 and is_self_attr(w[1], "send_nonce")
    rep.check("C06.R1", "send_record: the nonce is the 24-byte big-endian send counter read before its single increment, "
              "and encrypts the record parameter", ok, site(sr, TR), key="C06.R1:send_record:nonce")


def _hkdf_ctx(node):
    """HKDF(self._transit_key, <size>, CTXinfo=<bytes const>) -> (ctx, size expr) else None"""
    if isinstance(node, ast.Call) and dotted(node.func) == "HKDF":
        k = call_arg(node, 0, "skm")
        ctx = call_arg(node, 3, "CTXinfo")
        size = call_arg(node, 1, "outlen")
        if k is not None and is_self_attr(k, "_transit_key") and ctx is not None and isinstance(const(ctx), bytes):
            return const(ctx), ast.dump(size) if size is not None else None
    return None


def r2(tree, rep):
    tabs = {}
    for name in ("_sender_record_key", "_receiver_record_key"):
        fn = tree.func(TR, "Common", name)
        t = role_table(fn, is_sender_test, TR)
        tabs[name] = {role: _hkdf_ctx(e) for role, e in t.items()}
        rep.check("C06.R2", "Common.%s is HKDF(self._transit_key, .., CTXinfo=<const>) in both roles" % name,
                  all(v is not None for v in tabs[name].values()), site(fn, TR), key="C06.R2:%s:shape" % name)
    s, r = tabs["_sender_record_key"], tabs["_receiver_record_key"]
    if all(v is not None for v in list(s.values()) + list(r.values())):
        # Connection uses _sender_record_key() for send_box and _receiver_record_key() for receive_box (checked below)
        rep.check("C06.R2", "what the sender encrypts with, the receiver decrypts with", s[True] == r[False], TR, key="C06.R2:sender->receiver",
                  what="send key of the sender role %s != receive key of the receiver role %s" % (s[True], r[False]))
        rep.check("C06.R2", "what the receiver encrypts with, the sender decrypts with", s[False] == r[True], TR, key="C06.R2:receiver->sender",
                  what="send key of the receiver role %s != receive key of the sender role %s" % (s[False], r[True]))
        rep.check("C06.R2", "the two directions use different keys (role True)", s[True][0] != r[True][0], TR, key="C06.R2:directions-differ:sender")
        rep.check("C06.R2", "the two directions use different keys (role False)", s[False][0] != r[False][0], TR, key="C06.R2:directions-differ:receiver")
    ns = tree.func(TR, CONN, "_negotiationSuccessful")
    for box, keyfn in (("send_box", "_sender_record_key"), ("receive_box", "_receiver_record_key")):
        ws = [n for n in ast.walk(ns) if isinstance(n, ast.Assign) and any(is_self_attr(t, box) for t in n.targets)]
        ok = len(ws) == 1
        if ok:
            v = expand(ns, ws[0].value)
            ok = isinstance(v, ast.Call) and (dotted(v.func) or "").split(".")[-1] == "SecretBox" and len(v.args) == 1 \
                and isinstance(v.args[0], ast.Call) and dotted(v.args[0].func) == "self.owner." + keyfn
        rep.check("C06.R2", "Connection.%s = SecretBox(owner.%s())" % (box, keyfn), ok, site(ns, TR), key="C06.R2:%s" % box)
        own, foreign = class_writers(tree, CONN, box)
        rep.check("C06.R2", "Connection.%s is set only when negotiation succeeds" % box, len(own) == 1 and not foreign, TR,
                  key="C06.R2:%s:writers" % box)
    for cls, val in (("TransitSender", True), ("TransitReceiver", False)):
        c = tree.cls(TR, cls)
        vals = [st.value for st in c.body if isinstance(st, ast.Assign) and any(isinstance(t, ast.Name) and t.id == "is_sender" for t in st.targets)]
        rep.check("C06.R2", "%s.is_sender is %s" % (cls, val), len(vals) == 1 and const(vals[0]) is val, site(c, TR), key="C06.R2:%s.is_sender" % cls)


def r3(tree, rep):
    sr = tree.func(TR, CONN, "send_record")
    g = build(sr)
    writes = g.call_nodes(lambda c: dotted(c.func) == "self.transport.write")
    ok = len(writes) == 2
    wwidth = None
    if ok:
        order = sorted(writes, key=lambda n: g.line(n))
        ok = not g.precedes([order[0]], [order[1]])
        c0 = [c for c in ast.walk(g.stmt[order[0]]) if isinstance(c, ast.Call) and dotted(c.func) == "self.transport.write"][0]
        c1 = [c for c in ast.walk(g.stmt[order[1]]) if isinstance(c, ast.Call) and dotted(c.func) == "self.transport.write"][0]
        w = hex_format_width(expand(sr, c0.args[0]))
        payload = c1.args[0]
        ok = ok and w is not None and isinstance(w[1], ast.Call) and dotted(w[1].func) == "len" and same_expr(w[1].args[0], expand(sr, payload))
        encv = expand(sr, payload)
        ok = ok and isinstance(encv, ast.Call) and isinstance(encv.func, ast.Attribute) and encv.func.attr == "encrypt"
        wwidth = w[0] if w else None
    rep.check("C06.R3", "send_record writes <N-byte big-endian len(ciphertext)> then the ciphertext (N=%s)" % wwidth, ok, site(sr, TR),
              key="C06.R3:writer")
    rd = tree.func(TR, CONN, "dataReceivedRECORDS")
    widths = set()
    # len(self.buf) < K guards and slices
    k_guard = []
    for n in ast.walk(rd):
        # "fewer than K bytes buffered": len(self.buf) < K, K > len(self.buf), and the negations len(self.buf) >= K, K <= len(self.buf)
        if isinstance(n, ast.Compare) and len(n.ops) == 1:
            l, r, op = n.left, n.comparators[0], type(n.ops[0])
            is_len = lambda e: isinstance(e, ast.Call) and dotted(e.func) == "len" and len(e.args) == 1 and is_self_attr(e.args[0], "buf")
            if is_len(l) and op in (ast.Lt, ast.GtE):
                k_guard.append(r)
            elif is_len(r) and op in (ast.Gt, ast.LtE):
                k_guard.append(l)
    env = local_int_env(rd)
    _ei = eval_int
    eval_int_l = lambda e: _ei(e, env)
    # the one big-endian parse of a prefix of the buffer (wherever it is written: bound to a local or used in place)
    parses = [n for n in ast.walk(rd) if hex_int_of(n) is not None]
    ok = len(parses) == 1 and len(k_guard) == 2
    if ok:
        src = slice_bounds(expand(rd, hex_int_of(parses[0])))
        ok = src is not None and is_self_attr(src[0], "buf") and src[1] is None
        N = eval_int_l(src[2]) if ok else None
        ok = ok and N is not None
        if ok:
            def is_len(e):
                e = expand(rd, e)
                h = hex_int_of(e)
                if h is None:
                    return False
                sb = slice_bounds(h)
                return sb is not None and is_self_attr(sb[0], "buf") and sb[1] is None and eval_int_l(sb[2]) == N

            def is_n_plus_len(e):
                e = expand(rd, e)
                if not (isinstance(e, ast.BinOp) and isinstance(e.op, ast.Add)):
                    return False
                return (eval_int_l(e.left) == N and is_len(e.right)) or (eval_int_l(e.right) == N and is_len(e.left))
            g0 = eval_int_l(k_guard[0])
            ok = g0 == N and is_n_plus_len(k_guard[1])
            # the slices: record = buf[N:N+length]; buf = buf[N+length:]
            sl = [slice_bounds(x) for x in ast.walk(rd) if isinstance(x, ast.Subscript) and is_self_attr(x.value, "buf") and slice_bounds(x)]
            rec = [s for s in sl if s[1] is not None and s[2] is not None]
            rest = [s for s in sl if s[1] is not None and s[2] is None]
            ok = ok and len(rec) == 1 and len(rest) == 1 and eval_int_l(rec[0][1]) == N and is_n_plus_len(rec[0][2]) and is_n_plus_len(rest[0][1])
            widths.add(N)
    rep.check("C06.R3", "dataReceivedRECORDS needs N bytes, parses them big-endian, waits for N+length, consumes exactly that", ok,
              site(rd, TR), key="C06.R3:reader")
    rep.check("C06.R3", "writer and reader agree on the width of the length prefix", ok and wwidth is not None and widths == {wwidth}, TR,
              key="C06.R3:width-agreement", what="length prefix: writer %s bytes, reader %s bytes" % (wwidth, sorted(widths)))
    # the loop hands every complete record to _decrypt_record and then to recordReceived
    g2 = build(rd)
    decs = g2.call_nodes(lambda c: dotted(c.func) == "self._decrypt_record")
    recv = g2.call_nodes(lambda c: dotted(c.func) == "self.recordReceived")
    ok = len(decs) == 1 and len(recv) == 1 and not g2.precedes(decs, recv)
    if ok:
        rc = [c for c in ast.walk(g2.stmt[recv[0]]) if isinstance(c, ast.Call) and dotted(c.func) == "self.recordReceived"][0]
        v = expand(rd, rc.args[0])
        ok = isinstance(v, ast.Call) and dotted(v.func) == "self._decrypt_record"
    rep.check("C06.R5", "dataReceivedRECORDS passes each framed ciphertext through _decrypt_record and only its result to recordReceived",
              ok, site(rd, TR), key="C06.R5:reader-pipeline")
    # nonce width: reader takes encrypted[:SecretBox.NONCE_SIZE]; writer produces 24 bytes; the code asserts NONCE_SIZE == 24
    dr = tree.func(TR, CONN, "_decrypt_record")
    okn = any(isinstance(n, ast.Subscript) and slice_bounds(n) and dotted(slice_bounds(n)[2]) == "SecretBox.NONCE_SIZE" for n in ast.walk(dr))
    asserts = [a for a in ast.walk(sr) if isinstance(a, ast.Assert) and isinstance(a.test, ast.Compare)
               and dotted(a.test.left) == "SecretBox.NONCE_SIZE" and eval_int(a.test.comparators[0]) == 24]
    rep.check("C06.R3", "nonce width: reader slices SecretBox.NONCE_SIZE bytes, writer emits 24 bytes and asserts NONCE_SIZE == 24",
              okn and bool(asserts), site(dr, TR), key="C06.R3:nonce-width")


def r4(tree, rep):
    fn = tree.func(TR, CONN, "dataReceived")
    g = build(fn)
    hs = [n for n in g.nodes(lambda s: isinstance(s, ast.ExceptHandler))
          if g.stmt[n].type is None or dotted(g.stmt[n].type) in ("Exception", "BaseException")]
    inner = g.call_nodes(lambda c: dotted(c.func) == "self._dataReceived")
    ok = len(hs) == 1 and len(inner) == 1
    terminal = None
    if ok:
        h = hs[0]
        lose = g.call_nodes(lambda c: dotted(c.func) == "self.transport.loseConnection")
        sets = [n for n in g.nodes(lambda s: isinstance(s, ast.Assign) and any(is_self_attr(t, "state") for t in s.targets)
                                   and isinstance(const(s.value), str))]
        ok = bool(lose) and bool(sets) and g.must_pass(lose, start=h, to=[g.exit, g.raise_exit], explicit_only=True) \
            and g.must_pass(sets, start=h, to=[g.exit, g.raise_exit], explicit_only=True)
        if sets:
            vals = {const(g.stmt[n].value) for n in sets}
            terminal = list(vals)[0] if len(vals) == 1 else None
        # the try covers the call
        tr = [t for t in ast.walk(fn) if isinstance(t, ast.Try)]
        ok = ok and any(any(isinstance(c, ast.Call) and dotted(c.func) == "self._dataReceived" for s in t.body for c in ast.walk(s)) for t in tr)
    rep.check("C06.R4", "dataReceived: any exception drops the connection and enters the terminal state (%r) on every path" % terminal,
              ok and terminal is not None, site(fn, TR), key="C06.R4:dataReceived:handler",
              what="after a tampered/out-of-order record the connection is not immediately dead: later bytes could still be processed")
    dr = tree.func(TR, CONN, "_dataReceived")
    ok2 = terminal is not None
    seen_terminal = False
    if ok2:
        # every path _dataReceived can take while self.state == <terminal> only buffers, tests and returns
        gd = build(dr, split=True)

        def oracle(test):
            if isinstance(test, ast.Compare) and len(test.ops) == 1 and isinstance(test.ops[0], (ast.Eq, ast.NotEq)):
                l, r = test.left, test.comparators[0]
                if is_self_attr(r, "state"):
                    l, r = r, l
                if is_self_attr(l, "state") and isinstance(const(r), str):
                    return (const(r) == terminal) == isinstance(test.ops[0], ast.Eq)
            if isinstance(test, ast.Call) and dotted(test.func) == "isinstance" and len(test.args) == 2 and is_self_attr(test.args[0], "state"):
                return False            # the terminal state is a string
            return None
        paths = gd.paths_under(oracle)
        seen_terminal = bool(paths)
        for nodes, end in paths:
            ok2 = ok2 and end == 'exit'
            for n in nodes:
                st = gd.stmt[n]
                test = st[1] if isinstance(st, tuple) and st[0] == "COND" else (st.test if isinstance(st, ast.If) and not gd._is_compound_test(st.test) else None)
                if test is not None and any(isinstance(x, ast.Call) and dotted(x.func) not in ("isinstance", "len") for x in ast.walk(test)):
                    ok2 = False         # a test that does something (consumes bytes, ..) is evaluated in the terminal state
                harmless = isinstance(st, (str, tuple, ast.If, ast.Assert, ast.Pass)) \
                    or (isinstance(st, ast.AugAssign) and is_self_attr(st.target, "buf") and not any(isinstance(x, ast.Call) for x in ast.walk(st.value))) \
                    or (isinstance(st, ast.Expr) and isinstance(st.value, ast.Constant)) \
                    or (isinstance(st, ast.Return) and (st.value is None or const(st.value) is None and isinstance(st.value, ast.Constant))) \
                    or (isinstance(st, ast.Assign) and len(st.targets) == 1 and isinstance(st.targets[0], ast.Name)
                        and not any(isinstance(x, ast.Call) for x in ast.walk(st.value)))
                ok2 = ok2 and harmless
    rep.check("C06.R4", "_dataReceived: in the terminal state it returns before handling any record", ok2 and seen_terminal, site(dr, TR),
              key="C06.R4:_dataReceived:terminal-return")
    # no branch can leave the terminal state: state is assigned the terminal value only, or by branches guarded on other states
    own, foreign = class_writers(tree, CONN, "state")
    rep.check("C06.R4", "Connection.state is written only by Connection itself", not foreign, TR, key="C06.R4:state:foreign-writers")


def r5(tree, rep):
    for attr, allowed in (("_inbound_records", {"call:append", "call:popleft"}), ("_waiting_reads", {"call:append", "call:popleft"})):
        own, foreign = class_writers(tree, CONN, attr)
        for w in own + foreign:
            ok = w in own and ((w.kind == "assign" and w.fn == "__init__" and is_empty_ctor(w.value, ("deque",))) or w.kind in allowed)
            rep.check("C06.R5", "Connection.%s writer %s keeps FIFO order" % (attr, w.brief()), ok, w.site,
                      key="C06.R5:%s:writer:%s" % (attr, w.brief()))
    # who calls recordReceived / _writeToConsumer
    cls = tree.cls(TR, CONN)
    for callee, allowed in (("self.recordReceived", {"dataReceivedRECORDS"}), ("self._writeToConsumer", {"recordReceived", "connectConsumer"}),
                            ("self._inbound_records.append", {"recordReceived"})):
        for m in cls.body:
            if isinstance(m, ast.FunctionDef):
                for c in calls_named(m, callee):
                    rep.check("C06.R5", "%s is called only from %s (here %s)" % (callee, sorted(allowed), m.name), m.name in allowed,
                              site(c, TR), key="C06.R5:caller:%s:%s" % (callee, m.name))
    rr = tree.func(TR, CONN, "recordReceived")
    cs = calls_named(rr, "self._inbound_records.append") + calls_named(rr, "self._writeToConsumer")
    ok = len(cs) == 2 and all(isinstance(c.args[0], ast.Name) and c.args[0].id in params(rr) for c in cs) and not local_defs(rr, params(rr)[0])
    rep.check("C06.R5", "recordReceived hands its record on unmodified (queue or consumer)", ok, site(rr, TR), key="C06.R5:recordReceived")
    dl = tree.func(TR, CONN, "_deliverRecords")
    cbs = [c for c in ast.walk(dl) if isinstance(c, ast.Call) and isinstance(c.func, ast.Attribute) and c.func.attr == "callback"]
    ok = len(cbs) == 1
    if ok:
        dv = expand(dl, cbs[0].func.value)
        rv = expand(dl, cbs[0].args[0])
        ok = isinstance(dv, ast.Call) and dotted(dv.func) == "self._waiting_reads.popleft" and isinstance(rv, ast.Call) \
            and dotted(rv.func) == "self._inbound_records.popleft"
    rep.check("C06.R5", "_deliverRecords pairs the oldest waiting read with the oldest record", ok, site(dl, TR), key="C06.R5:_deliverRecords")
    cc = tree.func(TR, CONN, "connectConsumer")
    g = build(cc)
    reg = g.call_nodes(lambda c: isinstance(c.func, ast.Attribute) and c.func.attr == "registerProducer")
    setc = g.nodes(lambda s: isinstance(s, ast.Assign) and any(is_self_attr(t, "_consumer") for t in s.targets)
                   and isinstance(s.value, ast.Name) and s.value.id in params(cc))
    drain = [n for n in g.nodes(lambda s: isinstance(s, ast.While)) if any(is_self_attr(x, "_inbound_records") for x in ast.walk(g.stmt[n].test))]
    ok = len(reg) == 1 and len(setc) == 1 and len(drain) == 1 and not g.precedes(reg, setc) and not g.precedes(setc, drain)
    if ok:
        lp = g.stmt[drain[0]]
        pops = [c for c in ast.walk(lp) if isinstance(c, ast.Call) and dotted(c.func) == "self._inbound_records.popleft"]
        ok = len(pops) == 1
    rep.check("C06.R5", "connectConsumer registers the producer BEFORE it starts diverting records to the consumer, then drains "
              "the queued records oldest-first", ok, site(cc, TR), key="C06.R5:connectConsumer:order",
              what="records arriving while the consumer is being attached can overtake queued ones")
    wc = tree.func(TR, CONN, "_writeToConsumer")
    g = build(wc, split=True)
    cb = g.call_nodes(lambda c: isinstance(c.func, ast.Attribute) and c.func.attr == "callback")
    from ..cfg import ge_atom
    reached = ge_atom(lambda e: is_self_attr(e, "_consumer_bytes_written"), lambda e: is_self_attr(e, "_consumer_bytes_expected"))
    ok = bool(cb) and not g.only_when(cb, reached, True)
    rep.check("C06.R5", "_writeToConsumer fires the consumer Deferred only once written >= expected", ok, site(wc, TR),
              key="C06.R5:_writeToConsumer:threshold")
    wr = g.call_nodes(lambda c: dotted(c.func) == "self._consumer.write")
    ok = len(wr) == 1 and g.must_pass(wr)
    rep.check("C06.R5", "_writeToConsumer writes every record it is given to the consumer", ok, site(wc, TR), key="C06.R5:_writeToConsumer:write")


def _errbacks_all_waiting(fn):
    for lp in [n for n in ast.walk(fn) if isinstance(n, ast.While)]:
        if is_self_attr(lp.test, "_waiting_reads"):
            pops = [c for c in ast.walk(lp) if isinstance(c, ast.Call) and dotted(c.func) == "self._waiting_reads.popleft"]
            errs = [c for c in ast.walk(lp) if isinstance(c, ast.Call) and isinstance(c.func, ast.Attribute) and c.func.attr == "errback"]
            if len(pops) == 1 and len(errs) == 1 and not any(isinstance(x, (ast.Break, ast.Return)) for x in ast.walk(lp)):
                return lp
    return None


def r6(tree, rep):
    for name in ("connectionLost", "close"):
        fn = tree.func(TR, CONN, name)
        lp = _errbacks_all_waiting(fn)
        g = build(fn)
        ok = lp is not None and g.must_pass([g.node_of(lp)], explicit_only=True)
        rep.check("C06.R6", "Connection.%s errbacks every waiting read, on every path" % name, ok, site(fn, TR),
                  key="C06.R6:%s:waiting-reads" % name, what="pending receive_record() Deferreds can hang after %s" % name)
    fn = tree.func(TR, CONN, "connectionLost")
    errs = [c for c in ast.walk(fn) if isinstance(c, ast.Call) and dotted(c.func) == "self._consumer_deferred.errback"]
    g = build(fn)
    en = g.call_nodes(lambda c: dotted(c.func) == "self._consumer_deferred.errback")
    tests = [n for n in g.nodes(lambda s: isinstance(s, ast.If)) if is_self_attr(g.stmt[n].test, "_consumer_deferred")]
    ok = len(errs) == 1 and bool(tests) and all(not g.branch_never_reaches(t, 'T', en) for t in tests) \
        and g.must_pass(tests, explicit_only=True) \
        and all(g.must_pass(en, start=g.branch_targets(t, 'T'), to=[g.exit], explicit_only=True) for t in tests) \
        and not [c for c in ast.walk(fn) if isinstance(c, ast.Call) and dotted(c.func) == "self._consumer_deferred.callback"]
    rep.check("C06.R6", "connectionLost errbacks the consumer Deferred whenever one is outstanding", ok, site(fn, TR),
              key="C06.R6:connectionLost:consumer-deferred",
              what="a transfer cut short no longer fails the writeToFile/connectConsumer Deferred")
    cl = tree.func(TR, CONN, "close")
    rep.check("C06.R6", "close() drops the transport", bool(calls_named(cl, "self.transport.loseConnection")), site(cl, TR), key="C06.R6:close:lose")


def r7(tree, rep):
    """a record is a byte string and the empty one is a record like any other: between decryption / the inbound queue and the
    application no code decides anything by the *truthiness* of a record value (`if record:` silently drops b"")"""
    cls = tree.cls(TR, "Connection")
    n = 0
    for fn in [m for m in cls.body if isinstance(m, ast.FunctionDef)]:
        tainted = set()
        if fn.name == "recordReceived":
            ps = params(fn)
            if ps:
                tainted.add(ps[0])
        for a in ast.walk(fn):
            if isinstance(a, (ast.Assign, ast.AnnAssign, ast.NamedExpr)):
                val = a.value
                tg = a.targets if isinstance(a, ast.Assign) else [a.target]
                if val is None:
                    continue
                src = any((isinstance(c, ast.Call) and (dotted(c.func) in ("self._decrypt_record",) or (isinstance(c.func, ast.Attribute) and (
                    c.func.attr == "decrypt" or (c.func.attr in ("pop", "popleft") and is_self_attr(c.func.value, "_inbound_records"))))))
                    or (isinstance(c, ast.Subscript) and is_self_attr(c.value, "_inbound_records")) for c in ast.walk(val))
                if src:
                    for t in tg:
                        if isinstance(t, ast.Name):
                            tainted.add(t.id)
        if not tainted:
            continue
        n += 1
        bad = []
        for x in ast.walk(fn):
            tests = []
            if isinstance(x, (ast.If, ast.While, ast.IfExp, ast.Assert)):
                tests.append(x.test)
            elif isinstance(x, ast.BoolOp):
                tests.extend(x.values)
            elif isinstance(x, ast.UnaryOp) and isinstance(x.op, ast.Not):
                tests.append(x.operand)
            elif isinstance(x, ast.comprehension):
                tests.extend(x.ifs)
            for t in tests:
                while isinstance(t, ast.UnaryOp) and isinstance(t.op, ast.Not):
                    t = t.operand
                if isinstance(t, ast.Call) and isinstance(t.func, ast.Name) and t.func.id in ("bool", "len") and t.args:
                    t = t.args[0]
                if isinstance(t, ast.Name) and t.id in tainted:
                    bad.append(t)
        rep.check("C06.R7", "Connection.%s never tests a record value (%s) for truthiness" % (fn.name, sorted(tainted)), not bad,
                  site(bad[0] if bad else fn, TR), key="C06.R7:%s:record-truthiness" % fn.name,
                  what="Connection.%s branches on the truthiness of a record (%s): a zero-length record is a legal record and is dropped or "
                       "handled as 'no record' - the receiver does not obtain exactly the records sent" % (fn.name, bad[0].id if bad else "?"))
    if n < 2:
        raise AnalysisError("Connection: fewer functions handle record values than expected (%d)" % n)


def run(tree, rep, tier):
    from .. import round9 as _r9
    _r9.parser_only_in_records_state(tree, rep, "C06.R10")
    _r9.queued_waiters_not_cancellable(tree, rep, "C06.R11")
    # whatever goes wrong while a record is handled (a consumer / file that raises) reaches dataReceived's handler, which hangs up: no
    # except-clause on the way from dataReceivedRECORDS to the consumer swallows it
    from ..ctxmgr import swallowing_handlers
    cls_ = tree.cls(TR, "Connection")
    for m_ in [x for x in cls_.body if isinstance(x, ast.FunctionDef) and x.name in ("dataReceivedRECORDS", "recordReceived", "_writeToConsumer", "_deliverRecords", "_decrypt_record")]:
        bad_ = swallowing_handlers(m_, lambda c: True)
        rep.check("C06.R8", "Connection.%s: no except-clause turns a failure during record handling into a normal return" % m_.name, not bad_,
                  site(bad_[0][0] if bad_ else m_, TR), key="C06.R8:%s:no-swallow" % m_.name,
                  what="Connection.%s catches %s and returns normally: the connection is not put into its terminal state, records that follow the failed "
                       "one are still decrypted and delivered (a record is skipped, pending reads do not fail)" % (
                           m_.name, ast.unparse(bad_[0][0].type) if bad_ and bad_[0][0].type is not None else "everything"))
    from .. import sharedstate
    sharedstate.check(tree, rep, "C06.R0")
    # the handshake timer (setTimeout(TIMEOUT) in connectionMade) is a resource of the negotiation: whichever role this side plays,
    # the step that enters the record phase cancels it - or a healthy connection is cut by timeoutConnection() a minute later
    ns_ = tree.func(TR, "Connection", "_negotiationSuccessful")
    g_ = build(ns_)
    cancel_ = g_.call_nodes(lambda c: dotted(c.func) == "self.setTimeout" and len(c.args) == 1 and isinstance(c.args[0], ast.Constant)
                            and c.args[0].value is None)
    armed_ = [c for c in ast.walk(tree.cls(TR, "Connection")) if isinstance(c, ast.Call) and dotted(c.func) == "self.setTimeout" and c.args
              and not (isinstance(c.args[0], ast.Constant) and c.args[0].value is None)]       # wherever the negotiation arms it
    rep.check("C06.R9", "Connection._negotiationSuccessful (reached by sender and receiver alike) cancels the handshake timer, "
              "on every path", bool(armed_) and bool(cancel_) and g_.must_pass(cancel_, explicit_only=True), site(ns_, TR),
              key="C06.R9:_negotiationSuccessful:timer-cancelled",
              what="the handshake timeout is no longer cancelled for every role when the record phase begins: on the side that does not "
                   "cancel it, timeoutConnection() drops a healthy established connection after TIMEOUT seconds - records sent after that are "
                   "never delivered")
    r7(tree, rep)
    r1(tree, rep)
    r2(tree, rep)
    r3(tree, rep)
    r4(tree, rep)
    r5(tree, rep)
    r6(tree, rep)


MUTANTS = [
    Mutant("no-nonce-check", TR, "        if nonce != self.next_receive_nonce:\n            raise BadNonce(\n                \"received out-of-order record: got %d, expected %d\" %\n                (nonce, self.next_receive_nonce))\n", "", "C06.R1"),
    Mutant("decrypt-before-check", TR, "        if nonce != self.next_receive_nonce:", "        record = self.receive_box.decrypt(encrypted)\n        if nonce != self.next_receive_nonce:", "C06.R1"),
    Mutant("nonce-reset-on-lost", TR, "    def connectionLost(self, reason=None):\n        self.setTimeout(None)\n", "    def connectionLost(self, reason=None):\n        self.setTimeout(None)\n        self.next_receive_nonce = 0\n", "C06.R1"),
    Mutant("nonce-ge", TR, "        if nonce != self.next_receive_nonce:", "        if nonce < self.next_receive_nonce:", "C06.R1"),
    Mutant("same-key-both-roles", TR, "        assert self._transit_key\n        if self.is_sender:\n            return HKDF(\n                self._transit_key,\n                SecretBox.KEY_SIZE,\n                CTXinfo=b\"transit_record_receiver_key\")\n        else:\n            return HKDF(\n                self._transit_key,\n                SecretBox.KEY_SIZE,\n                CTXinfo=b\"transit_record_sender_key\")",
           "        assert self._transit_key\n        if self.is_sender:\n            return HKDF(\n                self._transit_key,\n                SecretBox.KEY_SIZE,\n                CTXinfo=b\"transit_record_sender_key\")\n        else:\n            return HKDF(\n                self._transit_key,\n                SecretBox.KEY_SIZE,\n                CTXinfo=b\"transit_record_sender_key\")", "C06.R2"),
    Mutant("writer-2-bytes", TR, "        length = unhexlify(f\"{len(encrypted):08x}\")", "        length = unhexlify(f\"{len(encrypted):04x}\")", "C06.R3"),
    Mutant("reader-2-bytes", TR, "            length = int(hexlify(self.buf[:4]), 16)", "            length = int(hexlify(self.buf[:2]), 16)", "C06.R3"),
    Mutant("handler-no-lose", TR, "            self._error = e\n            self.transport.loseConnection()\n            self.state = \"hung up\"", "            self._error = e\n            self.state = \"hung up\"", "C06.R4"),
    Mutant("handler-no-state", TR, "            self._error = e\n            self.transport.loseConnection()\n            self.state = \"hung up\"", "            self._error = e\n            self.transport.loseConnection()", "C06.R4"),
    Mutant("lost-keeps-waiting", TR, "    def connectionLost(self, reason=None):\n        self.setTimeout(None)\n        while self._waiting_reads:\n            d = self._waiting_reads.popleft()\n            d.errback(error.ConnectionClosed())\n",
           "    def connectionLost(self, reason=None):\n        self.setTimeout(None)\n", "C06.R6"),
    Mutant("lost-fires-consumer", TR, "        if self._consumer_deferred:\n            self._consumer_deferred.errback(error.ConnectionClosed())",
           "        if self._consumer_deferred:\n            self._consumer_deferred.callback(self._consumer_bytes_written)", "C06.R6"),
    Mutant("consumer-before-register", TR, "        consumer.registerProducer(self, True)\n        # There might be", "        # There might be", "C06.R5",
           also=((TR, "        self._consumer = consumer\n        self._consumer_bytes_written = 0\n", "        self._consumer = consumer\n        consumer.registerProducer(self, True)\n        self._consumer_bytes_written = 0\n"),)),
    Mutant("deliver-lifo", TR, "            r = self._inbound_records.popleft()\n            d = self._waiting_reads.popleft()", "            r = self._inbound_records.pop()\n            d = self._waiting_reads.popleft()", "C06.R5"),
]
MUTANTS.append(Mutant("lost-fires-consumer-on-clean-close", TR, "        if self._consumer_deferred:\n            self._consumer_deferred.errback(error.ConnectionClosed())",
                      "        if self._consumer_deferred:\n            if reason is not None and reason.check(error.ConnectionDone):\n                self._consumer_deferred.callback(self._consumer_bytes_written)\n            else:\n                self._consumer_deferred.errback(error.ConnectionClosed())", "C06.R6"))
REWRITES = [
    Rewrite("nonce-check-eq-form", TR, "        if nonce != self.next_receive_nonce:\n            raise BadNonce(\n                \"received out-of-order record: got %d, expected %d\" %\n                (nonce, self.next_receive_nonce))\n        self.next_receive_nonce += 1\n        record = self.receive_box.decrypt(encrypted)\n        return record",
            "        if nonce == self.next_receive_nonce:\n            self.next_receive_nonce += 1\n            record = self.receive_box.decrypt(encrypted)\n            return record\n        raise BadNonce(\"received out-of-order record\")", desc="== form of the guard"),
    Rewrite("handler-reorder", TR, "            self.transport.loseConnection()\n            self.state = \"hung up\"", "            self.state = \"hung up\"\n            self.transport.loseConnection()", desc="handler statements reordered"),
]

MUTANTS.append(Mutant("receive-record-fast-path-truthy", TR, "    def receive_record(self):\n        d = defer.Deferred()", "    def receive_record(self):\n        record = (self._inbound_records.popleft()\n                  if self._inbound_records else None)\n        if record:\n            return defer.succeed(record)\n        d = defer.Deferred()", "C06.R7"))
MUTANTS.append(Mutant("handshake-timer-sender-only", TR, "        self.state = \"records\"\n        self.setTimeout(None)\n", "        self.state = \"records\"\n        if self.owner.is_sender:\n            self.setTimeout(None)\n", "C06.R9", "seed C06-17"))

MUTANTS.append(Mutant("receive-record-timeout", TR, "        d = defer.Deferred()\n        self._waiting_reads.append(d)\n", "        d = defer.Deferred()\n        d.addTimeout(30, self.owner._reactor)\n        self._waiting_reads.append(d)\n", "C06.R11", "seed C06-18"))
MUTANTS.append(Mutant("records-only-fast-path", TR, "        self.state = \"records\"\n        self.setTimeout(None)\n", "        self.state = \"records\"\n        self._dataReceived = self.dataReceivedRECORDS\n        self.setTimeout(None)\n", ("C06.R10", "C06.R"), "seed C06-19"))
