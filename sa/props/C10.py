"""C10 — dilation delivers every record exactly once, in order, across connection generations."""
import ast

from ..srcmodel import AnalysisError, site
from ..astutil import dotted, const, params, local_defs, is_self_attr, calls_named, same_expr, walk_shallow, enclosing_function, enclosing_class
from ..dataflow import expand, call_arg
from ..effects import class_writers, is_empty_ctor, is_const, check_counter, writers
from ..cfg import build, truthy_atom, cmp_atom, ge_atom
from ..selftest import Mutant, Rewrite

EXPLANATION = ("(R1) the outbound sequence number is a monotone counter, used then incremented, and numbered records are built "
               "only in build_record / parse_record. (R2) every numbered record is appended to the retransmit queue before any send; "
               "the queue loses entries only in handle_ack under seqnum <= acked; with queued-unsent records a new one queues behind "
               "them. (R3) a new connection first refills the unsent queue from the retransmit queue, then registers and resumes; "
               "resume sends unsent records before resuming producers; losing a connection clears the unsent queue. (R4) every "
               "numbered record is acked, old ones are dropped after the ack, handlers run only for new records after the watermark "
               "update. (R5) old <=> seqnum <= watermark; the watermark only grows. (R6) only un-numbered records bypass the queue. "
               "(R7) records parked during selection are delivered first-in-first-out. TCP ordering and the trace equality are not decided.")
TRUSTED_BASE = ["T1", "T2", "T4", "T5"]
MIN_OBLIGATIONS = 30

OUT = "src/wormhole/_dilation/outbound.py"
INB = "src/wormhole/_dilation/inbound.py"
MGR = "src/wormhole/_dilation/manager.py"
CON = "src/wormhole/_dilation/connection.py"


def r1(tree, rep):
    check_counter(tree, rep, "C10.R1", OUT, "Outbound", "_next_outbound_seqnum", 1)
    fn = tree.func(OUT, "Outbound", "build_record")
    g = build(fn)
    reads = g.nodes(lambda s: isinstance(s, ast.Assign) and is_self_attr(s.value, "_next_outbound_seqnum") and isinstance(s.targets[0], ast.Name))
    incs = g.nodes(lambda s: isinstance(s, ast.AugAssign) and is_self_attr(s.target, "_next_outbound_seqnum"))
    ok = len(reads) == 1 and len(incs) == 1 and not g.precedes(reads, incs) and g.must_pass(incs)
    if ok:
        var = g.stmt[reads[0]].targets[0].id
        ctor = [c for c in ast.walk(fn) if isinstance(c, ast.Call) and isinstance(c.func, ast.Name) and c.func.id in params(fn)]
        ok = len(ctor) == 1 and isinstance(ctor[0].args[0], ast.Name) and ctor[0].args[0].id == var and len(local_defs(fn, var)) == 1
        rets = [r for r in walk_shallow(fn) if isinstance(r, ast.Return)]
        ok = ok and len(rets) == 1 and same_expr(expand(fn, rets[0].value, stop={var}), ctor[0])
    rep.check("C10.R1", "build_record numbers the record with the counter value read before its single increment", ok, site(fn, OUT),
              key="C10.R1:build_record")
    # numbered record constructors elsewhere
    for p in tree.paths():
        if "/_dilation/" not in p:
            continue
        for c in ast.walk(tree.ast(p)):
            if isinstance(c, ast.Call) and isinstance(c.func, ast.Name) and c.func.id in ("Open", "Data", "Close"):
                f = enclosing_function(c)
                ok = f is not None and f.name == "parse_record"
                rep.check("C10.R1", "numbered records are constructed only by parse_record (decoding) and Outbound.build_record (here %s in %s)"
                          % (c.func.id, f.name if f else "?"), ok, site(c, p), key="C10.R1:ctor:%s:%s" % (f.name if f else "?", c.func.id))
    qs = tree.func(MGR, "Manager", "_queue_and_send")
    cs = calls_named(qs, "self._outbound.build_record")
    q2 = calls_named(qs, "self._outbound.queue_and_send_record")
    ok = len(cs) == 1 and len(q2) == 1 and isinstance(q2[0].args[0], ast.Name) and same_expr(expand(qs, q2[0].args[0]), cs[0])
    rep.check("C10.R1", "Manager._queue_and_send builds the record and hands exactly it to queue_and_send_record", ok, site(qs, MGR),
              key="C10.R1:_queue_and_send")
    for m, rt in (("send_open", "Open"), ("send_data", "Data"), ("send_close", "Close")):
        f = tree.func(MGR, "Manager", m)
        cs = calls_named(f, "self._queue_and_send")
        ok = len(cs) == 1 and dotted(cs[0].args[0]) == rt and [getattr(a, "id", None) for a in cs[0].args[1:]] == params(f)
        rep.check("C10.R1", "Manager.%s queues a %s with its arguments unmodified" % (m, rt), ok, site(f, MGR), key="C10.R1:%s" % m)


def r2(tree, rep):
    fn = tree.func(OUT, "Outbound", "queue_and_send_record")
    g = build(fn, split=True)
    app = g.call_nodes(lambda c: dotted(c.func) == "self._outbound_queue.append")
    snd = g.call_nodes(lambda c: dotted(c.func) == "self._connection.send_record")
    qu = g.call_nodes(lambda c: dotted(c.func) == "self._queued_unsent.append")
    ok = len(app) == 1 and g.must_pass(app) and not g.precedes(app, snd + qu) and len(snd) == 1 and len(qu) == 1
    rep.check("C10.R2", "queue_and_send_record appends to the retransmit queue on every path, before any send", ok, site(fn, OUT),
              key="C10.R2:append-first", what="a record can be sent (or skipped) without being kept for retransmission")
    conn = truthy_atom(lambda e: is_self_attr(e, "_connection"))
    unsent = truthy_atom(lambda e: is_self_attr(e, "_queued_unsent"))
    ok = len(snd) == 1 and len(qu) == 1 and not g.only_when(snd + qu, conn, True) and not g.only_when(snd, unsent, False) \
        and not g.only_when(qu, unsent, True)
    rep.check("C10.R2", "with a connection: a record queues behind still-unsent ones, otherwise it is sent now", ok, site(fn, OUT),
              key="C10.R2:behind-unsent", what="a new record can overtake records still waiting in _queued_unsent")
    for c in [c for n in app + snd + qu for c in ast.walk(g.stmt[n]) if isinstance(c, ast.Call) and c.args]:
        rep.check("C10.R2", "queue_and_send_record queues/sends exactly its record parameter", isinstance(c.args[0], ast.Name)
                  and c.args[0].id in params(fn), site(c, OUT), key="C10.R2:arg:%s" % dotted(c.func))
    own, foreign = class_writers(tree, "Outbound", "_outbound_queue")
    for w in own + foreign:
        ok = w in own and ((w.kind == "assign" and w.fn in ("__init__", "__attrs_post_init__") and is_empty_ctor(w.value, ("deque",)))
                           or (w.kind == "call:append" and w.fn == "queue_and_send_record")
                           or (w.kind == "call:popleft" and w.fn == "handle_ack"))
        rep.check("C10.R2", "Outbound._outbound_queue writer %s (init / append when queued / popleft when acked)" % w.brief(), ok, w.site,
                  key="C10.R2:_outbound_queue:writer:%s" % w.brief(),
                  what="the retransmit queue is modified by %s: un-acked records can be lost or reordered across connections" % w.brief())
    ha = tree.func(OUT, "Outbound", "handle_ack")
    n_ok = 0
    for lp in [x for x in ast.walk(ha) if isinstance(x, ast.While)]:
        t = lp.test
        q = None
        if isinstance(t, ast.BoolOp) and isinstance(t.op, ast.And) and len(t.values) == 2 and is_self_attr(t.values[0]):
            q = t.values[0].attr
            c = t.values[1]
            okc = isinstance(c, ast.Compare) and isinstance(c.ops[0], ast.LtE) and isinstance(c.left, ast.Attribute) and c.left.attr == "seqnum" \
                and isinstance(c.left.value, ast.Subscript) and is_self_attr(c.left.value.value, q) and const(c.left.value.slice) == 0 \
                and isinstance(c.comparators[0], ast.Name) and c.comparators[0].id in params(ha)
            pops = [x for x in ast.walk(lp) if isinstance(x, ast.Call) and dotted(x.func) == "self.%s.popleft" % q]
            if okc and len(pops) == 1 and len(lp.body) == 1:
                n_ok += 1
    rep.check("C10.R2", "handle_ack retires from the head of both queues exactly the records with seqnum <= the acked number", n_ok == 2,
              site(ha, OUT), key="C10.R2:handle_ack", what="acknowledged records are retired with the wrong bound (a record can be dropped un-acked, or kept forever)")


def r3(tree, rep):
    fn = tree.func(OUT, "Outbound", "use_connection")
    g = build(fn)
    setc = g.nodes(lambda s: isinstance(s, ast.Assign) and any(is_self_attr(t, "_connection") for t in s.targets))
    ext = g.call_nodes(lambda c: dotted(c.func) == "self._queued_unsent.extend" and len(c.args) == 1 and is_self_attr(c.args[0], "_outbound_queue"))
    reg = g.call_nodes(lambda c: isinstance(c.func, ast.Attribute) and c.func.attr == "registerProducer")
    res = g.call_nodes(lambda c: dotted(c.func) == "self.resumeProducing")
    ok = len(ext) == 1 and len(reg) == 1 and len(res) == 1 and len(setc) == 1 and g.must_pass(ext) and g.must_pass(res) \
        and not g.precedes(ext, reg + res) and not g.precedes(reg, res) and not g.precedes(setc, res)
    rep.check("C10.R3", "use_connection refills _queued_unsent from _outbound_queue, then registers as producer, then resumes", ok,
              site(fn, OUT), key="C10.R3:use_connection", what="un-acked records are not (all) retransmitted first on a new connection")
    empt = [a for a in ast.walk(fn) if isinstance(a, ast.Assert) and isinstance(a.test, ast.UnaryOp) and is_self_attr(a.test.operand, "_queued_unsent")]
    clr = g.call_nodes(lambda c: dotted(c.func) == "self._queued_unsent.clear")
    ok = (bool(empt) or bool(clr))
    if ok:
        first = [g.node_of(a) for a in empt] + clr
        ok = not g.precedes(first, ext)
    rep.check("C10.R3", "use_connection starts from an empty _queued_unsent (asserted or cleared before the refill)", ok, site(fn, OUT),
              key="C10.R3:use_connection:empty-unsent", what="stale unsent records from a previous connection can be sent ahead of / in addition to the retransmit queue")
    sc = tree.func(OUT, "Outbound", "stop_using_connection")
    g2 = build(sc)
    clr = g2.call_nodes(lambda c: dotted(c.func) == "self._queued_unsent.clear")
    unset = g2.nodes(lambda s: isinstance(s, ast.Assign) and any(is_self_attr(t, "_connection") for t in s.targets) and const(s.value) is None)
    pa = g2.call_nodes(lambda c: dotted(c.func) == "self.pauseProducing")
    ok = len(clr) == 1 and g2.must_pass(clr) and len(unset) == 1 and g2.must_pass(unset) and bool(pa) and g2.must_pass(pa)
    rep.check("C10.R3", "stop_using_connection forgets the connection, clears _queued_unsent and pauses, on every path", ok, site(sc, OUT),
              key="C10.R3:stop_using_connection", what="after a connection loss stale unsent records / a dead connection object survive")
    rp = tree.func(OUT, "Outbound", "resumeProducing")
    g3 = build(rp, split=True)
    unsent3 = truthy_atom(lambda e: is_self_attr(e, "_queued_unsent"))
    pr = g3.call_nodes(lambda c: isinstance(c.func, ast.Attribute) and c.func.attr == "resumeProducing" and not is_self_attr(c.func.value))
    snd = g3.call_nodes(lambda c: dotted(c.func) == "self._connection.send_record")
    pop = g3.call_nodes(lambda c: dotted(c.func) == "self._queued_unsent.popleft")
    if len(pr) == 1 and len(snd) == 1 and len(pop) == 1 and g3.cond_edges(unsent3, False):
        # a producer is resumed only on a path where the unsent test was false in this iteration: from every edge on which
        # records are still unsent, a producer is reached only by going round the loop through the send
        ok = not g3.only_when(pr, unsent3, False)
        for (x, y, lab) in g3.cond_edges(unsent3, True):
            ok = ok and not (set(pr) & g3.reach([y], avoid_nodes=set(snd)))
        c = [c for c in ast.walk(g3.stmt[snd[0]]) if isinstance(c, ast.Call) and dotted(c.func) == "self._connection.send_record"][0]
        v = expand(rp, c.args[0])
        ok = ok and isinstance(v, ast.Call) and dotted(v.func) == "self._queued_unsent.popleft"
    else:
        ok = False
    rep.check("C10.R3", "resumeProducing sends the unsent records (oldest first) before it resumes any producer", ok, site(rp, OUT),
              key="C10.R3:resumeProducing:unsent-first", what="fresh data from a producer can overtake queued retransmissions")
    own, foreign = class_writers(tree, "Outbound", "_queued_unsent")
    for w in own + foreign:
        ok = w in own and ((w.kind == "assign" and w.fn in ("__init__", "__attrs_post_init__") and is_empty_ctor(w.value, ("deque",)))
                           or (w.kind == "call:append" and w.fn == "queue_and_send_record") or (w.kind == "call:extend" and w.fn == "use_connection")
                           or (w.kind == "call:popleft" and w.fn in ("handle_ack", "resumeProducing")) or (w.kind == "call:clear" and w.fn in ("stop_using_connection", "use_connection")))
        rep.check("C10.R3", "Outbound._queued_unsent writer %s" % w.brief(), ok, w.site, key="C10.R3:_queued_unsent:writer:%s" % w.brief())


def r4_r5(tree, rep):
    fn = tree.func(MGR, "Manager", "got_record")
    g = build(fn, split=True)
    r0 = params(fn)[0]
    is_seqnum = lambda e: dotted(expand(fn, e) if isinstance(e, ast.Name) else e) == r0 + ".seqnum"
    numbered = truthy_atom(lambda e: isinstance(e, ast.Call) and dotted(e.func) == "isinstance" and len(e.args) == 2
                           and isinstance(e.args[1], ast.Tuple) and {dotted(x) for x in e.args[1].elts} == {"Open", "Data", "Close"})
    old = truthy_atom(lambda e: isinstance(e, ast.Call) and dotted(e.func) == "self._inbound.is_record_old")
    acks = g.call_nodes(lambda c: dotted(c.func) == "self.send_ack" and len(c.args) == 1 and is_seqnum(c.args[0]))
    old_n = g.call_nodes(lambda c: dotted(c.func) == "self._inbound.is_record_old")
    wm = g.call_nodes(lambda c: dotted(c.func) == "self._inbound.update_ack_watermark" and len(c.args) == 1 and is_seqnum(c.args[0]))
    handles = g.call_nodes(lambda c: (dotted(c.func) or "").startswith("self._inbound.handle_"))
    num_edges = g.cond_edges(numbered, True)
    ok = bool(num_edges) and len(acks) == 1 and len(old_n) == 1 and len(wm) == 1 and len(handles) == 3 \
        and bool(g.cond_edges(old, True)) and bool(g.cond_edges(old, False))
    rep.check("C10.R4", "got_record: shape (numbered-record branch, one ack, one old test, one watermark update, three handlers)", ok, site(fn, MGR),
              key="C10.R4:shape")
    if ok:
        always = all(g.exit not in g.reach([y], avoid_nodes=set(acks), explicit_only=True) for (x, y, lab) in num_edges)
        rep.check("C10.R4", "every numbered record is acknowledged on every path (also old ones)", always
                  and not g.precedes(acks, old_n), site(fn, MGR), key="C10.R4:always-ack",
                  what="a numbered record can be processed or dropped without an ack (the peer retransmits forever / never retires it)")
        n_old, hit = g.when_never_reaches(old, True, handles + wm)
        rep.check("C10.R4", "an old (already processed) record is dropped: no handler on the old edge", n_old > 0 and not hit,
                  site(fn, MGR), key="C10.R4:old-dropped", what="a retransmitted record can be delivered a second time")
        rep.check("C10.R4", "handlers run only past the old-record test, after the watermark update", not g.only_when(handles, old, False)
                  and not g.precedes(wm, handles), site(fn, MGR), key="C10.R4:handlers-after-watermark")
        rep.check("C10.R4", "numbered-record handling is only reachable for Open/Data/Close", not g.only_when(handles + wm, numbered, True), site(fn, MGR),
                  key="C10.R4:seq-branch")
        # dispatch: Open -> handle_open(scid, subprotocol) etc.
        r = params(fn)[0]
        want = {"handle_open": ["scid", "subprotocol"], "handle_data": ["scid", "data"], "handle_close": ["scid"]}
        for n in handles:
            for c in [c for c in ast.walk(g.stmt[n]) if isinstance(c, ast.Call) and (dotted(c.func) or "").startswith("self._inbound.handle_")]:
                h = dotted(c.func).split(".")[-1]
                rep.check("C10.R4", "%s receives the record's own fields" % h, [dotted(a) for a in c.args] == ["%s.%s" % (r, f) for f in want.get(h, ["?"])],
                          site(c, MGR), key="C10.R4:%s:args" % h)
    io = tree.func(INB, "Inbound", "is_record_old")
    # evaluate over the three orderings: returns True exactly when seqnum <= watermark
    cmps = [c for c in ast.walk(io) if isinstance(c, ast.Compare)]
    ok = len(cmps) == 1
    if ok:
        c = cmps[0]
        l, op, r = c.left, c.ops[0], c.comparators[0]
        def kind(x):
            if isinstance(x, ast.Attribute) and x.attr == "seqnum" and isinstance(x.value, ast.Name) and x.value.id in params(io):
                return "s"
            if is_self_attr(x, "_highest_inbound_acked"):
                return "w"
            return None
        kl, kr = kind(l), kind(r)
        table = None
        if (kl, kr) == ("s", "w"):
            table = {"<": isinstance(op, (ast.Lt, ast.LtE, ast.NotEq)), "=": isinstance(op, (ast.LtE, ast.Eq, ast.GtE)), ">": isinstance(op, (ast.Gt, ast.GtE, ast.NotEq))}
        elif (kl, kr) == ("w", "s"):
            table = {">": isinstance(op, (ast.Lt, ast.LtE, ast.NotEq)), "=": isinstance(op, (ast.LtE, ast.Eq, ast.GtE)), "<": isinstance(op, (ast.Gt, ast.GtE, ast.NotEq))}
        # how the comparison result maps to the return value
        gi = build(io)
        tests = [n for n in gi.nodes(lambda s: isinstance(s, ast.If)) if gi.stmt[n].test is c]
        rets = {const(gi.stmt[n].value): n for n in gi.nodes(lambda s: isinstance(s, ast.Return))}
        direct = [n for n in gi.nodes(lambda s: isinstance(s, ast.Return)) if gi.stmt[n].value is c]
        if table is not None and tests and True in rets and False in rets:
            t_true = rets[True] in gi.reach(gi.branch_targets(tests[0], 'T')) and rets[False] not in gi.reach(gi.branch_targets(tests[0], 'T'))
            result = table if t_true else {k: not v for k, v in table.items()}
        elif table is not None and direct:
            result = table
        else:
            result = None
        ok = result == {"<": True, "=": True, ">": False}
    rep.check("C10.R5", "is_record_old(r) is true exactly for seqnum < watermark and seqnum == watermark, false above", ok, site(io, INB),
              key="C10.R5:is_record_old", what="old/new classification is off by one: a record can be delivered twice or dropped")
    uw = tree.func(INB, "Inbound", "update_ack_watermark")
    own, foreign = class_writers(tree, "Inbound", "_highest_inbound_acked")
    ok = not foreign and len(own) == 2
    for w in own:
        if w.fn in ("__init__", "__attrs_post_init__"):
            ok = ok and isinstance(w.value, ast.UnaryOp) and isinstance(w.value.op, ast.USub) and const(w.value.operand) == 1
        else:
            v = w.value
            is_max = isinstance(v, ast.Call) and dotted(v.func) == "max" and len(v.args) == 2 \
                and any(is_self_attr(a, "_highest_inbound_acked") for a in v.args) \
                and any(isinstance(a, ast.Name) and a.id in params(uw) for a in v.args)
            # or:  if seqnum > self._highest_inbound_acked: self._highest_inbound_acked = seqnum
            is_guarded = False
            if isinstance(v, ast.Name) and v.id in params(uw) and not local_defs(uw, v.id):
                gu = build(uw, split=True)
                higher = cmp_atom(lambda e: isinstance(e, ast.Name) and e.id == v.id, lambda e: is_self_attr(e, "_highest_inbound_acked"),
                                  (ast.Gt, ast.GtE), (ast.LtE, ast.Lt))
                node = gu.node_of(w.node)
                is_guarded = node is not None and not gu.only_when([node], higher, True)
            ok = ok and w.fn == "update_ack_watermark" and (is_max or is_guarded)
    rep.check("C10.R5", "the ack watermark starts at -1 and is only ever assigned max(itself, seqnum)", ok, site(uw, INB), key="C10.R5:watermark-monotone",
              what="the watermark can move backwards (old records become new again)")


def r6_r7(tree, rep):
    fn = tree.func(OUT, "Outbound", "send_if_connected")
    asserts = [a for a in ast.walk(fn) if isinstance(a, ast.Assert) and isinstance(a.test, ast.Call) and dotted(a.test.func) == "isinstance"
               and isinstance(a.test.args[1], ast.Tuple)]
    ok = len(asserts) == 1 and not ({dotted(e) for e in asserts[0].test.args[1].elts} & {"Open", "Data", "Close"})
    g = build(fn)
    snd = g.call_nodes(lambda c: dotted(c.func) == "self._connection.send_record")
    ok = ok and len(snd) == 1 and not g.precedes([g.node_of(asserts[0])], snd) if ok else False
    rep.check("C10.R6", "send_if_connected (the unqueued path) asserts an un-numbered record type before sending", ok, site(fn, OUT), key="C10.R6:send_if_connected")
    cls = tree.cls(OUT, "Outbound")
    for m in cls.body:
        if isinstance(m, ast.FunctionDef):
            for c in calls_named(m, "self._connection.send_record"):
                rep.check("C10.R6", "Outbound sends only from queue_and_send_record / resumeProducing / send_if_connected (here %s)" % m.name,
                          m.name in ("queue_and_send_record", "resumeProducing", "send_if_connected"), site(c, OUT), key="C10.R6:sender:%s" % m.name)
    mg = tree.cls(MGR, "Manager")
    for m in mg.body:
        if isinstance(m, ast.FunctionDef):
            for c in calls_named(m, "self._outbound.send_if_connected"):
                a = c.args[0]
                ok = isinstance(a, ast.Call) and dotted(a.func) in ("Ping", "Pong", "Ack")
                rep.check("C10.R6", "Manager.%s sends only an un-numbered record unqueued" % m.name, ok, site(c, MGR), key="C10.R6:unqueued:%s" % m.name)
    # R7 parked records FIFO
    own, foreign = class_writers(tree, "DilatedConnectionProtocol", "_inbound_record_queue")
    inits = [w for w in own if w.kind == "assign"]
    is_deque = any(is_empty_ctor(w.value, ("deque",)) for w in inits)
    for w in own + foreign:
        ok = w in own and ((w.kind == "assign" and is_empty_ctor(w.value, ("list", "deque"))) or w.kind == "call:append"
                           or (w.kind == "call:pop" and not is_deque and len(w.value.args) == 1 and is_const(w.value.args[0], 0))
                           or (w.kind == "call:popleft" and is_deque))
        rep.check("C10.R7", "records parked while a connection is being selected are replayed first-in-first-out (%s)" % w.brief(), ok, w.site,
                  key="C10.R7:_inbound_record_queue:writer:%s@%s" % (w.brief(), "deque" if is_deque else "list"),
                  what="records that arrive together with the KCM are handed to the manager out of order (newer ones make older ones 'old')")
    if len(own) < 3:
        raise AnalysisError("DilatedConnectionProtocol._inbound_record_queue has fewer writers than expected")
    pq = tree.func(CON, "DilatedConnectionProtocol", "process_inbound_queue")
    cs = calls_named(pq, "self._manager.got_record")
    ok = len(cs) == 1 and isinstance(expand(pq, cs[0].args[0]), ast.Call)
    rep.check("C10.R7", "process_inbound_queue hands every parked record to the manager", ok, site(pq, CON), key="C10.R7:process_inbound_queue")


def timer_accepts_next_connection(tree, rep, rule):
    from ..automat_x import Program
    prog = Program(tree)
    T = prog.machine("TrafficTimer")
    after_loss = {r.enter for r in T.rows_on("lost_connection")} | {T.initial}
    for st in sorted(after_loss):
        r = T.row(st, "got_connection")
        rep.check(rule, "TrafficTimer[%s] (left behind by a lost connection) accepts got_connection" % st, r is not None,
                  r.site if r is not None else T.file, key="%s:TrafficTimer[%s].got_connection" % (rule, st),
                  what="after a connection was lost in some timer state the timer is in %s, where got_connection is not declared: the next "
                       "connector_connection_made raises NoTransition before the Manager learns of the connection" % st)


def r8(tree, rep):
    """the replay needs connector_connection_made to reach Outbound.use_connection on EVERY new connection: what runs before it
    must not raise.  The leader first feeds TrafficTimer.got_connection: that input has to be declared in every timer state a lost
    connection can leave behind."""
    from ..automat_x import Program
    from ..tablerules import row_calls
    prog = Program(tree)
    T = prog.machine("TrafficTimer")
    M = prog.machine("Manager")
    after_loss = {r.enter for r in T.rows_on("lost_connection")} | {T.initial}
    for st in sorted(after_loss):
        r = T.row(st, "got_connection")
        rep.check("C10.R8", "TrafficTimer[%s] (left behind by a lost connection) accepts got_connection" % st, r is not None,
                  r.site if r is not None else T.file, key="C10.R8:TrafficTimer[%s].got_connection" % st,
                  what="after a connection was lost in some timer state the timer is in %s, where got_connection is not declared: the next "
                       "connector_connection_made raises NoTransition before Outbound.use_connection, nothing is replayed" % st)
    for st in T.states:
        r = T.row(st, "lost_connection")
        if r is not None:
            idle = [x.src for x in T.rows_on("got_connection")]
            rep.check("C10.R8", "TrafficTimer[%s].lost_connection enters a state that accepts the next connection" % st, r.enter in idle, r.site,
                      key="C10.R8:TrafficTimer[%s].lost_connection" % st)
    cm = tree.func(MGR, "Manager", "connector_connection_made")
    g = build(cm)
    use = g.call_nodes(lambda c: dotted(c.func) == "self._outbound.use_connection" and len(c.args) == 1 and isinstance(c.args[0], ast.Name)
                       and c.args[0].id in params(cm))
    gc = g.call_nodes(lambda c: dotted(c.func) == "self._traffic.got_connection")
    rep.check("C10.R8", "connector_connection_made hands the new connection to Outbound.use_connection on every path, after the timer was told",
              len(use) == 1 and g.must_pass(use, explicit_only=True) and len(gc) == 1, site(cm, MGR), key="C10.R8:use_connection")


def r9(tree, rep):
    """lemmas owned by neighbours that the exactly-once / in-order claim rests on: (a) a late-registered listener sees open,
    data, close in the order issued (C13.R4); (b) every record size is transmitted in Noise packets the peer accepts - a record
    the receiver must reject is retransmitted forever at the head of the queue and blocks everything behind it (C12.R2)"""
    from .C13 import connect_order
    connect_order(tree, rep, "C10.R9")
    from .C12 import _chunking_ok
    CON_ = "src/wormhole/_dilation/connection.py"
    for meth, K, op in (("send_record", "NOISE_MAX_PAYLOAD", "encrypt"), ("decrypt_message", "NOISE_MAX_CIPHERTEXT", "decrypt")):
        fn = tree.func(CON_, "_Record", meth)
        rep.check("C10.R9", "_Record.%s partitions by %s with the matching single-packet threshold" % (meth, K), _chunking_ok(fn, K, op), site(fn, CON_),
                  key="C10.R9:%s:chunking" % meth,
                  what="some record sizes are sent in a Noise packet the receiver rejects: that record is replayed first on every new "
                       "connection and nothing issued after it is ever delivered")


def r10(tree, rep):
    """every OPEN creates its own subchannel at the peer: the ids the two sides allocate never collide (the rule instances are C13.R2)"""
    from .C13 import r2 as c13_r2
    sub = type(rep)(rep.pid, rep.tier, rep.seed)
    c13_r2(tree, sub)
    for o in sub.obligations:
        if o["rule"] == "C13.R2":
            rep.obligations.append(dict(o, rule="C10.R10"))
            rep.evaluations += 1
    for v in sub.violations:
        if v["rule"] == "C13.R2":
            rep.violation("C10.R10", v["key"].replace("C13.R2", "C10.R10"),
                          v["what"] + " (an OPEN is dropped as a duplicate and its DATA / CLOSE reach another subchannel)", v.get("site"), v.get("detail"), _count=False)


def r11(tree, rep, tier):
    """in the two-party product (engine A5) every connection handed to Inbound / Outbound (use_connection) has been taken away again
    (stop_using_connection) before the next one arrives, whatever the order of loss, RECONNECT and stop: only then does Outbound
    refill its unsent queue from the retransmission queue and replay it on the new connection"""
    from .. import a5common
    sums = a5common.explorations(tree, tier, rep)
    a5common.fill_extra(rep, sums)
    a5common.report(rep, "C10.R11", sums, ("connection-not-released",) + a5common.INTERNAL)


def run(tree, rep, tier):
    from .. import round9 as _r9b
    _r9b.no_yield_between(tree, rep, "C10.R14", "src/wormhole/_dilation/subchannel.py", "SubchannelConnectorEndpoint", "connect", "subchannel_local_open",
                          ("_set_protocol", "makeConnection"), "the subchannel is already registered with Inbound but has no protocol: DATA / CLOSE that arrive in that turn are parked in _pending_remote_data, which only the listener path drains - they are acknowledged and never delivered (connectionLost never fires on the connecting side)")
    from .. import round9 as _r9
    _r9.be4_codec_unsigned(tree, rep, "C10.R13")
    from .. import itermut
    itermut.check(tree, rep, "C10.R12", ("src/wormhole/_dilation/connection.py", "src/wormhole/_dilation/outbound.py", "src/wormhole/_dilation/inbound.py",
                                         "src/wormhole/_dilation/manager.py", "src/wormhole/_dilation/subchannel.py"),
                  "a queued record is skipped: it is never delivered although it was acknowledged")
    from .. import sharedstate
    sharedstate.check(tree, rep, "C10.R0")
    r10(tree, rep)
    r11(tree, rep, tier)
    r1(tree, rep)
    r2(tree, rep)
    r3(tree, rep)
    r4_r5(tree, rep)
    r6_r7(tree, rep)
    r8(tree, rep)
    r9(tree, rep)


MUTANTS = [
    Mutant("seqnum-reset-on-connect", OUT, "    def use_connection(self, c):\n        self._connection = c\n", "    def use_connection(self, c):\n        self._connection = c\n        self._next_outbound_seqnum = 0\n", "C10.R1"),
    Mutant("append-only-disconnected", OUT, "        self._outbound_queue.append(r)\n\n        if self._connection:\n            if self._queued_unsent:",
           "        if not self._connection:\n            self._outbound_queue.append(r)\n\n        if self._connection:\n            if self._queued_unsent:", "C10.R2"),
    Mutant("stop-clears-retransmit-queue", OUT, "        self._queued_unsent.clear()\n        self.pauseProducing()", "        self._queued_unsent.clear()\n        self._outbound_queue.clear()\n        self.pauseProducing()", "C10.R2"),
    Mutant("resume-before-refill", OUT, "        self._queued_unsent.extend(self._outbound_queue)\n        # the connection can tell us to pause when we send too much data\n", "        # the connection can tell us to pause when we send too much data\n", "C10.R3",
           also=((OUT, "        # send our queued messages\n        self.resumeProducing()\n", "        # send our queued messages\n        self.resumeProducing()\n        self._queued_unsent.extend(self._outbound_queue)\n"),)),
    Mutant("stop-early-return-keeps-unsent", OUT, "        self._connection = None\n        self._queued_unsent.clear()\n        self.pauseProducing()",
           "        self._connection = None\n        if self._paused:\n            return\n        self._queued_unsent.clear()\n        self.pauseProducing()", "C10.R3",
           also=((OUT, "        assert not self._queued_unsent\n", ""),)),
    Mutant("ack-after-old-return", MGR, "            self.send_ack(r.seqnum)  # always ack, even for old ones\n            if self._inbound.is_record_old(r):\n                return\n",
           "            if self._inbound.is_record_old(r):\n                return\n            self.send_ack(r.seqnum)  # always ack, even for old ones\n", "C10.R4"),
    Mutant("no-old-test", MGR, "            if self._inbound.is_record_old(r):\n                return\n", "", "C10.R4"),
    Mutant("old-lt", INB, "        if r.seqnum <= self._highest_inbound_acked:", "        if r.seqnum < self._highest_inbound_acked:", "C10.R5"),
    Mutant("watermark-assign", INB, "        self._highest_inbound_acked = max(self._highest_inbound_acked,\n                                          seqnum)", "        self._highest_inbound_acked = seqnum", "C10.R5"),
    Mutant("ack-lt", OUT, "               self._outbound_queue[0].seqnum <= resp_seqnum):", "               self._outbound_queue[0].seqnum < resp_seqnum):", "C10.R2"),
    Mutant("parked-lifo", CON, "            r = self._inbound_record_queue.pop(0)", "            r = self._inbound_record_queue.pop()", "C10.R7"),
    Mutant("new-overtakes-unsent", OUT, "            if self._queued_unsent:\n                # to maintain correct ordering, queue this instead of sending it\n                self._queued_unsent.append(r)\n            else:\n                # we're allowed to send it immediately\n                self._connection.send_record(r)", "            self._connection.send_record(r)", "C10.R2"),
]
REWRITES = [
    Rewrite("old-test-direct-return", INB, "        if r.seqnum <= self._highest_inbound_acked:\n            return True\n        return False", "        return r.seqnum <= self._highest_inbound_acked", desc="comparison returned directly"),
    Rewrite("old-test-flipped", INB, "        if r.seqnum <= self._highest_inbound_acked:\n            return True\n        return False", "        if self._highest_inbound_acked >= r.seqnum:\n            return True\n        return False", desc="operands swapped"),
]

# engine A5: use_connection / stop_using_connection pairing
MUTANTS.append(Mutant("abandon-forgets-connection", MGR, "        self._connection.disconnect()  # let connection_lost do cleanup",
                      "        self._connection.disconnect()  # let connection_lost do cleanup\n        self._connection = None", "C10.R11",
                      "two cooperating sites: abandon clears _connection, _stop_using_connection returns early when it is None",
                      also=((MGR, "        # the connection is already lost by this point\n", "        # the connection is already lost by this point\n        if self._connection is None:\n            return\n"),)))

MUTANTS.append(Mutant("signed-be4-decoder", "src/wormhole/_dilation/encode.py", "    return struct.unpack(\">L\", b)[0]", "    return struct.unpack(\">l\", b)[0]", "C10.R13", "seed C10-21"))

MUTANTS.append(Mutant("yield-before-protocol-attached", "src/wormhole/_dilation/subchannel.py", "        p = protocolFactory.buildProtocol(peer_addr)\n        sc._set_protocol(p)\n", "        p = protocolFactory.buildProtocol(peer_addr)\n        yield self._eventual_queue.fire_eventually()\n        sc._set_protocol(p)\n", "C10.R14", "seeds C10-20 / C13-20"))
