"""C15 — dilation back-pressure: pause/resume pairing discipline (the lost-wake-up clause over all interleavings is NOT decided)."""
import ast

from ..srcmodel import AnalysisError, site
from ..astutil import dotted, const, params, local_defs, is_self_attr, calls_named, same_expr, walk_shallow, block_of, enclosing_function
from ..dataflow import expand
from ..effects import class_writers, is_empty_ctor, is_const
from ..cfg import build
from ..selftest import Mutant, Rewrite

EXPLANATION = ("Pairing discipline only: (R1) Outbound producer sets move together - a producer enters _all_producers with exactly one "
               "of the paused/unpaused sets chosen by the _paused flag, leaves all three together, and every move between the sets is "
               "immediately followed by the matching pause/resume call; a newly registered producer is paused exactly once when we "
               "are paused. (R2) pauseProducing sets the flag first and visits every producer; resumeProducing clears it, loops on "
               "it, sends unsent records before resuming producers and takes producers only through the rotating accessor; losing a "
               "connection and stopProducing pause; use_connection registers with the transport before resuming. (R3) Inbound pauses "
               "the connection exactly on the empty->non-empty edge of _paused_subchannels and resumes exactly on the non-empty->empty "
               "edge, updates the set whether or not a connection exists, and pauses a new connection while the set is non-empty. "
               "Absence of lost wake-ups under re-entrancy is a schedule property and is not claimed.")
TRUSTED_BASE = ["T1", "T4"]
MIN_OBLIGATIONS = 20

OUT = "src/wormhole/_dilation/outbound.py"
INB = "src/wormhole/_dilation/inbound.py"


def _next_stmt_calls(stmt, callee_attr, var):
    """is the statement right after `stmt` in its block the call <var>.<callee_attr>() ?"""
    blk, i = block_of(stmt)
    if blk is None or i + 1 >= len(blk):
        return False
    n = blk[i + 1]
    return isinstance(n, ast.Expr) and isinstance(n.value, ast.Call) and isinstance(n.value.func, ast.Attribute) \
        and n.value.func.attr == callee_attr and isinstance(n.value.func.value, ast.Name) and n.value.func.value.id == var


def r1(tree, rep):
    sets = ("_paused_producers", "_unpaused_producers")
    moves = []
    for attr in sets:
        own, foreign = class_writers(tree, "Outbound", attr)
        for w in own + foreign:
            if w.kind == "assign" and w.fn in ("__init__", "__attrs_post_init__") and is_empty_ctor(w.value, ("set",)):
                continue
            ok_site = w in own and w.fn in ("subchannel_registerProducer", "subchannel_unregisterProducer", "pauseProducing", "resumeProducing")
            rep.check("C15.R1", "Outbound.%s writer %s is register / unregister / pause / resume" % (attr, w.brief()), ok_site, w.site,
                      key="C15.R1:%s:writer:%s" % (attr, w.brief()))
            moves.append((attr, w))
    # pause: remove from unpaused, add to paused, then p.pauseProducing()
    pf = tree.func(OUT, "Outbound", "pauseProducing")
    rf = tree.func(OUT, "Outbound", "resumeProducing")
    for fn, frm, to, call in ((pf, "_unpaused_producers", "_paused_producers", "pauseProducing"), (rf, "_paused_producers", "_unpaused_producers", "resumeProducing")):
        rem = [c for c in ast.walk(fn) if isinstance(c, ast.Call) and dotted(c.func) in ("self.%s.remove" % frm, "self.%s.discard" % frm)]
        add = [c for c in ast.walk(fn) if isinstance(c, ast.Call) and dotted(c.func) == "self.%s.add" % to]
        ok = len(rem) == 1 and len(add) == 1 and isinstance(rem[0].args[0], ast.Name) and isinstance(add[0].args[0], ast.Name) and rem[0].args[0].id == add[0].args[0].id
        if ok:
            var = rem[0].args[0].id
            s_rem, s_add = rem[0]._parent, add[0]._parent
            b1, i1 = block_of(s_rem)
            b2, i2 = block_of(s_add)
            ok = b1 is b2 and abs(i1 - i2) == 1 and _next_stmt_calls(b1[max(i1, i2)], call, var)
        rep.check("C15.R1", "Outbound.%s moves a producer %s -> %s and immediately calls its %s()" % (fn.name, frm, to, call), ok, site(fn, OUT),
                  key="C15.R1:%s:paired-move" % fn.name, what="a producer can be recorded as %s without being told (or told without being recorded)" % to.strip("_"))
    reg = tree.func(OUT, "Outbound", "subchannel_registerProducer")
    g = build(reg)
    alla = g.call_nodes(lambda c: dotted(c.func) == "self._all_producers.append")
    pa = g.call_nodes(lambda c: dotted(c.func) == "self._paused_producers.add")
    ua = g.call_nodes(lambda c: dotted(c.func) == "self._unpaused_producers.add")
    pt = [t for t in g.nodes(lambda s: isinstance(s, ast.If)) if is_self_attr(g.stmt[t].test, "_paused")]
    ok = len(alla) == 1 and len(pa) == 1 and len(ua) == 1 and g.must_pass(alla) and g.must_pass(pa + ua) and bool(pt) \
        and not g.guarded_by(pt, pa, 'T') and not g.guarded_by(pt, ua, 'F') \
        and pa[0] not in g.reach([y for (y, l) in g.succ[ua[0]] if l != 'exc']) and ua[0] not in g.reach([y for (y, l) in g.succ[pa[0]] if l != 'exc'])
    rep.check("C15.R1", "registerProducer: the producer joins _all_producers and exactly one of paused/unpaused, chosen by self._paused", ok, site(reg, OUT),
              key="C15.R1:register:sets")
    pp = g.call_nodes(lambda c: dotted(c.func) == "producer.pauseProducing")
    ss = g.call_nodes(lambda c: dotted(c.func) == "producer.startStreaming")
    from ..cfg import truthy_atom as _ta
    gs = build(reg, split=True)
    pp = gs.call_nodes(lambda c: dotted(c.func) == "producer.pauseProducing")
    ss = gs.call_nodes(lambda c: dotted(c.func) == "producer.startStreaming")
    is_push = _ta(lambda e: isinstance(e, ast.Name) and e.id == "streaming")
    is_paused = _ta(lambda e: is_self_attr(e, "_paused"))
    ok = len(pp) == 1 and len(ss) == 1
    if ok:
        # push producers: pauseProducing() only when streaming and paused; pull producers: only startStreaming(self._paused)
        ok = not gs.only_when(pp, is_push, True) and not gs.only_when(pp, is_paused, True) and not gs.only_when(ss, is_push, False)
        c = [c for c in ast.walk(gs.stmt[ss[0]]) if isinstance(c, ast.Call) and dotted(c.func) == "producer.startStreaming"][0]
        ok = ok and len(c.args) == 1 and is_self_attr(c.args[0], "_paused")
    rep.check("C15.R1", "registerProducer pauses a new producer exactly once when paused: a push producer by pauseProducing(), a pull producer "
              "only through startStreaming(self._paused)", ok, site(reg, OUT), key="C15.R1:register:single-pause",
              what="a producer registered while paused is paused twice (its counted pause never balances: it never resumes) or not at all")
    un = tree.func(OUT, "Outbound", "subchannel_unregisterProducer")
    g = build(un)
    rm = [g.call_nodes(lambda c: dotted(c.func) == "self._all_producers.remove"), g.call_nodes(lambda c: dotted(c.func) in ("self._paused_producers.discard", "self._paused_producers.remove")),
          g.call_nodes(lambda c: dotted(c.func) in ("self._unpaused_producers.discard", "self._unpaused_producers.remove"))]
    ok = all(len(x) == 1 and g.must_pass(x) for x in rm)
    rep.check("C15.R1", "unregisterProducer removes the producer from all three collections", ok, site(un, OUT), key="C15.R1:unregister")
    sc = tree.func(OUT, "Outbound", "subchannel_closed")
    rep.check("C15.R1", "a closed subchannel's producer is unregistered", bool(calls_named(sc, "self.subchannel_unregisterProducer")), site(sc, OUT), key="C15.R1:subchannel_closed")


def r2(tree, rep):
    pf = tree.func(OUT, "Outbound", "pauseProducing")
    g = build(pf)
    setf = g.nodes(lambda s: isinstance(s, ast.Assign) and any(is_self_attr(t, "_paused") for t in s.targets) and const(s.value) is True)
    loops = [n for n in g.nodes(lambda s: isinstance(s, ast.For)) if is_self_attr(g.stmt[n].iter, "_all_producers")]
    ok = len(setf) == 1 and len(loops) == 1 and not g.precedes(setf, loops) \
        and not any(isinstance(x, (ast.Break, ast.Return)) for x in ast.walk(g.stmt[loops[0]])) if (len(setf) == 1 and len(loops) == 1) else False
    rep.check("C15.R2", "pauseProducing sets the paused flag first, then visits every registered producer", ok, site(pf, OUT), key="C15.R2:pauseProducing")
    rf = tree.func(OUT, "Outbound", "resumeProducing")
    g = build(rf)
    clr = g.nodes(lambda s: isinstance(s, ast.Assign) and any(is_self_attr(t, "_paused") for t in s.targets) and const(s.value) is False)
    wl = [n for n in g.nodes(lambda s: isinstance(s, ast.While)) if isinstance(g.stmt[n].test, ast.UnaryOp) and is_self_attr(g.stmt[n].test.operand, "_paused")]
    acc = g.call_nodes(lambda c: dotted(c.func) == "self._get_next_unpaused_producer")
    if not acc:
        # the accessor written in place: the head of _all_producers is taken and the deque rotated by one
        heads = g.nodes(lambda s: isinstance(s, ast.Assign) and isinstance(s.value, ast.Subscript) and is_self_attr(s.value.value, "_all_producers")
                        and const(s.value.slice) == 0)
        rots = g.call_nodes(lambda c: dotted(c.func) == "self._all_producers.rotate" and len(c.args) == 1
                            and isinstance(c.args[0], ast.UnaryOp) and isinstance(c.args[0].op, ast.USub) and const(c.args[0].operand) == 1)
        if len(heads) == 1 and len(rots) == 1 and not g.precedes(heads, rots):
            acc = heads
    ok = len(clr) == 1 and len(wl) == 1 and len(acc) == 1 and not g.precedes(clr, wl)
    rep.check("C15.R2", "resumeProducing clears the flag, then loops while not paused again, taking producers only through the rotating accessor", ok,
              site(rf, OUT), key="C15.R2:resumeProducing:loop", what="resume does not re-check the paused flag between producers (a producer that fills the buffer is ignored)")
    direct = [n for n in ast.walk(rf) if isinstance(n, (ast.For,)) and any(is_self_attr(x, "_paused_producers") or is_self_attr(x, "_all_producers") for x in ast.walk(n.iter))]
    rep.check("C15.R2", "resumeProducing does not iterate the producer sets directly", not direct, site(rf, OUT), key="C15.R2:resumeProducing:no-direct-iteration")
    in_place = not tree.has_func(OUT, "Outbound", "_get_next_unpaused_producer") and len(acc) == 1
    ga = rf if in_place else tree.func(OUT, "Outbound", "_get_next_unpaused_producer")
    rot = [c for c in ast.walk(ga) if isinstance(c, ast.Call) and dotted(c.func) == "self._all_producers.rotate"]
    g = build(ga)
    rn = g.call_nodes(lambda c: dotted(c.func) == "self._all_producers.rotate")
    if in_place:
        # the producer handed out = the one that is resumed
        rets = g.call_nodes(lambda c: isinstance(c.func, ast.Attribute) and c.func.attr == "resumeProducing" and isinstance(c.func.value, ast.Name))
    else:
        rets = [n for n in g.nodes(lambda s: isinstance(s, ast.Return)) if g.stmt[n].value is not None and const(g.stmt[n].value) is not None]
    ok = len(rot) == 1 and isinstance(rot[0].args[0], ast.UnaryOp) and const(rot[0].args[0].operand) == 1 and bool(rets) and not g.precedes(rn, rets)
    rep.check("C15.R2", "the accessor rotates the line by one on every producer it hands out (each paused producer gets a turn)", ok, site(ga, OUT),
              key="C15.R2:rotate", what="the same producer is resumed first every time (others starve)")
    for name in ("stop_using_connection", "stopProducing"):
        fn = tree.func(OUT, "Outbound", name)
        g = build(fn)
        pn = g.call_nodes(lambda c: dotted(c.func) == "self.pauseProducing")
        rep.check("C15.R2", "Outbound.%s pauses the producers on every path" % name, bool(pn) and g.must_pass(pn), site(fn, OUT), key="C15.R2:%s" % name)
    uc = tree.func(OUT, "Outbound", "use_connection")
    g = build(uc)
    reg = g.call_nodes(lambda c: isinstance(c.func, ast.Attribute) and c.func.attr == "registerProducer")
    res = g.call_nodes(lambda c: dotted(c.func) == "self.resumeProducing")
    ok = len(reg) == 1 and len(res) == 1 and not g.precedes(reg, res)
    if ok:
        c = [c for c in ast.walk(g.stmt[reg[0]]) if isinstance(c, ast.Call) and isinstance(c.func, ast.Attribute) and c.func.attr == "registerProducer"][0]
        ok = isinstance(c.args[0], ast.Name) and c.args[0].id == "self" and const(c.args[1]) is True
    rep.check("C15.R2", "use_connection registers itself as a push producer with the transport before resuming", ok, site(uc, OUT), key="C15.R2:use_connection")
    # pairing: what use_connection registers with the transport, stop_using_connection unregisters from it while it still knows it
    # (a transport that keeps us as its producer can "resume" us later, with no connection: every application producer is woken up,
    # _paused is False and the next use_connection never flushes)
    su = tree.func(OUT, "Outbound", "stop_using_connection")
    g = build(su)
    unreg = g.call_nodes(lambda c: isinstance(c.func, ast.Attribute) and c.func.attr == "unregisterProducer"
                         and any(is_self_attr(x, "_connection") for x in ast.walk(c.func.value)))
    forget = g.nodes(lambda st: isinstance(st, ast.Assign) and any(is_self_attr(t, "_connection") for t in st.targets))
    ok = bool(unreg) and g.must_pass(unreg) and bool(forget) and not g.precedes(unreg, forget)
    rep.check("C15.R2", "stop_using_connection unregisters Outbound from the old connection's transport on every path, before it forgets the connection",
              ok, site(su, OUT), key="C15.R2:stop_using_connection:unregister",
              what="Outbound stays registered as producer of the abandoned transport: a late drain signal from it resumes every application "
                   "producer while there is no connection, and the replacement connection never flushes or resumes (lost wake-up)")
    own, foreign = class_writers(tree, "Outbound", "_paused")
    ok = not foreign and all((w.fn == "__attrs_post_init__" and is_const(w.value, True)) or (w.fn == "pauseProducing" and is_const(w.value, True))
                             or (w.fn == "resumeProducing" and is_const(w.value, False)) for w in own)
    rep.check("C15.R2", "Outbound._paused is written only by the constructor (True), pauseProducing (True) and resumeProducing (False)", ok, OUT, key="C15.R2:_paused-writers")


def r3(tree, rep):
    from ..cfg import nonempty_atom, truthy_atom
    some_paused = nonempty_atom(lambda e: is_self_attr(e, "_paused_subchannels"))
    has_conn = truthy_atom(lambda e: is_self_attr(e, "_connection"))
    for name, op, edge in (("subchannel_pauseProducing", "add", "pause"), ("subchannel_resumeProducing", "discard", "resume"),
                           ("subchannel_stopProducing", "discard", "resume")):
        fn = tree.func(INB, "Inbound", name)
        g = build(fn, split=True)
        # was_paused = <is the set non-empty now>, sampled before the update
        was = g.nodes(lambda s: isinstance(s, ast.Assign) and len(s.targets) == 1 and isinstance(s.targets[0], ast.Name)
                      and some_paused(s.value) is True)
        upd = g.call_nodes(lambda c: dotted(c.func) in ("self._paused_subchannels." + op, "self._paused_subchannels.remove" if op == "discard" else "self._paused_subchannels." + op)
                           and isinstance(c.args[0], ast.Name) and c.args[0].id == params(fn)[0])
        act = g.call_nodes(lambda c: dotted(c.func) == "self._connection.%sProducing" % edge)
        ok = len(was) == 1 and len(upd) == 1 and len(act) == 1 and g.must_pass(upd) and not g.precedes(was, upd) and not g.precedes(upd, act)
        rep.check("C15.R3", "Inbound.%s updates _paused_subchannels on every path (with or without a connection), after sampling whether it was paused" % name,
                  ok, site(fn, INB), key="C15.R3:%s:update" % name,
                  what="%s forgets to record the subchannel's request when no connection exists: the state does not carry over to the next connection" % name)
        if ok:
            wv = g.stmt[was[0]].targets[0].id
            was_paused = truthy_atom(lambda e: isinstance(e, ast.Name) and e.id == wv)
            if edge == "pause":
                # exactly when connected and the set was empty before
                good = not g.only_when(act, has_conn, True) and not g.only_when(act, was_paused, False)
                avoid = set(g.cond_edges(has_conn, False)) | set(g.cond_edges(was_paused, True))
            else:
                # exactly when connected, the set was non-empty before and is empty now
                good = not g.only_when(act, has_conn, True) and not g.only_when(act, was_paused, True) and not g.only_when(act, some_paused, False)
                avoid = set(g.cond_edges(has_conn, False)) | set(g.cond_edges(was_paused, False)) | set(g.cond_edges(some_paused, True))
            good = good and g.exit not in g.reach(g.entry, avoid_nodes=set(act), avoid_edges=avoid, explicit_only=True)
            rep.check("C15.R3", "Inbound.%s %ss the connection exactly on the %s edge of _paused_subchannels" % (
                name, edge, "empty->non-empty" if edge == "pause" else "non-empty->empty"), good, site(fn, INB),
                key="C15.R3:%s:edge" % name, what="the connection is %sd at the wrong moment (not exactly when the set of pausing subchannels %s)" % (
                    edge, "becomes non-empty" if edge == "pause" else "becomes empty"))
    uc = tree.func(INB, "Inbound", "use_connection")
    g = build(uc, split=True)
    pa = g.call_nodes(lambda c: dotted(c.func) == "self._connection.pauseProducing")
    setc = g.nodes(lambda s: isinstance(s, ast.Assign) and any(is_self_attr(t, "_connection") for t in s.targets))
    edges = g.cond_edges(some_paused, True)
    ok = len(pa) == 1 and len(setc) == 1 and bool(edges) and not g.only_when(pa, some_paused, True) \
        and all(g.exit not in g.reach([y], avoid_nodes=set(pa), explicit_only=True) for (x, y, l) in edges) and not g.precedes(setc, pa)
    rep.check("C15.R3", "Inbound.use_connection pauses the new connection iff some subchannel is still paused", ok, site(uc, INB), key="C15.R3:use_connection")
    own, foreign = class_writers(tree, "Inbound", "_paused_subchannels")
    ok = not foreign and all((w.kind == "assign" and w.fn == "__attrs_post_init__") or w.fn in ("subchannel_pauseProducing", "subchannel_resumeProducing", "subchannel_stopProducing") for w in own)
    rep.check("C15.R3", "Inbound._paused_subchannels is written only by the three flow-control entry points", ok, INB, key="C15.R3:_paused_subchannels-writers",
              what="writers: %s" % [w.brief() for w in own + foreign])


def run(tree, rep, tier):
    # R5: when a subchannel closes, Outbound forgets its producer before application code runs: in every SubChannel row the output that tells
    # the manager `subchannel_closed` comes before the outputs that call into the protocol (a connectionLost() that raises must not leave a
    # dead subchannel's producer in the rotation)
    from ..automat_x import Program as _P, output_call_names
    SC_ = _P(tree).machine("SubChannel")
    n_rows_ = 0
    for r_ in SC_.rows.values():
        closers_ = [i for i, o in enumerate(r_.outputs) if any(cn.endswith(".subchannel_closed") for cn in output_call_names(SC_, o))]
        apps_ = [i for i, o in enumerate(r_.outputs) if any(is_self_attr(x, "_protocol") for x in ast.walk(SC_.outputs[o]))
                 and any(isinstance(x, ast.Call) for x in ast.walk(SC_.outputs[o]))]
        if closers_ and apps_:
            n_rows_ += 1
            rep.check("C15.R5", "SubChannel %s.%s tells the manager the subchannel is closed before it calls into the protocol" % (r_.src, r_.inp),
                      max(closers_) < min(apps_), r_.site, key="C15.R5:SubChannel[%s].%s:closed-before-callback" % (r_.src, r_.inp),
                      what="SubChannel %s.%s runs %s: the protocol's connectionLost() is called before the manager is told; if it raises, the closed "
                           "subchannel's producer stays registered and the next drain stops at it (every producer behind it is never resumed)" % (
                               r_.src, r_.inp, r_.outputs))
    if n_rows_ < 3:
        raise AnalysisError("SubChannel: fewer closing rows with a protocol callback than expected (%d)" % n_rows_)
    # R4: the flow-control calls Inbound / Outbound / Manager make on the peer connection exist on the class of the object they are given
    from .. import interfaces
    n_sites = interfaces.check(tree, rep, "C15.R4", ["Inbound", "Outbound", "Manager", "SubChannel"])
    if n_sites < 20:
        raise AnalysisError("interface agreement: only %d resolvable call sites in the dilation data plane" % n_sites)
    from .. import sharedstate
    sharedstate.check(tree, rep, "C15.R0")
    r1(tree, rep)
    r2(tree, rep)
    r3(tree, rep)


MUTANTS = [
    Mutant("register-into-unpaused", OUT, "        if self._paused:\n            self._paused_producers.add(producer)\n        else:\n            self._unpaused_producers.add(producer)", "        self._unpaused_producers.add(producer)", "C15.R1"),
    Mutant("move-without-call", OUT, "                self._paused_producers.add(p)\n                p.pauseProducing()", "                self._paused_producers.add(p)", "C15.R1"),
    Mutant("pull-producer-double-pause", OUT, "            producer.startStreaming(self._paused)\n", "            producer.startStreaming(self._paused)\n        if self._paused and not streaming:\n            producer.pauseProducing()\n", "C15.R1"),
    Mutant("no-rotate", OUT, "            self._all_producers.rotate(-1)  # p moves to the end of the line\n", "", "C15.R2"),
    Mutant("stop-using-no-pause", OUT, "        self._queued_unsent.clear()\n        self.pauseProducing()", "        self._queued_unsent.clear()", "C15.R2"),
    Mutant("resume-all-at-once", OUT, "        while not self._paused:\n", "        while True:\n", "C15.R2"),
    Mutant("inbound-never-pauses-new", INB, "        if self._paused_subchannels:\n            self._connection.pauseProducing()\n", "", "C15.R3"),
    Mutant("inbound-resume-needs-connection", INB, "    def subchannel_resumeProducing(self, sc):\n        was_paused = bool(self._paused_subchannels)\n        self._paused_subchannels.discard(sc)\n        if self._connection and was_paused and not self._paused_subchannels:",
           "    def subchannel_resumeProducing(self, sc):\n        was_paused = bool(self._paused_subchannels)\n        if self._connection and sc in self._paused_subchannels:\n            self._paused_subchannels.discard(sc)\n        if self._connection and was_paused and not self._paused_subchannels:", "C15.R3"),
    Mutant("inbound-pause-every-time", INB, "        if self._connection and not was_paused:\n            self._connection.pauseProducing()", "        if self._connection:\n            self._connection.pauseProducing()", "C15.R3"),
    Mutant("inbound-resume-too-early", INB, "        # stop letting them pause the connection.\n        was_paused = bool(self._paused_subchannels)\n        self._paused_subchannels.discard(sc)\n        if self._connection and was_paused and not self._paused_subchannels:",
           "        # stop letting them pause the connection.\n        was_paused = bool(self._paused_subchannels)\n        self._paused_subchannels.discard(sc)\n        if self._connection and was_paused:", "C15.R3"),
]
REWRITES = [
    Rewrite("pause-move-reordered", OUT, "                self._unpaused_producers.remove(p)\n                self._paused_producers.add(p)\n                p.pauseProducing()",
            "                self._paused_producers.add(p)\n                self._unpaused_producers.remove(p)\n                p.pauseProducing()", desc="add before remove"),
]

MUTANTS.append(Mutant("connection-without-pauseProducing", "src/wormhole/_dilation/connection.py",
                      "    def pauseProducing(self):\n        self.transport.pauseProducing()\n\n", "", "C15.R4",
                      "F12 again: Inbound calls a method the connection class does not define"))
