"""C11 — dilation roles agree, one connection at a time, and the two sides re-converge."""
import ast

from ..srcmodel import AnalysisError, site
from ..automat_x import Program
from ..astutil import dotted, const, params, local_defs, is_self_attr, calls_named, same_expr, walk_shallow, enclosing_function, parent
from ..dataflow import expand, call_arg
from ..effects import class_writers, is_const, check_counter
from ..cfg import build
from ..tablerules import rows_calling, row_calls
from ..selftest import Mutant, Rewrite

EXPLANATION = ("(R8) two-party product of the dilation machines of a Leader and a Follower (engine A5): no internal failure, one connection and one generation at a time, AG EF converged under the link model T5. Structural rules: (R1) choose_role evaluated over "
               "my-side <,=,> their-side gives complementary roles, equal raises; the compared values are our side and the peer's "
               "`side` field, and please carries our side under that key. (R2) a Connector selects once (only connecting->connected), "
               "the Manager never starts a Connector while one may be racing without stopping it first, Manager._connection has two "
               "writers. (R3) KCM is sent only by the follower after the handshake and by the leader when it selects; a candidate is "
               "added only on KCM. (R4) the reconnect handshake rows exist and a follower announces `reconnecting` before it starts "
               "connecting (its hints must not reach a leader still flushing). (R5) dilation generations / dilate-N are sequenced. "
               "(R6) the manager is told about the loss of the selected connection through the connection's one-shot observer.")
TRUSTED_BASE = ["T1", "T4", "T5"]
MIN_OBLIGATIONS = 25

MGR = "src/wormhole/_dilation/manager.py"
CTR = "src/wormhole/_dilation/connector.py"
CON = "src/wormhole/_dilation/connection.py"
BOSS = "src/wormhole/_boss.py"


def r1(tree, rep):
    fn = tree.func(MGR, "Manager", "choose_role")
    msg = params(fn)[0]
    def kind(e):
        e2 = expand(fn, e)
        if is_self_attr(e2, "_my_side"):
            return "my"
        if isinstance(e2, ast.Subscript) and isinstance(e2.value, ast.Name) and e2.value.id == msg and const(e2.slice) == "side":
            return "their"
        return None
    # evaluate the function over the three orderings of the two sides
    outcome = {}

    def truth(test, order):
        # order: '<' my<their, '=' equal, '>' my>their
        if not (isinstance(test, ast.Compare) and len(test.ops) == 1):
            return None
        l, r = kind(test.left), kind(test.comparators[0])
        if {l, r} != {"my", "their"}:
            return None
        op = test.ops[0]
        rel = order if l == "my" else {"<": ">", ">": "<", "=": "="}[order]
        table = {ast.Gt: rel == ">", ast.Lt: rel == "<", ast.GtE: rel in (">", "="), ast.LtE: rel in ("<", "="), ast.Eq: rel == "=", ast.NotEq: rel != "="}
        return table.get(type(op))
    gcr = build(fn, split=True)
    ok = True
    for order in "<=>":
        res = set()
        for nodes, end in gcr.paths_under(lambda t, order=order: truth(t, order)):
            roles = [dotted(gcr.stmt[n].value) for n in nodes if isinstance(gcr.stmt[n], ast.Assign)
                     and any(is_self_attr(t, "_my_role") for t in gcr.stmt[n].targets)]
            if end == 'raise':
                res.add("raise" if not roles else "?")
            else:
                res.add(roles[-1] if len(roles) == 1 else ("none" if not roles else "?"))
        outcome[order] = sorted(res)[0] if len(res) == 1 else "?"
    ok = outcome == {">": "LEADER", "<": "FOLLOWER", "=": "raise"}
    rep.check("C11.R1", "choose_role over my-side >,<,= their-side: LEADER, FOLLOWER, raise (got %s)" % outcome, ok, site(fn, MGR), key="C11.R1:choose_role",
              what="the two sides can compute the same role (or none): outcome table %s" % outcome)
    sp = tree.func(MGR, "Manager", "send_please")
    dicts = [d for d in ast.walk(sp) if isinstance(d, ast.Dict)]
    ok = False
    for d in dicts:
        kv = {const(k): v for k, v in zip(d.keys, d.values)}
        if const(kv.get("type")) == "please" and is_self_attr(kv.get("side"), "_my_side"):
            ok = True
    snd = calls_named(sp, "self.send_dilation_generation")
    ok = ok and len(snd) == 1 and any(k.arg is None for k in snd[0].keywords)
    rep.check("C11.R1", "send_please sends {type: please, side: self._my_side}", ok, site(sp, MGR), key="C11.R1:send_please")
    own, foreign = class_writers(tree, "Manager", "_my_side")
    rep.check("C11.R1", "Manager._my_side is never reassigned", not own and not foreign, MGR, key="C11.R1:_my_side-writers")
    own, foreign = class_writers(tree, "Manager", "_my_role")
    ok = not foreign and all((w.fn == "__attrs_post_init__" and is_const(w.value, None)) or w.fn == "choose_role" for w in own)
    rep.check("C11.R1", "Manager._my_role is written only by choose_role", ok, MGR, key="C11.R1:_my_role-writers")
    prog = Program(tree)
    M = prog.machine("Manager")
    rows = [r for r in M.rows.values() if "choose_role" in r.outputs]
    ok = len(rows) == 1 and rows[0].inp == "rx_PLEASE" and rows[0].outputs.index("choose_role") < min(
        [i for i, o in enumerate(rows[0].outputs) if o.startswith("start_connecting")] or [99])
    rep.check("C11.R1", "the role is chosen exactly on the row that handles the peer's please, before connecting starts", ok, rows[0].site if rows else MGR,
              key="C11.R1:choose_role-row")
    return prog


def r2(tree, prog, rep):
    C = prog.machine("Connector")
    sel = [r for r in C.rows.values() if "select_and_stop_remaining" in r.outputs]
    ok = len(sel) == 1 and sel[0].inp == "accept" and sel[0].src == C.initial and sel[0].enter != sel[0].src
    rep.check("C11.R2", "Connector selects a connection only on its single connecting->connected row", ok, sel[0].site if sel else C.file,
              key="C11.R2:select-once", what="rows selecting a winner: %s" % [(r.src, r.inp) for r in sel])
    if ok:
        done = sel[0].enter
        for i in ("accept", "add_candidate"):
            r = C.row(done, i)
            rep.check("C11.R2", "Connector[%s].%s is ignored (one selection per generation)" % (done, i), r is not None and not r.outputs and r.enter == done,
                      r.site if r else C.file, key="C11.R2:%s.%s" % (done, i))
        r = C.row(C.initial, "add_candidate")
        rep.check("C11.R2", "a candidate is considered while connecting", r is not None and r.outputs == ["consider"], C.file, key="C11.R2:consider")
    M = prog.machine("Manager")
    racing = {r.enter for r in M.rows.values() if any(o.startswith("start_connecting") for o in r.outputs)}
    for r in M.rows.values():
        starts = [i for i, o in enumerate(r.outputs) if o.startswith("start_connecting")]
        stops = [i for i, o in enumerate(r.outputs) if o == "stop_connecting"]
        if starts and r.src in racing:
            rep.check("C11.R2", "Manager %s.%s starts a new Connector only after stopping the one that may be racing" % (r.src, r.inp),
                      bool(stops) and stops[0] < starts[0], r.site, key="C11.R2:Manager[%s].%s:stop-before-start" % (r.src, r.inp),
                      what="two generations of Connectors can race at the same time (%s)" % r.outputs)
        if r.src in racing and r.enter not in racing and r.inp != "connection_made":
            rep.check("C11.R2", "Manager %s.%s leaves the racing state by stopping its Connector" % (r.src, r.inp), bool(stops), r.site,
                      key="C11.R2:Manager[%s].%s:stop-on-leave" % (r.src, r.inp))
    own, foreign = class_writers(tree, "Manager", "_connection")
    # a connection comes into use in one place only; forgetting it (= None) can happen anywhere without putting a second one into use
    setters = [w for w in own + foreign if not (w.kind == "assign" and is_const(w.value, None))]
    ok = not foreign and [w.fn for w in setters] == ["connector_connection_made"] and any(w.fn == "_stop_using_connection" for w in own)
    rep.check("C11.R2", "Manager._connection is set to a connection only by connector_connection_made (and cleared by _stop_using_connection)", ok, MGR,
              key="C11.R2:_connection-writers", what="writers: %s" % [w.brief() for w in own + foreign])
    sc = tree.func(MGR, "Manager", "_start_connecting")
    g = build(sc)
    mk = g.call_nodes(lambda c: dotted(c.func) == "Connector")
    st = g.call_nodes(lambda c: dotted(c.func) == "self._connector.start")
    rep.check("C11.R2", "_start_connecting builds one Connector with our side and role, then starts it", len(mk) == 1 and len(st) == 1 and not g.precedes(mk, st),
              site(sc, MGR), key="C11.R2:_start_connecting")
    if mk:
        c = [c for c in ast.walk(g.stmt[mk[0]]) if isinstance(c, ast.Call) and dotted(c.func) == "Connector"][0]
        names = [dotted(a) for a in c.args]
        rep.check("C11.R2", "the Connector gets the dilation key, our side and our role", "self._dilation_key" in names and "self._my_side" in names
                  and "self._my_role" in names, site(c, MGR), key="C11.R2:Connector-args")


def r3(tree, prog, rep):
    kcm_sites = []
    for p in (CON, CTR, MGR):
        for c in ast.walk(tree.ast(p)):
            if isinstance(c, ast.Call) and dotted(c.func) == "KCM" and not c.args:
                par = parent(c)
                if isinstance(par, ast.Call) and isinstance(par.func, ast.Attribute) and par.func.attr == "send_record":
                    kcm_sites.append((p, enclosing_function(c), par))
    rep.check("C11.R3", "KCM() is sent at exactly two sites", len(kcm_sites) == 2, CON, key="C11.R3:kcm-sites",
              what="KCM send sites: %s" % [(p, f.name) for p, f, c in kcm_sites])
    for p, f, c in kcm_sites:
        g = build(f)
        n = g.call_nodes(lambda x: x is c)
        if f.name == "dataReceived":
            from ..cfg import cmp_atom, truthy_atom
            gs = build(f, split=True)
            ns = gs.call_nodes(lambda x: x is c)
            follower = cmp_atom(lambda e: is_self_attr(e, "_role"), lambda e: dotted(e) == "FOLLOWER", (ast.Is, ast.Eq), (ast.IsNot, ast.NotEq))
            is_hs = truthy_atom(lambda e: isinstance(e, ast.Call) and dotted(e.func) == "isinstance" and len(e.args) == 2
                                and dotted(e.args[1]) == "Handshake")
            ok = len(ns) == 1 and not gs.only_when(ns, follower, True) and not gs.only_when(ns, is_hs, True)
            rep.check("C11.R3", "in dataReceived only the FOLLOWER sends KCM, and only in reaction to the peer's handshake", ok, site(c, p),
                      key="C11.R3:kcm:follower", what="a leader (or a side that has not seen the handshake) can send KCM from dataReceived")
        elif f.name == "select_and_stop_remaining":
            role_t = [t for t in g.nodes(lambda s: isinstance(s, ast.If)) if isinstance(g.stmt[t].test, ast.Compare) and is_self_attr(g.stmt[t].test.left, "_role")
                      and dotted(g.stmt[t].test.comparators[0]) == "LEADER"]
            sel = g.call_nodes(lambda x: isinstance(x.func, ast.Attribute) and x.func.attr == "select" and dotted(x.func.value) == params(f)[0])
            ok = len(role_t) == 1 and len(sel) == 1 and not g.guarded_by(role_t, n, 'T') and not g.precedes(sel, n)
            rep.check("C11.R3", "the LEADER sends KCM when (and only when) it selects the connection, after c.select()", ok, site(c, p), key="C11.R3:kcm:leader")
        else:
            rep.check("C11.R3", "KCM is sent from an unexpected place (%s)" % f.name, False, site(c, p), key="C11.R3:kcm:other:%s" % f.name)
    D = prog.machine("DilatedConnectionProtocol")
    rows = rows_calling(D, "self._connector.add_candidate")
    rep.check("C11.R3", "a connection becomes a candidate only on receiving KCM", bool(rows) and all(r.inp == "got_kcm" for r, o in rows), D.file,
              key="C11.R3:add_candidate-rows")
    dr = tree.func(CON, "DilatedConnectionProtocol", "dataReceived")
    g = build(dr, split=True)
    gk = g.call_nodes(lambda c: dotted(c.func) == "self.got_kcm")
    from ..cfg import truthy_atom as _ta
    is_kcm = _ta(lambda e: isinstance(e, ast.Call) and dotted(e.func) == "isinstance" and len(e.args) == 2 and dotted(e.args[1]) == "KCM")
    rep.check("C11.R3", "got_kcm is fired only for a decrypted KCM record", len(gk) == 1 and not g.only_when(gk, is_kcm, True), site(dr, CON),
              key="C11.R3:got_kcm")
    sa = tree.func(CTR, "Connector", "select_and_stop_remaining")
    g = build(sa)
    mc = g.call_nodes(lambda c: dotted(c.func) == "self._manager.connector_connection_made")
    stops = g.call_nodes(lambda c: dotted(c.func) in ("self.stop_listeners", "self.stop_pending_connectors", "self.stop_pending_connections"))
    ok = len(mc) == 1 and len(stops) == 3 and all(g.must_pass([s]) for s in stops) and g.must_pass(mc)
    rep.check("C11.R3", "selecting a winner stops listeners, pending connectors and pending connections, then hands the winner to the manager", ok,
              site(sa, CTR), key="C11.R3:select-stops-rest")


def r4(prog, rep):
    M = prog.machine("Manager")
    def row(s, i):
        return M.row(s, i)
    r = row("CONNECTED", "connection_lost_leader")
    rep.check("C11.R4", "leader: CONNECTED -lost-> FLUSHING sends reconnect", r is not None and r.enter == "FLUSHING" and "send_reconnect" in r.outputs,
              r.site if r else M.file, key="C11.R4:leader:lost")
    r = row("FLUSHING", "rx_RECONNECTING")
    rep.check("C11.R4", "leader: FLUSHING -rx_RECONNECTING-> CONNECTING starts connecting", r is not None and r.enter == "CONNECTING"
              and any(o.startswith("start_connecting") for o in r.outputs), r.site if r else M.file, key="C11.R4:leader:reconnecting")
    r = row("FLUSHING", "rx_HINTS")
    rep.check("C11.R4", "leader ignores (stale) hints while flushing", r is not None and not r.outputs, r.site if r else M.file, key="C11.R4:leader:flushing-hints")
    for s in ("CONNECTED", "LONELY", "CONNECTING"):
        r = row(s, "rx_RECONNECT")
        rep.check("C11.R4", "follower handles rx_RECONNECT in %s" % s, r is not None, M.file, key="C11.R4:follower:%s.rx_RECONNECT" % s)
    r = row("CONNECTED", "connection_lost_follower")
    rep.check("C11.R4", "follower: CONNECTED -lost-> LONELY waits for the leader", r is not None and r.enter == "LONELY" and not r.outputs, M.file, key="C11.R4:follower:lost")
    n = 0
    for r in M.rows.values():
        if "send_reconnecting" in r.outputs:
            n += 1
            starts = [i for i, o in enumerate(r.outputs) if o.startswith("start_connecting")]
            rep.check("C11.R4", "Manager %s.%s announces `reconnecting` before it starts connecting (hints must follow it) and enters CONNECTING" % (r.src, r.inp),
                      bool(starts) and r.outputs.index("send_reconnecting") < starts[0] and r.enter == "CONNECTING", r.site,
                      key="C11.R4:Manager[%s].%s:reconnecting-before-start" % (r.src, r.inp),
                      what="the follower's connection hints can be sent before `reconnecting`; a leader still in FLUSHING discards them and the two sides never reconnect (%s)" % r.outputs)
    rep.check("C11.R4", "three follower paths end in reconnecting + start_connecting", n == 3, M.file, key="C11.R4:follower-paths", what="%d rows send reconnecting" % n)
    r = row("CONNECTED", "rx_RECONNECT")
    r2_ = row("ABANDONING", "connection_lost_follower")
    rep.check("C11.R4", "follower told to reconnect while connected abandons the connection first, reconnects once it is gone",
              r is not None and r.enter == "ABANDONING" and "abandon_connection" in r.outputs and r2_ is not None and "send_reconnecting" in r2_.outputs,
              M.file, key="C11.R4:follower:abandon")
    r = row("CONNECTING", "connection_made")
    rep.check("C11.R4", "CONNECTING -connection_made-> CONNECTED", r is not None and r.enter == "CONNECTED", M.file, key="C11.R4:connection_made")
    r = row("CONNECTING", "rx_HINTS")
    rep.check("C11.R4", "hints are used while connecting", r is not None and r.outputs == ["use_hints"], M.file, key="C11.R4:use_hints")


def r5(tree, prog, rep):
    check_counter(tree, rep, "C11.R5", MGR, "Manager", "_next_dilation_generation", 1)
    fn = tree.func(MGR, "Manager", "send_dilation_generation")
    g = build(fn)
    rd = g.nodes(lambda s: isinstance(s, ast.Assign) and is_self_attr(s.value, "_next_dilation_generation"))
    inc = g.nodes(lambda s: isinstance(s, ast.AugAssign) and is_self_attr(s.target, "_next_dilation_generation"))
    snd = g.call_nodes(lambda c: dotted(c.func) == "self._S.send")
    ok = len(rd) == 1 and len(inc) == 1 and len(snd) == 1 and not g.precedes(rd, inc) and g.must_pass(snd)
    if ok:
        c = [c for c in ast.walk(g.stmt[snd[0]]) if isinstance(c, ast.Call) and dotted(c.func) == "self._S.send"][0]
        from ..astutil import prefixed_int_str_of, resolve_local
        a0 = c.args[0]
        var = g.stmt[rd[0]].targets[0].id
        if isinstance(a0, ast.Name) and a0.id != var:
            a0 = resolve_local(fn, a0)
        iv = prefixed_int_str_of(a0, "dilate-")
        ok = isinstance(iv, ast.Name) and iv.id == var
    rep.check("C11.R5", "every dilation control message is sent as phase dilate-<n> with n the counter read before its increment", ok, site(fn, MGR),
              key="C11.R5:send_dilation_generation")
    from .C03 import ordered_delivery
    B = prog.machine("Boss")
    dfn = B.outputs.get("D_received_dilate")
    if dfn is None:
        raise AnalysisError("Boss.D_received_dilate not found")
    ordered_delivery(rep, "C11.R5", dfn, B.file, "Boss.D_received_dilate", "self._D.received_dilate", "_rx_dilate_seqnums", "_next_rx_dilate_seqnum", "seqnum")
    check_counter(tree, rep, "C11.R5", BOSS, "Boss", "_next_rx_dilate_seqnum", 1)
    gm = tree.func(BOSS, "Boss", "got_message")
    cs = calls_named(gm, "self._got_dilate")
    ok = len(cs) == 1 and isinstance(cs[0].args[0], ast.Call) and dotted(cs[0].args[0].func) == "int"
    rep.check("C11.R5", "dilate-N messages are sequenced by int(N)", ok, site(gm, BOSS), key="C11.R5:got_dilate-index")


def r6(tree, prog, rep):
    D = prog.machine("DilatedConnectionProtocol")
    fn = D.outputs.get("set_manager")
    ok = False
    if fn is not None:
        g = build(fn)
        from ..astutil import callback_function

        module_funcs = {n.name: n for n in tree.ast(D.file).body if isinstance(n, ast.FunctionDef)}

        def reports_loss(cb):
            f = callback_function(cb, fn, dict(D.methods))
            if f is None and isinstance(cb, ast.Name):
                f = module_funcs.get(cb.id)         # a module-level function, the manager handed over as an extra argument
            return f is not None and any(isinstance(x, ast.Call) and (dotted(x.func) or "").endswith("connector_connection_lost") for x in ast.walk(f))

        def on_disconnected(recv):
            from ..astutil import resolve_local as _rl
            if isinstance(recv, ast.Name):
                recv = _rl(fn, recv)            # d = self.when_disconnected(); d.addCallback(..)
            return isinstance(recv, ast.Call) and dotted(recv.func) == "self.when_disconnected"
        reg = g.call_nodes(lambda c: isinstance(c.func, ast.Attribute) and c.func.attr in ("addCallback", "addBoth") and on_disconnected(c.func.value)
                           and c.args and reports_loss(c.args[0]))
        ok = len(reg) == 1 and g.must_pass(reg)
    rep.check("C11.R6", "set_manager chains manager.connector_connection_lost on the connection's when_disconnected() observer "
              "(fires even if the connection was already lost when it got selected)", ok, site(fn, D.file) if fn else D.file, key="C11.R6:set_manager:lost-callback",
              what="a connection lost just before it is selected is never reported: the manager keeps using a dead link")
    cl = tree.func(CON, "DilatedConnectionProtocol", "connectionLost")
    g = build(cl)
    fire = g.call_nodes(lambda c: dotted(c.func) == "self._disconnected.fire")
    rep.check("C11.R6", "connectionLost fires the one-shot disconnected observer on every path", len(fire) == 1 and g.must_pass(fire), site(cl, CON),
              key="C11.R6:connectionLost")
    wd = tree.func(CON, "DilatedConnectionProtocol", "when_disconnected")
    rep.check("C11.R6", "when_disconnected hands out the observer's Deferred", bool(calls_named(wd, "self._disconnected.when_fired")), site(wd, CON), key="C11.R6:when_disconnected")
    cl2 = tree.func(MGR, "Manager", "connector_connection_lost")
    g = build(cl2, split=True)
    lead = g.call_nodes(lambda c: dotted(c.func) == "self.connection_lost_leader")
    foll = g.call_nodes(lambda c: dotted(c.func) == "self.connection_lost_follower")
    from ..cfg import cmp_atom
    is_leader = cmp_atom(lambda e: is_self_attr(e, "_my_role"), lambda e: dotted(e) == "LEADER", (ast.Is, ast.Eq), (ast.IsNot, ast.NotEq))
    is_follower = cmp_atom(lambda e: is_self_attr(e, "_my_role"), lambda e: dotted(e) == "FOLLOWER", (ast.Is, ast.Eq), (ast.IsNot, ast.NotEq))
    stop = g.call_nodes(lambda c: dotted(c.func) == "self._stop_using_connection")
    # the leader input only when the role is known LEADER (or known not FOLLOWER), and the other way round
    lead_ok = not g.only_when(lead, is_leader, True) or not g.only_when(lead, is_follower, False)
    foll_ok = not g.only_when(foll, is_leader, False) or not g.only_when(foll, is_follower, True)
    # (a guard `if self._connection is None: return` in front is the same function for every call the product can make: the
    # two-party product decides whether a loss can ever be reported while no connection is in use - C11.R8)
    from ..cfg import none_atom
    n_edges, guarded_ok = g.when_must_pass(none_atom(lambda e: is_self_attr(e, "_connection")), False, stop)
    stop_ok = g.must_pass(stop) or (n_edges > 0 and guarded_ok)
    ok = len(lead) == 1 and len(foll) == 1 and lead_ok and foll_ok \
        and len(stop) == 1 and stop_ok and not g.precedes(stop, lead + foll)
    rep.check("C11.R6", "connector_connection_lost stops using the connection, then feeds the role-specific lost input", ok, site(cl2, MGR),
              key="C11.R6:connector_connection_lost")


def r8(tree, rep, tier):
    """the two-party product (engine A5): convergence without deadlock, one connection at a time, one generation at a time"""
    from .. import a5common
    sums = a5common.explorations(tree, tier, rep)
    a5common.fill_extra(rep, sums)
    a5common.report(rep, "C11.R8", sums, a5common.INTERNAL + ("two-connections", "second-live-connector", "pending-outlives-connector", "connection-not-released"))
    for envname, s in sums.items():
        rep.check("C11.R8", "two-party environment '%s': from each of the %d reachable joint states in which nobody has stopped, a state is reachable "
                  "in which both Managers are connected over the same live link (%d such states)" % (envname, s.running_states, s.converged_states),
                  s.n_stuck == 0 and (s.converged_states > 0 or not s.exhaustive), key="C11.R8:convergence:%s" % envname,
                  what="the two sides can get stuck: from %d reachable joint states no interleaving of message deliveries, link events and timers "
                       "ever leads to both sides connected over one link, e.g. after %s in %s" % (
                           s.n_stuck, s.stuck[0][0] if s.stuck else "?", s.stuck[0][1] if s.stuck else "?"),
                  detail=("nearest stuck states: %s" % (s.stuck,)) if s.stuck else None)


def _import_rule(rep, fn, args, src, dst, keep, why):
    """re-use rule instances of a neighbouring property (same lemma, stated for this property's clause)"""
    sub = type(rep)(rep.pid, rep.tier, rep.seed)
    try:
        fn(*(args + (sub,)))
    except AnalysisError:
        if not sub.violations:
            raise
    for o in sub.obligations:
        if o["rule"] == src and keep(o.get("key") or o["instance"]):
            rep.obligations.append(dict(o, rule=dst))
            rep.evaluations += 1
    for v in sub.violations:
        if v["rule"] == src and keep(v["key"]):
            rep.violation(dst, v["key"].replace(src, dst), v["what"] + why, v.get("site"), v.get("detail"), _count=False)


def run(tree, rep, tier):
    from .. import round9 as _r9
    _r9.no_hashing_of_peer_values(tree, rep, "C11.R12", (("src/wormhole/_hints.py", None, "parse_tcp_v1_hint"), ("src/wormhole/_hints.py", None, "parse_hint"),
                                     ("src/wormhole/transit.py", "Common", "add_connection_hints"), ("src/wormhole/_dilation/manager.py", "Manager", "use_hints"),
                                     ("src/wormhole/_dilation/connector.py", "Connector", "_use_hints")))
    _r9.hints_forwarded_statelessly(tree, rep, "C11.R11")
    # convergence needs the one connection attempt the network lets through to survive the prologue exchange under ANY segmentation of
    # the byte stream (the prologue ends in two newlines: a cut between them is legal) - the rule instances are C12.R4's for _get_expected
    from .C12 import r4 as c12_r4
    _import_rule(rep, c12_r4, (tree,), "C12.R4", "C11.R9", lambda k: "_get_expected" in k,
                 " (the only connection of this generation is dropped on a valid prologue and nobody retries: both sides stay CONNECTING)")
    prog = r1(tree, rep)
    r2(tree, prog, rep)
    r3(tree, prog, rep)
    r4(prog, rep)
    r5(tree, prog, rep)
    r6(tree, prog, rep)
    # the leader's Manager learns of every selected connection only if nothing raises before connection_made() in
    # connector_connection_made: the keep-alive timer must accept got_connection in whatever state a loss left it
    from .C10 import timer_accepts_next_connection
    timer_accepts_next_connection(tree, rep, "C11.R7")
    # C11.R6 relies on the one-shot observer behind when_disconnected() calling back in a later turn, also when it has already fired
    from .C03 import observers_fire_eventually
    observers_fire_eventually(tree, rep, "C11.R6")
    # the keep-alive acts on the connection in use NOW: the timer is created once and reused for every generation, so what it calls on
    # expiry must go through the Manager (C16.R2 timer-wiring)
    from .C16 import r2 as c16_r2
    sub = type(rep)(rep.pid, rep.tier, rep.seed)
    try:
        c16_r2(tree, sub)
    except AnalysisError:
        pass        # a later part of that rule could not be evaluated; what it established so far stands
    # ... and the handle of the interval timer is cleared when it fires and cancelled when the connection goes: a stale handle makes the
    # next arm / cancel raise (AlreadyCalled / AlreadyCancelled) inside connector_connection_lost or connector_connection_made, BEFORE the
    # state machine hears of the event - the Leader stays CONNECTED on a dead link and never sends RECONNECT
    handle = lambda text: "timer" in text and "pong" not in text and "ping with" not in text      # the timer-handle subset, not the ping/pong rules
    for o in sub.obligations:
        if o["rule"] == "C16.R2" and handle(o["instance"]):
            rep.obligations.append(dict(o, rule="C11.R7"))
            rep.evaluations += 1
    for v in sub.violations:
        if v["key"] == "C16.R2:timer-wiring":
            rep.violation("C11.R7", "C11.R7:timer-wiring", v["what"] + " (the Leader's timer keeps the first connection's disconnect: a later silent connection "
                          "is never dropped, no reconnect is sent, the Follower waits forever)", v.get("site"), v.get("detail"), _count=False)
        elif v["rule"] == "C16.R2" and ("timer" in v["key"] or "expiry" in v["key"] or "arm" in v["key"]):
            rep.violation("C11.R7", v["key"].replace("C16.R2", "C11.R7"), v["what"] + " (a stale timer handle raises inside the Manager's connection "
                          "made / lost handling before the state machine is told: the Leader never sends RECONNECT and the two sides do not re-converge)",
                          v.get("site"), v.get("detail"), _count=False)
    # selection needs stop_pending_connectors() to get through its loop: the set it iterates has no writer that a cancelled attempt's
    # callbacks could run (the rule instances are C17.R5's for _pending_connectors)
    from .C17 import r5 as c17_r5
    _import_rule(rep, c17_r5, (tree,), "C17.R5", "C11.R10", lambda k: "_pending_connectors" in k,
                 " (select_and_stop_remaining raises before the winner is selected: both sides stay CONNECTING although an attempt completed)")
    r8(tree, rep, tier)


MUTANTS = [
    Mutant("role-ge", MGR, "        if self._my_side > their_side:", "        if self._my_side >= their_side:", "C11.R1"),
    Mutant("both-leader", MGR, "            self._my_role = FOLLOWER", "            self._my_role = LEADER", "C11.R1"),
    Mutant("connected-accepts", CTR, "    connected.upon(accept, enter=connected, outputs=[])", "    connected.upon(accept, enter=connected, outputs=[select_and_stop_remaining])", "C11.R2"),
    Mutant("reconnect-without-stop", MGR, "                    outputs=[stop_connecting,\n                             send_reconnecting,\n                             start_connecting,", "                    outputs=[send_reconnecting,\n                             start_connecting,", "C11.R2"),
    Mutant("leader-kcm-early", CON, "                    if self._role is FOLLOWER:\n                        self._record.send_record(KCM())", "                    self._record.send_record(KCM())", "C11.R3"),
    Mutant("start-before-reconnecting", MGR, "                    outputs=[stop_connecting,\n                             send_reconnecting,\n                             start_connecting,", "                    outputs=[stop_connecting,\n                             start_connecting,\n                             send_reconnecting,", "C11.R4"),
    Mutant("lonely-no-reconnect-row", MGR, "    LONELY.upon(rx_RECONNECT, enter=CONNECTING,\n                outputs=[send_reconnecting, start_connecting,\n                         send_status_dilation_generation, send_status_reconnecting])\n", "", "C11.R4"),
    Mutant("generation-reset", MGR, "    def send_reconnect(self):\n        self.send_dilation_generation(type=\"reconnect\")", "    def send_reconnect(self):\n        self._next_dilation_generation = 0\n        self.send_dilation_generation(type=\"reconnect\")", "C11.R5"),
    Mutant("dilate-arrival-order", BOSS, "        self._rx_dilate_seqnums[seqnum] = plaintext\n        while self._next_rx_dilate_seqnum in self._rx_dilate_seqnums:\n            m = self._rx_dilate_seqnums.pop(self._next_rx_dilate_seqnum)\n            self._D.received_dilate(m)\n            self._next_rx_dilate_seqnum += 1",
           "        self._D.received_dilate(plaintext)", "C11.R5"),
    Mutant("lost-callback-moved", CON, "        self._manager = manager\n        self.when_disconnected().addCallback(lambda c:\n                                             manager.connector_connection_lost())", "        self._manager = manager", "C11.R6",
           also=((CON, "    def connectionLost(self, why=None):\n        self._disconnected.fire(self)", "    def connectionLost(self, why=None):\n        self._disconnected.fire(self)\n        if self._manager is not None:\n            self._manager.connector_connection_lost()"),)),
]
REWRITES = [
    Rewrite("role-flipped-compare", MGR, "        if self._my_side > their_side:", "        if their_side < self._my_side:", desc="comparison operands swapped"),
]

# mutants that only the two-party product (engine A5) / the round-4+5 rules catch
MUTANTS.append(Mutant("connecting-reconnect-silent", MGR, "                    outputs=[stop_connecting,\n                             send_reconnecting,\n                             start_connecting,",
                      "                    outputs=[stop_connecting,\n                             start_connecting,", ("C11.R8", "C11.R4"),
                      "a Follower told to reconnect while still connecting never answers: the Leader waits in FLUSHING forever"))
MUTANTS.append(Mutant("lost-skips-traffic-timer", MGR, "        if self._traffic is not None:\n            self._traffic.lost_connection()\n        self._stop_using_connection()",
                      "        if self._timer is not None:\n            self._traffic.lost_connection()\n        self._stop_using_connection()", "C11.R8",
                      "after a loss found by the timer itself the TrafficTimer stays `connected`: the next connection raises before connection_made"))
MUTANTS.append(Mutant("oneshot-fires-synchronously", "src/wormhole/observer.py", "    def when_fired(self):\n        d = Deferred()\n",
                      "    def when_fired(self):\n        d = Deferred()\n        if self._result is not NoResult and not self._observers:\n            d.callback(self._result)\n            return d\n", "C11.R6"))

MUTANTS.append(Mutant("manager-remembers-hints", MGR, "        hint_objs = list(hint_objs)\n        self._connector.got_hints(hint_objs)\n", "        hint_objs = [h for h in hint_objs if h not in self._seen_hints]\n        self._seen_hints.extend(hint_objs)\n        self._connector.got_hints(hint_objs)\n", "C11.R11", "seed C11-19"))

MUTANTS.append(Mutant("hint-type-in-set", "src/wormhole/_hints.py", "    if hint_type not in [\"direct-tcp-v1\", \"tor-tcp-v1\"]:", "    if hint_type not in {\"direct-tcp-v1\", \"tor-tcp-v1\"}:", "C11.R12", "seed C11-21"))
