"""C13 — subchannels open once, close once, and honour the subprotocol contract."""
import ast

from ..srcmodel import AnalysisError, site
from ..automat_x import Program
from ..astutil import dotted, const, params, local_defs, is_self_attr, calls_named, same_expr, walk_shallow, resolve_local
from ..dataflow import expand, call_arg, passes_param
from ..effects import class_writers, is_empty_ctor, is_const
from ..cfg import build, truthy_atom, cmp_atom, in_atom, none_atom
from ..tablerules import simple_paths, row_calls
from ..selftest import Mutant, Rewrite

EXPLANATION = ("(R1) SubChannel table: on every path to `closed` the protocol sees connectionLost exactly once (full close) or "
               "readConnectionLost and writeConnectionLost exactly once each (half close), the manager is told closed exactly once "
               "and CLOSE is sent exactly once; nothing is delivered in `closed`; a local write after the local close raises and is "
               "never silently dropped. (R2) subchannel ids: the two roles start on different parity and step by 2. (R3) "
               "expected_subprotocols is plumbed from the API to the demultiplexer that tests it. (R4) an unexpected OPEN is "
               "answered with CLOSE and forgotten, a duplicate OPEN is ignored, a known factory connects at once, otherwise the OPEN "
               "pends and register() drains it in order. (R5) who-may-write table of Inbound._open_subchannels.")
TRUSTED_BASE = ["T1", "T4"]
MIN_OBLIGATIONS = 25

SUB = "src/wormhole/_dilation/subchannel.py"
INB = "src/wormhole/_dilation/inbound.py"
MGR = "src/wormhole/_dilation/manager.py"
WH = "src/wormhole/wormhole.py"
BOSS = "src/wormhole/_boss.py"


def r1(prog, rep):
    SC = prog.machine("SubChannel")
    term = [s for s in SC.states if all(r.enter == s for r in SC.rows_from(s))]
    if len(term) != 1:
        # several states without an exit: the closed one is the one whose rows do nothing at all
        term = [s for s in term if all(not r.outputs for r in SC.rows_from(s))]
    if len(term) != 1:
        raise AnalysisError("SubChannel: cannot identify the closed state (%s)" % term)
    closed = term[0]
    # a row that tells the manager "this subchannel is closed" (the id is forgotten) ends in the closed state
    for r in SC.rows.values():
        if any(c.endswith(".subchannel_closed") for c in row_calls(SC, r)):
            rep.check("C13.R1", "SubChannel %s.%s reports the subchannel closed to the manager and enters %s" % (r.src, r.inp, closed),
                      r.enter == closed, r.site, key="C13.R1:closed-entered:%s.%s" % (r.src, r.inp),
                      what="SubChannel %s.%s tells the manager the subchannel is closed but stays in %s, where local writes are still sent "
                           "(no error after close, DATA for a forgotten id on the wire)" % (r.src, r.inp, r.enter))
    half_entry = {r.enter for r in SC.rows_on("connect_protocol_half")}
    paths = simple_paths(SC, closed)
    if len(paths) < 4:
        raise AnalysisError("SubChannel: fewer paths to %s than expected (%d)" % (closed, len(paths)))
    for p in paths:
        outs = [o for r in p for o in r.outputs]
        half = any(r.src in half_entry or r.enter in half_entry for r in p)
        n_full = outs.count("signal_connectionLost")
        n_r, n_w = outs.count("signal_readConnectionLost"), outs.count("signal_writeConnectionLost")
        want = (0, 1, 1) if half else (1, 0, 0)
        label = " > ".join("%s.%s" % (r.src, r.inp) for r in p)
        rep.check("C13.R1", "path [%s]: %s" % (label, "readConnectionLost and writeConnectionLost once each" if half else "connectionLost exactly once"),
                  (n_full, n_r, n_w) == want, p[-1].site, key="C13.R1:lost-once:%s" % label,
                  what="on path %s the protocol is told (connectionLost, readLost, writeLost) = %s times, expected %s" % (label, (n_full, n_r, n_w), want))
        rep.check("C13.R1", "path [%s]: the manager is told closed exactly once and CLOSE is sent exactly once" % label,
                  outs.count("close_subchannel") == 1 and outs.count("send_close") == 1, p[-1].site, key="C13.R1:close-once:%s" % label,
                  what="on path %s close_subchannel x%d, send_close x%d" % (label, outs.count("close_subchannel"), outs.count("send_close")))
    for r in SC.rows_from(closed):
        cs = row_calls(SC, r)
        deliver = [c for c in cs if c.startswith("self._protocol.") or c.startswith("self._manager.") or "IHalfCloseableProtocol" in c]
        rep.check("C13.R1", "SubChannel %s.%s delivers and sends nothing" % (closed, r.inp), not deliver, r.site, key="C13.R1:closed-row:%s" % r.inp)
    # self loops never signal a loss
    for r in SC.rows.values():
        if r.src == r.enter:
            rep.check("C13.R1", "SubChannel self-loop %s.%s signals no connection loss" % (r.src, r.inp),
                      not any("onnectionLost" in o for o in r.outputs), r.site, key="C13.R1:selfloop:%s.%s" % (r.src, r.inp))
    # local writes after the local close raise; never a silent row
    after_local_close = {r.enter for r in SC.rows_on("local_close") if r.enter != r.src} | {closed}
    # states reachable from those stay "locally closed"
    work = list(after_local_close)
    while work:
        s = work.pop()
        for r in SC.rows_from(s):
            if r.enter not in after_local_close:
                after_local_close.add(r.enter)
                work.append(r.enter)
    for s in sorted(after_local_close):
        r = SC.row(s, "local_data")
        if r is None:
            rep.check("C13.R1", "SubChannel[%s] has no local_data row (a write raises NoTransition)" % s, True, SC.file, key="C13.R1:write-after-close:%s" % s)
            continue
        from ..tablerules import output_raises
        raises = any(output_raises(SC, o) for o in r.outputs)
        sends = any(c.endswith(".send_data") for c in row_calls(SC, r))
        rep.check("C13.R1", "SubChannel[%s].local_data (after the local close) raises and sends nothing" % s, raises and not sends, r.site,
                  key="C13.R1:write-after-close:%s" % s, what="a write on a locally closed subchannel (%s) is %s" % (s, "sent" if sends else "silently dropped"))
    # live states forward data both ways
    for s in ("open_full", "open_half"):
        if s in SC.states:
            r = SC.row(s, "local_data")
            rep.check("C13.R1", "SubChannel[%s].local_data sends the data" % s, r is not None and "send_data" in r.outputs, SC.file, key="C13.R1:%s.local_data" % s)
            r = SC.row(s, "remote_data")
            rep.check("C13.R1", "SubChannel[%s].remote_data delivers the data" % s, r is not None and "signal_dataReceived" in r.outputs, SC.file, key="C13.R1:%s.remote_data" % s)
    # data/close before the protocol exists is queued and replayed in order
    r = SC.row(SC.initial, "remote_data")
    rep.check("C13.R1", "data arriving before a protocol is attached is queued", r is not None and r.outputs == ["queue_remote_data"], SC.file, key="C13.R1:queue-early-data")
    dq = SC.methods.get("_deliver_queued_data")
    ok = False
    if dq is not None:
        g = build(dq)
        loops = [n for n in g.nodes(lambda s: isinstance(s, ast.For)) if is_self_attr(g.stmt[n].iter, "_pending_remote_data")]
        rc = g.call_nodes(lambda c: dotted(c.func) == "self.remote_close")
        ok = len(loops) == 1 and len(rc) == 1 and not g.precedes(loops, rc)
    rep.check("C13.R1", "_deliver_queued_data replays queued data in order, then the queued close", ok, site(dq, SC.file) if dq else SC.file, key="C13.R1:_deliver_queued_data")


def r2(tree, rep):
    own, foreign = class_writers(tree, "Manager", "_next_subchannel_id")
    consts_by_fn = {}
    ok = not foreign
    n_step = 0
    for w in own:
        if w.kind == "assign" and isinstance(const(w.value), int):
            consts_by_fn.setdefault(w.fn, []).append(const(w.value))
        elif w.kind == "aug:Add" and is_const(w.value, 2) and w.fn == "allocate_subchannel_id":
            n_step += 1
        else:
            ok = False
    vals = [v for l in consts_by_fn.values() for v in l]
    ok = ok and list(consts_by_fn) == ["choose_role"] and len(vals) == 2 and vals[0] % 2 != vals[1] % 2 and 0 not in vals and n_step == 1
    rep.check("C13.R2", "subchannel ids: the two roles start at constants of different parity (%s, 0 reserved) and the only other write is += 2" % vals, ok,
              own[0].site if own else MGR, key="C13.R2:id-parity", what="two sides can allocate the same subchannel id (writers: %s)" % [w.brief() for w in own + foreign])
    al = tree.func(MGR, "Manager", "allocate_subchannel_id")
    g = build(al)
    rd = g.nodes(lambda s: isinstance(s, ast.Assign) and is_self_attr(s.value, "_next_subchannel_id"))
    inc = g.nodes(lambda s: isinstance(s, ast.AugAssign) and is_self_attr(s.target, "_next_subchannel_id"))
    rets = [r for r in walk_shallow(al) if isinstance(r, ast.Return)]
    ok = len(rd) == 1 and len(inc) == 1 and not g.precedes(rd, inc) and len(rets) == 1 and isinstance(rets[0].value, ast.Name) \
        and rets[0].value.id == g.stmt[rd[0]].targets[0].id
    rep.check("C13.R2", "allocate_subchannel_id returns the id read before the step", ok, site(al, MGR), key="C13.R2:allocate")
    cr = tree.func(MGR, "Manager", "choose_role")
    # the id parity follows the role: a path that sets LEADER sets one constant, a path that sets FOLLOWER the other
    gcr = build(cr, split=True)
    pairs = set()
    for nodes, end in gcr.paths_under(lambda t: None):
        if end != 'exit':
            continue
        roles = tuple(dotted(gcr.stmt[n].value) for n in nodes if isinstance(gcr.stmt[n], ast.Assign)
                      and any(is_self_attr(t, "_my_role") for t in gcr.stmt[n].targets))
        ids = tuple(const(gcr.stmt[n].value) for n in nodes if isinstance(gcr.stmt[n], ast.Assign)
                    and any(is_self_attr(t, "_next_subchannel_id") for t in gcr.stmt[n].targets))
        if roles or ids:
            pairs.add((roles, ids))
    pairs = sorted(pairs)
    ok = len(pairs) == 2 and all(len(r) == 1 and len(i) == 1 for r, i in pairs) and {p[0][0] for p in pairs} == {"LEADER", "FOLLOWER"} \
        and len({p[1][0] for p in pairs}) == 2
    rep.check("C13.R2", "each role assignment is paired with its own starting id (%s)" % pairs, ok, site(cr, MGR), key="C13.R2:role-id-pairing")


CHAIN = [(WH, "_DeferredWormhole", "dilate", "self._boss.dilate", "Boss.dilate"),
         (BOSS, "Boss", "dilate", "self._D.dilate", "Dilator.dilate"),
         (MGR, "Dilator", "dilate", "Manager", "Manager(...)"),
         (MGR, "Manager", "__attrs_post_init__", "SubchannelDemultiplex", "SubchannelDemultiplex(...)")]


def r3(tree, prog, rep):
    pname = "expected_subprotocols"
    targets = {"self._boss.dilate": (BOSS, "Boss", "dilate"), "self._D.dilate": (MGR, "Dilator", "dilate")}
    for (f, cls, meth, callee, label) in CHAIN:
        fn = tree.func(f, cls, meth)
        cs = [c for c in ast.walk(fn) if isinstance(c, ast.Call) and dotted(c.func) == callee]
        ok = len(cs) == 1
        if ok:
            c = cs[0]
            if callee in targets:
                tf = tree.func(*targets[callee])
                tps = params(tf)
                a = call_arg(c, tps.index(pname) if pname in tps else None, pname)
                ok = a is not None and isinstance(resolve_local(fn, a), ast.Name) and resolve_local(fn, a).id == pname and pname in params(fn)
            elif callee == "Manager":
                fields = prog.cls("Manager").attr_fields
                a = call_arg(c, fields.index("_" + pname) if "_" + pname in fields else None, pname)
                ok = a is not None and isinstance(a, ast.Name) and a.id == pname and pname in params(fn)
            else:
                init = tree.func(SUB, "SubchannelDemultiplex", "__init__")
                ips = params(init)
                a = call_arg(c, ips.index(pname) if pname in ips else None, pname)
                ok = a is not None and is_self_attr(a, "_" + pname)
        rep.check("C13.R3", "%s.%s passes expected_subprotocols on to %s" % (cls, meth, label), ok, site(cs[0], f) if cs else site(fn, f),
                  key="C13.R3:plumbing:%s.%s->%s" % (cls, meth, callee.split(".")[-1]),
                  what="expected_subprotocols given to dilate() never reaches the demultiplexer: unexpected OPENs are held pending forever instead of being refused")
    init = tree.func(SUB, "SubchannelDemultiplex", "__init__")
    st = [n for n in ast.walk(init) if isinstance(n, ast.Assign) and any(is_self_attr(t, "_expected") for t in n.targets)
          and isinstance(n.value, ast.Name) and n.value.id == pname]
    go = tree.func(SUB, "SubchannelDemultiplex", "_got_open")
    uses = [n for n in ast.walk(go) if is_self_attr(n, "_expected")]
    rep.check("C13.R3", "SubchannelDemultiplex stores expected_subprotocols and _got_open tests it", len(st) == 1 and len(uses) >= 2, site(init, SUB),
              key="C13.R3:demux-uses-expected")
    own, foreign = class_writers(tree, "SubchannelDemultiplex", "_expected")
    rep.check("C13.R3", "SubchannelDemultiplex._expected is written only by the constructor", len(own) == 1 and not foreign, SUB, key="C13.R3:_expected-writers")


def connect_order(tree, rep, rule):
    cn = tree.func(SUB, "SubchannelDemultiplex", "_connect")
    g = build(cn)
    order = [g.call_nodes(lambda c: (dotted(c.func) or "").endswith(".buildProtocol")), g.call_nodes(lambda c: (dotted(c.func) or "").endswith("._set_protocol")),
             g.call_nodes(lambda c: (dotted(c.func) or "").endswith(".makeConnection")), g.call_nodes(lambda c: (dotted(c.func) or "").endswith("._deliver_queued_data"))]
    ok = all(len(x) == 1 for x in order) and all(not g.precedes(order[i], order[i + 1]) for i in range(3)) and all(g.must_pass(x) for x in order)
    rep.check(rule, "_connect: buildProtocol, attach, connectionMade, then replay queued data - exactly once each", ok, site(cn, SUB), key="%s:_connect" % rule,
              what="a subchannel that was opened (and written to / closed) before the listener registered replays its data and its close "
                   "BEFORE connectionMade: the application sees the events out of the order they were issued")


def r4_r5(tree, rep):
    go = tree.func(SUB, "SubchannelDemultiplex", "_got_open")
    g = build(go, split=True)
    rs = [n for n in g.nodes(lambda s: isinstance(s, ast.Raise)) if dotted(g.stmt[n].exc.func if isinstance(g.stmt[n].exc, ast.Call) else g.stmt[n].exc) == "UnexpectedSubprotocol"]
    conn = g.call_nodes(lambda c: dotted(c.func) == "self._connect")
    pend = g.call_nodes(lambda c: isinstance(c.func, ast.Attribute) and c.func.attr == "append" and any(is_self_attr(x, "_pending_opens") for x in ast.walk(c.func)))
    has_factory = in_atom(lambda e: True, lambda e: is_self_attr(e, "_factories"))
    no_expectation = none_atom(lambda e: is_self_attr(e, "_expected"))
    is_expected = in_atom(lambda e: True, lambda e: is_self_attr(e, "_expected"))
    ok = len(rs) == 1 and len(conn) == 1 and len(pend) == 1 and bool(g.cond_edges(has_factory, True))
    if ok:
        # connect only with a factory; refuse / pend only without one
        ok = not g.only_when(conn, has_factory, True) and not g.only_when(pend + rs, has_factory, False)
        # refuse only when an expected set exists and the name is outside it; pend only when there is none or the name is in it
        ok = ok and not g.only_when(rs, no_expectation, False) and not g.only_when(rs, is_expected, False)
        avoid = set(g.cond_edges(no_expectation, True)) | set(g.cond_edges(is_expected, True))
        ok = ok and not (set(pend) & g.reach(g.entry, avoid_edges=avoid))
        # with an expected set given and the name outside it, the function always raises
        both = [(x, y, l) for (x, y, l) in g.cond_edges(is_expected, False)]
        ok = ok and bool(both) and bool(g.cond_edges(no_expectation, False))
    rep.check("C13.R4", "_got_open: a registered factory connects at once; otherwise an unexpected name raises UnexpectedSubprotocol "
              "(expected set given and name not in it) and anything else pends", ok, site(go, SUB), key="C13.R4:_got_open",
              what="an OPEN for a subprotocol the application ruled out is not refused (or an expected one is)")
    ho = tree.func(INB, "Inbound", "handle_open")
    g = build(ho, split=True)
    hs = [n for n in g.nodes(lambda s: isinstance(s, ast.ExceptHandler)) if dotted(g.stmt[n].type) == "UnexpectedSubprotocol"]
    sc = g.call_nodes(lambda c: dotted(c.func) == "self._manager.send_close" and isinstance(c.args[0], ast.Name) and c.args[0].id == "scid")
    dl = g.nodes(lambda s: isinstance(s, ast.Delete) and any(isinstance(t, ast.Subscript) and is_self_attr(t.value, "_open_subchannels") for t in s.targets)) + \
        g.call_nodes(lambda c: dotted(c.func) == "self._open_subchannels.pop")
    ok = len(hs) == 1 and bool(sc) and bool(dl) and g.must_pass(sc, start=hs[0], to=[g.exit, g.raise_exit], explicit_only=True) \
        and g.must_pass(dl, start=hs[0], to=[g.exit, g.raise_exit], explicit_only=True)
    rep.check("C13.R4", "handle_open: an unexpected subprotocol is answered with CLOSE for that id and the subchannel is forgotten", ok, site(ho, INB),
              key="C13.R4:handle_open:refusal", what="an unexpected OPEN is swallowed without CLOSE (the peer's subchannel hangs) or leaks an entry")
    live = in_atom(lambda e: isinstance(e, ast.Name) and e.id == "scid", lambda e: is_self_attr(e, "_open_subchannels"))
    mk = g.call_nodes(lambda c: dotted(c.func) == "SubChannel")
    gop = g.call_nodes(lambda c: (dotted(c.func) or "").endswith("._got_open"))
    ok = len(mk) == 1 and len(gop) == 1 and bool(g.cond_edges(live, True)) and not g.only_when(mk + gop, live, False)
    rep.check("C13.R4", "handle_open ignores a duplicate OPEN for a live id (no second subchannel, no second connectionMade)", ok, site(ho, INB),
              key="C13.R4:handle_open:duplicate")
    rg = tree.func(SUB, "SubchannelDemultiplex", "register")
    g = build(rg)
    loops = [n for n in g.nodes(lambda s: isinstance(s, (ast.While, ast.For)))]
    ok = len(loops) == 1
    if ok:
        lp = g.stmt[loops[0]]
        cn = [c for c in ast.walk(lp) if isinstance(c, ast.Call) and dotted(c.func) == "self._connect"]
        st = g.nodes(lambda s: isinstance(s, ast.Assign) and any(isinstance(t, ast.Subscript) and is_self_attr(t.value, "_factories") for t in s.targets))
        taken = [c for c in ast.walk(rg) if isinstance(c, ast.Call) and dotted(c.func) == "self._pending_opens.pop"]
        if isinstance(lp, ast.While):
            # drained from the head:  while pending: (t, addr) = pending.popleft()
            pops = [c for c in ast.walk(lp) if isinstance(c, ast.Call) and isinstance(c.func, ast.Attribute) and c.func.attr == "popleft"]
            oldest_first = len(pops) == 1
        else:
            # or walked front to back:  for (t, addr) in pending   (the deque itself, not reversed(..) / sorted(..))
            it = lp.iter
            oldest_first = isinstance(it, ast.Name) and all(
                (isinstance(d, ast.Call) and dotted(d.func) == "self._pending_opens.pop") or (isinstance(d, (ast.Tuple, ast.List)) and not d.elts)
                or (isinstance(d, ast.Call) and dotted(d.func) in ("deque", "list", "tuple") and not d.args) for d in local_defs(rg, it.id)) \
                and bool(local_defs(rg, it.id))
        ok = oldest_first and len(taken) == 1 and len(cn) == 1 and len(st) == 1 and not g.precedes(st, loops)
    rep.check("C13.R4", "register() records the factory, then connects the pending OPENs of that name oldest first", ok, site(rg, SUB), key="C13.R4:register")
    connect_order(tree, rep, "C13.R4")
    # R5 who may write _open_subchannels
    own, foreign = class_writers(tree, "Inbound", "_open_subchannels")
    allowed = {("__attrs_post_init__", "assign"), ("subchannel_local_open", "setitem"), ("handle_open", "setitem"), ("handle_open", "delitem"),
               ("handle_open", "call:pop"), ("subchannel_closed", "delitem"), ("subchannel_closed", "call:pop")}
    for w in own + foreign:
        ok = w in own and (w.fn, w.kind) in allowed
        rep.check("C13.R5", "Inbound._open_subchannels writer %s is a local/remote open, the refusal path or subchannel_closed" % w.brief(), ok, w.site,
                  key="C13.R5:_open_subchannels:writer:%s" % w.brief(),
                  what="the table of live subchannels is modified by %s (a subchannel can be forgotten while its protocol is still attached)" % w.brief())
    if len(own) < 4:
        raise AnalysisError("Inbound._open_subchannels has fewer writers than expected")
    hc = tree.func(INB, "Inbound", "handle_close")
    cs = [c for c in ast.walk(hc) if isinstance(c, ast.Call) and isinstance(c.func, ast.Attribute) and c.func.attr == "remote_close"]
    g = build(hc, split=True)
    rcn = g.call_nodes(lambda c: isinstance(c.func, ast.Attribute) and c.func.attr == "remote_close")
    missing = none_atom(lambda e: isinstance(e, ast.Name))
    live_edges = g.cond_edges(missing, False)
    ok = len(cs) == 1 and bool(live_edges) and all(g.exit not in g.reach([y], avoid_nodes=set(rcn), explicit_only=True) for (x, y, l) in live_edges)
    rep.check("C13.R5", "handle_close hands every CLOSE for a live id to that subchannel's remote_close", ok, site(hc, INB), key="C13.R5:handle_close")
    scl = tree.func(MGR, "Manager", "subchannel_closed")
    ok = bool(calls_named(scl, "self._inbound.subchannel_closed")) and bool(calls_named(scl, "self._outbound.subchannel_closed"))
    rep.check("C13.R5", "Manager.subchannel_closed lets both Inbound and Outbound forget the subchannel", ok, site(scl, MGR), key="C13.R5:Manager.subchannel_closed")


def _import_rule(rep, fn, args, src, dst, keep, why):
    """re-use rule instances of a neighbouring property (same lemma, stated for this property's clause)"""
    sub = type(rep)(rep.pid, rep.tier, rep.seed)
    try:
        fn(*(args + (sub,)))
    except AnalysisError:
        if not sub.violations:
            raise
    for o in sub.obligations:
        if o["rule"] == src and keep(o.get("key") or o["instance"]):
            rep.obligations.append(dict(o, rule=dst))
            rep.evaluations += 1
    for v in sub.violations:
        if v["rule"] == src and keep(v["key"]):
            rep.violation(dst, v["key"].replace(src, dst), v["what"] + why, v.get("site"), v.get("detail"), _count=False)


def run(tree, rep, tier):
    from .. import round9 as _r9b
    _r9b.no_yield_between(tree, rep, "C13.R10", "src/wormhole/_dilation/subchannel.py", "SubchannelConnectorEndpoint", "connect", "subchannel_local_open",
                          ("_set_protocol", "makeConnection"), "the subchannel is already registered with Inbound but has no protocol: DATA / CLOSE that arrive in that turn are parked in _pending_remote_data, which only the listener path drains - they are acknowledged and never delivered (connectionLost never fires on the connecting side)")
    # "a subchannel opened by one side appears exactly once on the other side" needs every OPEN that reaches Manager.got_record to be
    # dispatched (and acknowledged) whatever the Manager's connection bookkeeping says at that moment: records parked during `selecting`
    # are replayed by select() BEFORE connector_connection_made - the rule instances are those of C10.R4
    from .C10 import r4_r5 as c10_r4_r5
    _import_rule(rep, c10_r4_r5, (tree,), "C10.R4", "C13.R8", lambda k: True,
                 " (an OPEN that arrives in the same segment as the KCM is dropped: the subchannel never appears on this side)")
    # R6: "data written before a local close is delivered before the peer sees connectionLost" rests on L4: every record (DATA, CLOSE)
    # is in the retransmission queue before anything can go wrong with sending it - the rule instances are C10.R2
    from .C10 import r2 as c10_r2
    sub = type(rep)(rep.pid, rep.tier, rep.seed)
    c10_r2(tree, sub)
    for o in sub.obligations:
        if o["rule"] == "C10.R2":
            rep.obligations.append(dict(o, rule="C13.R6"))
            rep.evaluations += 1
    for v in sub.violations:
        if v["rule"] == "C10.R2":
            rep.violation("C13.R6", v["key"].replace("C10.R2", "C13.R6"), v["what"] + " (a DATA or CLOSE whose first transmission fails is "
                          "never replayed: the peer sees connectionLost without the data, or never)", v.get("site"), v.get("detail"), _count=False)
    from .. import sharedstate
    sharedstate.check(tree, rep, "C13.R0")
    prog = Program(tree)
    r1(prog, rep)
    r2(tree, rep)
    r3(tree, prog, rep)
    r4_r5(tree, rep)
    from ..effects import writer_table
    writer_table(tree, rep, "C13.R9", "SubChannel", "_pending_remote_data",
                 {("__attrs_post_init__", "assign"), ("queue_remote_data", "call:append"), ("_deliver_queued_data", "del")},
                 "data received (and acknowledged, so never retransmitted) before a listener exists is held here until _deliver_queued_data hands "
                 "it to the protocol: emptying it anywhere else loses what the peer wrote before its close")
    from ..tablerules import application_outputs_last
    application_outputs_last(rep, "C13.R7", prog.machine("SubChannel"),
                             "the peer is never sent CLOSE (it never sees connectionLost) or the manager never forgets the subchannel id", min_rows=6)


MUTANTS = [
    Mutant("closing-no-lost", SUB, "    closing.upon(remote_close, enter=closed, outputs=[close_subchannel,\n                                                      signal_connectionLost])",
           "    closing.upon(remote_close, enter=closed, outputs=[close_subchannel])", "C13.R1"),
    Mutant("data-also-signals-lost", SUB, "    open_full.upon(remote_data, enter=open_full, outputs=[signal_dataReceived])", "    open_full.upon(remote_data, enter=open_full, outputs=[signal_dataReceived, signal_connectionLost])", "C13.R1"),
    Mutant("silent-write-after-close", SUB, "    closed.upon(local_close, enter=closed, outputs=[])", "    closed.upon(local_close, enter=closed, outputs=[])\n    closed.upon(local_data, enter=closed, outputs=[])", "C13.R1"),
    Mutant("write-closed-sends", SUB, "    write_closed.upon(local_data, enter=write_closed, outputs=[error_closed_write])", "    write_closed.upon(local_data, enter=write_closed, outputs=[send_data])", "C13.R1"),
    Mutant("double-close-sent", SUB, "    closing.upon(remote_close, enter=closed, outputs=[close_subchannel,\n", "    closing.upon(remote_close, enter=closed, outputs=[send_close, close_subchannel,\n", "C13.R1"),
    Mutant("follower-starts-odd", MGR, "            self._next_subchannel_id = 2", "            self._next_subchannel_id = 3", "C13.R2"),
    Mutant("id-step-1", MGR, "        self._next_subchannel_id += 2", "        self._next_subchannel_id += 1", "C13.R2"),
    Mutant("boss-drops-expected", BOSS, "            expected_subprotocols=expected_subprotocols,\n        )", "        )", "C13.R3"),
    Mutant("refusal-swallowed", INB, "        except UnexpectedSubprotocol:\n            self._manager.send_close(scid)\n            del self._open_subchannels[scid]", "        except UnexpectedSubprotocol:\n            del self._open_subchannels[scid]", "C13.R4"),
    Mutant("expected-ignored", SUB, "            if self._expected is not None and name not in self._expected:\n                raise UnexpectedSubprotocol()\n", "", "C13.R4"),
    Mutant("close-forgets-early", INB, "        sc.remote_close()", "        if sc._protocol is None:\n            self._manager.send_close(scid)\n            del self._open_subchannels[scid]\n            return\n        sc.remote_close()", "C13.R5"),
    Mutant("duplicate-open-reopens", INB, "            log.err(DuplicateOpenError(\n                f\"received duplicate OPEN for {scid}\"))\n            return\n", "            log.err(DuplicateOpenError(\n                f\"received duplicate OPEN for {scid}\"))\n", "C13.R4"),
]
REWRITES = [
    Rewrite("refusal-pop", INB, "            del self._open_subchannels[scid]", "            self._open_subchannels.pop(scid)", desc="pop instead of del"),
]
MUTANTS.append(Mutant("halfclose-signal-before-close", SUB, "    read_closed.upon(local_close, enter=closed, outputs=[send_close,\n                                                         close_subchannel,\n                                                         # TODO: eventual-signal this?\n                                                         signal_writeConnectionLost,\n                                                         ])",
                      "    read_closed.upon(local_close, enter=closed, outputs=[signal_writeConnectionLost,\n                                                         send_close,\n                                                         close_subchannel,\n                                                         ])", "C13.R7",
                      "the application's writeConnectionLost runs before CLOSE is sent: if it raises the peer never sees connectionLost (seed C13-11)"))
MUTANTS.append(Mutant("halfclose-first-signal-before-close", SUB, "    open_half.upon(local_close, enter=write_closed, outputs=[send_close,\n                                                             signal_writeConnectionLost])",
                      "    open_half.upon(local_close, enter=write_closed, outputs=[signal_writeConnectionLost,\n                                                             send_close])", "C13.R7", "finding F16 put back"))
MUTANTS.append(Mutant("remote-close-drops-held-data", SUB, "    def queue_remote_close(self):\n", "    def queue_remote_close(self):\n        self._pending_remote_data = []\n", "C13.R9", "seed C13-17"))

MUTANTS.append(Mutant("yield-before-protocol-attached", "src/wormhole/_dilation/subchannel.py", "        p = protocolFactory.buildProtocol(peer_addr)\n        sc._set_protocol(p)\n", "        p = protocolFactory.buildProtocol(peer_addr)\n        yield self._eventual_queue.fire_eventually()\n        sc._set_protocol(p)\n", "C13.R10", "seeds C10-20 / C13-20"))
