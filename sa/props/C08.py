"""C08 — close() completes once, with the right verdict, and frees server resources."""
import ast

from ..srcmodel import AnalysisError, site
from ..automat_x import Program, output_call_names, output_calls
from ..astutil import dotted, const, resolve_local, calls_named
from ..tablerules import rows_calling, row_calls, inputs_on_all_paths, simple_paths, assigns_in_output, reachable_states
from ..effects import class_writers
from ..cfg import build
from .. import a3common
from ..selftest import Mutant, Rewrite

EXPLANATION = ("R1-R4: table rules on Boss, Terminator, Nameplate, Mailbox (close declared everywhere; verdict outputs; "
               "exactly one closed delivery per row entering S4_closed and none elsewhere; done signals only when the "
               "server resource is gone; RC stopped only after both done). R5: typestate analysis of the composed client: "
               "closed delivered at most once, nothing after it, at an orderly closed no claim / no open mailbox / connector "
               "stopped, every state after close() can still reach closed (EF), the verdict stored matches what was observed "
               "(good/undecryptable peer message, server error, error welcome), the mood sent with `close` matches the "
               "verdict, and a server error / error welcome / close() always leaves the Boss closing. R6: every observer of "
               "_DeferredWormhole is terminated by closed().")
TRUSTED_BASE = ["T1", "T3", "T4"]
MIN_OBLIGATIONS = 40

BOSS = "src/wormhole/_boss.py"
WH = "src/wormhole/wormhole.py"

VERDICT_OF_INPUT = {  # Boss input -> (verdict constructor / constant, mood) that a row leaving a live state must produce
    "scared": ("WrongPasswordError", "scary"),
    "rx_error": ("ServerError", "errory"),
    "rx_unwelcome": (None, "unwelcome"),
}


def _verdict_of_output(m, oname):
    """(verdict description, mood) of a Boss output: what it stores in _result and the mood given to T.close"""
    vals = assigns_in_output(m, oname, "_result")
    moods = []
    fn = m.outputs.get(oname)
    for c in output_calls(m, oname):
        if dotted(c.func) == "self._T.close" and c.args:
            moods.append(const(resolve_local(fn, c.args[0]) if fn is not None else c.args[0]))
    v = None
    if len(vals) == 1:
        x = vals[0]
        if isinstance(x, ast.Constant):
            v = repr(x.value)
        elif isinstance(x, ast.Call):
            v = (dotted(x.func) or "?").split(".")[-1]
        elif isinstance(x, ast.Name):
            v = "<%s>" % x.id
    return v, (moods[0] if len(moods) == 1 else None), len(vals), len(moods)


def r_tables(prog, rep):
    B = prog.machine("Boss")
    closing = [s for s in B.states if B.row(s, "close") is not None and B.row(s, "close").enter == s
               and not B.row(s, "close").outputs and not B.states[s]["terminal"]]
    closed = B.terminal_states()
    if len(closing) != 1 or len(closed) != 1:
        raise AnalysisError("Boss: expected one closing and one closed state, found %s / %s" % (closing, closed))
    closing, closed = closing[0], closed[0]
    live = [s for s in B.states if s not in (closing, closed)]
    # R1 exhaustiveness
    for s in B.states:
        rep.check("C08.R1", "Boss[%s] declares close" % s, B.row(s, "close") is not None,
                  "%s:%d" % (B.file, B.states[s]["node"].lineno), key="C08.R1:Boss[%s]:close" % s,
                  what="close() in Boss state %s has no transition" % s)
    for s in live:
        for i in ("rx_error", "rx_unwelcome", "error", "send"):
            rep.check("C08.R1", "Boss[%s] declares %s" % (s, i), B.row(s, i) is not None,
                      "%s:%d" % (B.file, B.states[s]["node"].lineno), key="C08.R1:Boss[%s]:%s" % (s, i))
    # R2 verdict table
    for s in live:
        row = B.row(s, "close")
        if row is None:
            continue
        rep.check("C08.R2", "Boss[%s].close enters the closing state" % s, row.enter == closing, row.site,
                  key="C08.R2:Boss[%s].close:target" % s)
        happy_reached = s in reachable_states(B, start=_state_after(B, "happy"), avoid_inputs=("close", "scared", "rx_error", "rx_unwelcome", "error")) \
            if _state_after(B, "happy") else False
        vs = [_verdict_of_output(B, o) for o in row.outputs]
        vs = [v for v in vs if v[2] or v[3]]
        ok = len(vs) == 1 and vs[0][2] == 1 and vs[0][3] == 1
        if ok:
            v, mood = vs[0][0], vs[0][1]
            if happy_reached:
                ok = v == "'happy'" and mood == "happy"
            else:
                ok = v == "LonelyError" and mood == "lonely"
        rep.check("C08.R2", "Boss[%s].close stores %s" % (s, "'happy'/mood happy" if happy_reached else "LonelyError/mood lonely"),
                  ok, row.site, key="C08.R2:Boss[%s].close:verdict" % s,
                  what="close() in Boss state %s produces verdict/mood %s" % (s, [(v[0], v[1]) for v in vs]))
        for inp, (verdict, mood) in VERDICT_OF_INPUT.items():
            r2 = B.row(s, inp)
            if r2 is None:
                if inp == "scared" and s == B.initial:
                    continue    # no key can exist before a code: scared cannot happen in the initial state
                rep.check("C08.R2", "Boss[%s] declares %s" % (s, inp), False, B.file, key="C08.R2:Boss[%s]:%s:missing" % (s, inp))
                continue
            vs = [_verdict_of_output(B, o) for o in r2.outputs]
            vs = [v for v in vs if v[2] or v[3]]
            ok = r2.enter == closing and len(vs) == 1 and vs[0][1] == mood and vs[0][2] == 1
            if ok and verdict is not None:
                ok = vs[0][0] == verdict
            if ok and verdict is None:
                ok = vs[0][0] is not None and vs[0][0].startswith("<")   # the WelcomeError instance passed in
            rep.check("C08.R2", "Boss[%s].%s closes with %s / mood %s" % (s, inp, verdict or "the welcome error", mood),
                      ok, r2.site, key="C08.R2:Boss[%s].%s:verdict" % (s, inp),
                      what="Boss[%s].%s -> %s produces %s" % (s, inp, r2.enter, [(v[0], v[1]) for v in vs]))
    # _result writers: only the verdict outputs, the constructor and W_close_with_error
    own, foreign = class_writers(prog.tree, "Boss", "_result")
    verdict_outputs = {o for r in B.rows.values() if r.src in live and r.enter == closing for o in r.outputs}
    for w in own + foreign:
        ok = w in own and (w.fn in verdict_outputs or w.fn in ("__init__", "__attrs_post_init__", "_init_other_state")
                           or (w.fn in B.outputs and all(r.enter == closed for r in B.rows.values() if w.fn in r.outputs)))
        rep.check("C08.R2", "Boss._result writer %s is a verdict output, the constructor or the error exit" % w.brief(),
                  ok, w.site, key="C08.R2:_result:writer:%s" % w.brief(),
                  what="Boss._result (the close() verdict) is written by %s" % w.brief())
    # R3 deliveries of `closed`
    n_enter = 0
    for row in B.rows.values():
        wcalls = [c for c in row_calls(B, row) if c.startswith("self._W.")]
        nclosed = sum(1 for c in wcalls if c == "self._W.closed")
        if row.enter == closed and row.src != closed:
            n_enter += 1
            rep.check("C08.R3", "Boss %s.%s -> %s delivers closed exactly once" % (row.src, row.inp, closed),
                      nclosed == 1, row.site, key="C08.R3:Boss[%s].%s:closed-count" % (row.src, row.inp),
                      what="row %s.%s entering %s calls W.closed %d times" % (row.src, row.inp, closed, nclosed))
        else:
            rep.check("C08.R3", "Boss %s.%s -> %s does not deliver closed" % (row.src, row.inp, row.enter), nclosed == 0,
                      row.site, key="C08.R3:Boss[%s].%s:stray-closed" % (row.src, row.inp),
                      what="row %s.%s (entering %s, not the closed state) delivers closed: a second closed will follow"
                      % (row.src, row.inp, row.enter))
            if row.src in (closing, closed):
                rep.check("C08.R3", "Boss %s.%s delivers nothing to the application" % (row.src, row.inp),
                          not wcalls, row.site, key="C08.R3:Boss[%s].%s:delivers" % (row.src, row.inp),
                          what="row %s.%s delivers %s while closing/closed" % (row.src, row.inp, wcalls))
    if n_enter < 4:
        raise AnalysisError("fewer rows enter the closed state than expected (%d)" % n_enter)
    # the orderly exit: closing --closed--> closed exists and is the only non-error way
    r = B.row(closing, "closed")
    rep.check("C08.R3", "Boss[%s].closed enters %s" % (closing, closed), r is not None and r.enter == closed,
              r.site if r else B.file, key="C08.R3:closing.closed")
    # R4 Terminator / Nameplate / Mailbox
    T = prog.machine("Terminator")
    bc = rows_calling(T, "self._B.closed")
    term = [s for s in T.states if not T.rows_from(s)]
    rep.check("C08.R4", "Terminator calls Boss.closed only on the row entering its final state",
              len(bc) == 1 and bc[0][0].enter in term, bc[0][0].site if bc else T.file, key="C08.R4:Terminator:B.closed-rows",
              what="Terminator rows calling Boss.closed: %s" % [(r.src, r.inp) for r, o in bc])
    rs = rows_calling(T, "self._RC.stop")
    stop_targets = {r.enter for r, o in rs}
    rep.check("C08.R4", "Terminator stops the connector only on rows entering one state", len(stop_targets) == 1 and bool(rs),
              T.file, key="C08.R4:Terminator:RC.stop-rows")
    if len(stop_targets) == 1:
        tgt = list(stop_targets)[0]
        need = inputs_on_all_paths(T, tgt)
        rep.check("C08.R4", "every path to Terminator[%s] passes close, nameplate_done and mailbox_done" % tgt,
                  need is not None and {"close", "nameplate_done", "mailbox_done"} <= need, T.file,
                  key="C08.R4:Terminator:stop-after-both-done",
                  what="the connector can be stopped on a path lacking %s" % sorted({"close", "nameplate_done", "mailbox_done"} - (need or set())))
        for row in T.rows_into(tgt):
            rep.check("C08.R4", "Terminator %s.%s -> %s stops the connector" % (row.src, row.inp, tgt),
                      any(c == "self._RC.stop" for c in row_calls(T, row)), row.site,
                      key="C08.R4:Terminator[%s].%s:RC.stop" % (row.src, row.inp))
    # close rows of Terminator forward to exactly the machines that are still active; a machine is still
    # active in state s iff the Terminator still accepts its `*_done` input there
    for row in T.rows_on("close"):
        cs = row_calls(T, row)
        want_n = T.row(row.src, "nameplate_done") is not None
        want_m = T.row(row.src, "mailbox_done") is not None
        rep.check("C08.R4", "Terminator[%s].close closes the nameplate iff it is still active" % row.src,
                  ("self._N.close" in cs) == want_n, row.site, key="C08.R4:Terminator[%s].close:N" % row.src)
        rep.check("C08.R4", "Terminator[%s].close closes the mailbox iff it is still active" % row.src,
                  ("self._M.close" in cs) == want_m, row.site, key="C08.R4:Terminator[%s].close:M" % row.src)
        if want_m:
            # the mood is handed on unchanged
            ok = False
            for o in row.outputs:
                fn = T.outputs[o]
                for c in output_calls(T, o):
                    if dotted(c.func) == "self._M.close" and c.args and isinstance(c.args[0], ast.Name) \
                            and c.args[0].id in [a.arg for a in fn.args.args]:
                        ok = True
            rep.check("C08.R4", "Terminator[%s].close hands its mood parameter to Mailbox.close" % row.src, ok, row.site,
                      key="C08.R4:Terminator[%s].close:mood" % row.src)
    N = prog.machine("Nameplate")
    M = prog.machine("Mailbox")
    from ..tablerules import reachable_avoiding_rows, held_states, colouring
    for m, done, resp, acquire in ((N, "self._T.nameplate_done", "rx_released", ".tx_claim"), (M, "self._T.mailbox_done", "rx_closed", ".tx_open")):
        # states in which the resource was never requested from the server: reachable without traversing an acquiring row
        never = reachable_avoiding_rows(m, lambda r, m=m, acquire=acquire: any(c.endswith(acquire) for c in row_calls(m, r)) or r.inp == "close")
        rows = rows_calling(m, done)
        finals = {r.enter for r, o in rows}
        rep.check("C08.R4", "%s emits %s only entering one final state" % (m.name, done.split(".")[-1]),
                  len(finals) == 1 and bool(rows), m.file, key="C08.R4:%s:done-target" % m.name)
        for r, o in rows:
            ok = r.inp == resp or (r.inp == "close" and r.src in never)
            rep.check("C08.R4", "%s %s.%s emits %s only on the server's %s or from a never-acquired state" % (
                m.name, r.src, r.inp, done.split(".")[-1], resp), ok, r.site,
                key="C08.R4:%s[%s].%s:done" % (m.name, r.src, r.inp),
                what="%s signals done on %s.%s although the server may still hold the resource" % (m.name, r.src, r.inp))
    # close rows of connected states in which the resource may be held (and no release/close is outstanding yet) send it
    for m, tx, acquire, resp in ((N, "tx_release", ".tx_claim", "rx_released"), (M, "tx_close", ".tx_open", "rx_closed")):
        col = colouring(m)
        held = held_states(m, acquire, resp)
        n = 0
        for s in sorted(held):
            if "B" in col.get(s, set()) and m.row(s, resp) is None:
                n += 1
                r = m.row(s, "close")
                rep.check("C08.R4", "%s[%s].close (connected, resource possibly held) sends %s" % (m.name, s, tx),
                          r is not None and any(c.endswith("." + tx) for c in row_calls(m, r)),
                          r.site if r else m.file, key="C08.R4:%s[%s].close:%s" % (m.name, s, tx))
        if n == 0:
            raise AnalysisError("%s: no connected state holding the resource was derived from the table" % m.name)


def _state_after(B, inp):
    rows = [r for r in B.rows_on(inp) if r.enter != r.src]
    tg = {r.enter for r in rows}
    # the state entered by `happy` from a live state
    tg = [t for t in tg if B.row(t, "close") is not None and B.row(t, "close").outputs]
    return tg[0] if len(tg) == 1 else None


def r5(tree, rep, tier):
    sums = a3common.explorations(tree, tier, rep.seed, rep)
    a3common.fill_extra(rep, sums)
    KINDS = {"closed-twice": "closed is delivered to the application twice",
             "event-after-closed": "an event is delivered to the application after closed",
             "closed-with-claim-held": "closed delivered while the server still holds our nameplate claim",
             "closed-with-allocation-claim-held": "closed delivered while the server still holds the claim it made on our behalf when it "
                                                  "allocated the nameplate (close() before the `allocated` reply was processed: the "
                                                  "Nameplate machine never learned a nameplate, so nothing is released)",
             "closed-with-mailbox-open": "closed delivered while our mailbox is still open at the server",
             "closed-before-rc-stopped": "closed delivered before the server connection was shut down",
             "verdict": "wrong close() verdict", "mood": "wrong mood sent with close",
             "ignored": "a close request / server error does not put the wormhole into closing",
             "tx-protocol": "a request is sent in a form the server rejects on this connection (the mailbox is never confirmed closed, "
                            "closed never fires)",
             "reconnect-abandoned": "the client gives up reconnecting after an established session lost its connection: a pending "
                                    "close() can never release the claim / close the mailbox, and reports ServerConnectionError"}
    for envname, s in sums.items():
        if envname == "postclose":
            continue
        rep.check("C08.R5", "closed once, nothing after it, resources released, connector stopped, verdict and mood "
                  "consistent (environment %s: %d states, %d after close(), %d closed)" % (
                      envname, s.nstates, s.closing_states, s.closed_states),
                  True, key="C08.R5:summary:%s" % envname, evals=max(1, s.closing_states))
        for v in s.viol:
            if v["kind"] in KINDS:
                rep.violation("C08.R5", "C08.R5:%s:%s" % (v["kind"], v["detail"]), "%s: %s" % (KINDS[v["kind"]], v["detail"]),
                              v["site"], detail="call stack: " + " > ".join(v["stack"]), trace=v["path"])
        rep.check("C08.R5", "every state after close() can still reach closed (environment %s, %d closing states)"
                  % (envname, s.closing_states), s.n_stuck == 0, key="C08.R5:EF-closed:%s" % envname,
                  evals=max(1, s.closing_states))
        for (p, ms) in s.stuck[:3]:
            rep.violation("C08.R5", "C08.R5:stuck:%s" % ",".join("%s=%s" % kv for kv in sorted(ms.items())),
                          "after close() the wormhole can get stuck (no path to closed) in %s" % ms, None, trace=p)
        if s.closed_states == 0 or s.closing_states == 0:
            raise AnalysisError("environment %s never reached closed / never called close" % envname)
        rep.sample({"rule": "C08.R5", "environment": envname, "states_after_close": s.closing_states,
                    "closed_states": s.closed_states, "stuck": s.n_stuck})


def r6(tree, rep):
    from .C18 import observers_terminated
    observers_terminated(tree, rep, "C08.R6")


def r8(prog, rep):
    """what the server must learn is sent BEFORE the application hears about the step: a status callback may call close()
    re-entrantly, and a claim / open sent after that would follow the release / close that answers it (the server keeps the
    claim although closed was delivered)"""
    from ..automat_x import output_call_names
    n = 0
    for mname, acquire in (("Nameplate", "self._RC.tx_claim"), ("Mailbox", "self._RC.tx_open")):
        m = prog.machine(mname)
        for r in m.rows.values():
            tx = [i for i, o in enumerate(r.outputs) if acquire in output_call_names(m, o)]
            cb = [i for i, o in enumerate(r.outputs) if any(c in ("self._evolve_wormhole_status",) or c.startswith("self._B.") or c.startswith("self._W.")
                                                          for c in output_call_names(m, o))]
            if tx and cb:
                n += 1
                rep.check("C08.R8", "%s %s.%s sends %s before any output that calls back into the application" % (mname, r.src, r.inp, acquire.split(".")[-1]),
                          max(tx) < min(cb), r.site, key="C08.R8:%s[%s].%s:wire-before-callback" % (mname, r.src, r.inp),
                          what="%s %s.%s: outputs %s - the application is told before %s is sent; a close() from that callback releases "
                               "first and acquires afterwards (the server keeps the resource)" % (mname, r.src, r.inp, r.outputs, acquire))
    if n == 0:
        raise AnalysisError("no row both acquires a server resource and reports to the application")


def r9(tree, rep):
    """the connector's stop() must report back to the Terminator (T.stoppedRC, through _stopped) whatever becomes of stopService():
    the closed notification waits for it"""
    from ..deferredchain import runs_always
    from ..astutil import local_defs
    RC = "src/wormhole/_rendezvous.py"
    fn = tree.func(RC, "RendezvousConnector", "stop")
    from ..deferredchain import expr_stages, runs_always_in
    from ..astutil import callback_function
    methods = tree.methods(RC, "RendezvousConnector")

    def tells_terminator(f, depth=3):
        """the callback (bound method, closure, lambda, partial) ends up calling self._T.stoppedRC()"""
        target = callback_function(f, fn, methods)
        if target is None or depth == 0:
            return False
        for c in ast.walk(target):
            if isinstance(c, ast.Call):
                d = dotted(c.func) or ""
                if d == "self._T.stoppedRC":
                    return True
                if d.startswith("self.") and d.count(".") == 1 and d.split(".")[1] in methods and tells_terminator(c.func, depth - 1):
                    return True
        return False
    # the chain that carries the stoppedRC callback: the last add* statement / expression of stop(), followed back through locals and
    # through helper methods of the class that return a Deferred with stages already attached (`self._stop_connector().addBoth(..)`)
    adds = [st.value for st in ast.walk(fn) if isinstance(st, ast.Expr) and isinstance(st.value, ast.Call)
            and isinstance(st.value.func, ast.Attribute) and st.value.func.attr in ("addCallback", "addErrback", "addBoth", "addCallbacks")]
    cands = [expr_stages(fn, a, methods) for a in adds]
    cands = [c for c in cands if any((s_[1] is not None and tells_terminator(s_[1])) or (s_[2] is not None and tells_terminator(s_[2])) for s_ in c)]
    if not cands:
        raise AnalysisError("RendezvousConnector.stop: no callback chain that reaches T.stoppedRC was found")
    stage_list = max(cands, key=len)
    if not any(isinstance(x, ast.Attribute) and x.attr == "stopService" for m_ in [fn] + [methods[c.func.attr] for c in ast.walk(fn)
               if isinstance(c, ast.Call) and isinstance(c.func, ast.Attribute) and isinstance(c.func.value, ast.Name) and c.func.value.id == "self"
               and c.func.attr in methods] for x in ast.walk(m_)):
        raise AnalysisError("RendezvousConnector.stop no longer stops the ClientService")
    found, always, missing = runs_always_in(stage_list, tells_terminator)
    rep.check("C08.R9", "RendezvousConnector.stop: the callback that tells the Terminator stoppedRC runs on every outcome of stopService() "
              "(success and failure)", found and always, site(fn, RC), key="C08.R9:stop:_stopped-runs-always",
              what="RendezvousConnector.stop: when stopService() %s, T.stoppedRC is not called: the Terminator never leaves its stopping state "
                   "and the closed notification never fires" % ("fails" if "fail" in missing else "succeeds" if "ok" in missing else "completes"))

def run(tree, rep, tier):
    from .. import sharedstate
    sharedstate.check(tree, rep, "C08.R0")
    prog = Program(tree)
    r_tables(prog, rep)
    r8(prog, rep)
    r6(tree, rep)
    r9(tree, rep)
    from .. import delegate
    delegate.check(tree, rep, "C08.R11", only=("closed",), why=" (the closed notification is swallowed or repeated)")
    from .. import payload
    payload.check(tree, rep, "C08.R10", "taken for an undecryptable one: a peer with the right code is closed with WrongPasswordError / mood scary")
    from .C01 import decrypt_raises_only_cryptoerror
    decrypt_raises_only_cryptoerror(tree, rep, "C08.R7")
    r5(tree, rep, tier)


_N = "src/wormhole/_nameplate.py"
_M = "src/wormhole/_mailbox.py"
_T = "src/wormhole/_terminator.py"
MUTANTS = [
    Mutant("lonely-close-happy", BOSS, "    S1_lonely.upon(close, enter=S3_closing, outputs=[close_lonely])\n",
           "    S1_lonely.upon(close, enter=S3_closing, outputs=[close_happy])\n", ("C08.R2", "C08.R5")),
    Mutant("scared-sets-lonely", BOSS, "        self._result = WrongPasswordError()\n", "        self._result = LonelyError()\n",
           ("C08.R2", "C08.R5")),
    Mutant("happy-mood-lonely", BOSS, "        self._result = \"happy\"\n        self._T.close(\"happy\")\n",
           "        self._result = \"happy\"\n        self._T.close(\"lonely\")\n", ("C08.R2", "C08.R5")),
    Mutant("S4-delivers", BOSS, "    S4_closed.upon(_got_phase, enter=S4_closed, outputs=[])\n",
           "    S4_closed.upon(_got_phase, enter=S4_closed, outputs=[W_received])\n", "C08.R3"),
    Mutant("closing-error-stays", BOSS, "    S3_closing.upon(error, enter=S4_closed, outputs=[W_close_with_error, send_status_closed])\n",
           "    S3_closing.upon(error, enter=S3_closing, outputs=[W_close_with_error, send_status_closed])\n", "C08.R3"),
    Mutant("double-W_closed", BOSS, "    S3_closing.upon(closed, enter=S4_closed, outputs=[W_closed, send_status_closed])\n",
           "    S3_closing.upon(closed, enter=S4_closed, outputs=[W_closed, W_closed, send_status_closed])\n", ("C08.R3", "C08.R5")),
    Mutant("N-S2B-close-norelease", _N, "    S2B.upon(close, enter=S4B, outputs=[RC_tx_release])\n",
           "    S2B.upon(close, enter=S4B, outputs=[])\n", ("C08.R4", "C08.R5")),
    Mutant("N-done-on-S2B-close", _N, "    S2B.upon(close, enter=S4B, outputs=[RC_tx_release])\n",
           "    S2B.upon(close, enter=S5B, outputs=[RC_tx_release, T_nameplate_done])\n", ("C08.R4", "C08.R5")),
    Mutant("M-S3A-connected-noclose", _M, "    S3A.upon(connected, enter=S3B, outputs=[RC_tx_close])\n",
           "    S3A.upon(connected, enter=S3B, outputs=[])\n", "C08.R5"),
    Mutant("T-stop-early", _T, "    Snm.upon(mailbox_done, enter=Sn, outputs=[])\n",
           "    Snm.upon(mailbox_done, enter=S_stoppingRC, outputs=[RC_stop])\n", ("C08.R4", "C08.R5")),
    Mutant("welcome-guard", BOSS, "    def rx_welcome(self, welcome):\n        try:\n",
           "    def rx_welcome(self, welcome):\n        if getattr(self, \"_welcomed\", False):\n            return\n        self._welcomed = True\n        try:\n",
           "C08.R5", "an error welcome on a later connection is ignored"),
    Mutant("welcome-guard-tracked", BOSS, "    def rx_welcome(self, welcome):\n        try:\n",
           "    def rx_welcome(self, welcome):\n        if self._welcomed:\n            return\n        self._welcomed = True\n        try:\n",
           "C08.R5", "same, flag initialised in the constructor",
           also=((BOSS, "        self._result = \"empty\"\n", "        self._result = \"empty\"\n        self._welcomed = False\n"),)),
    Mutant("closed-forgets-observer", WH, "        self._verifier_observer.error(f)\n", "", "C08.R6"),
]
REWRITES = [
    Rewrite("verdict-via-local", BOSS, "        self._result = LonelyError()\n        self._T.close(\"lonely\")\n",
            "        self._result = LonelyError()\n        mood = \"lonely\"\n        self._T.close(mood)\n", desc="mood through a local"),
]
MUTANTS.append(Mutant("stop-chain-skips-stopped-on-failure", "src/wormhole/_rendezvous.py", "        d.addErrback(log.err)\n        d.addBoth(self._stopped)", "        d.addCallback(self._stopped)\n        d.addErrback(log.err)", "C08.R9",
                      "a failing stopService() never reaches _stopped: closed never fires (seed C08-11)"))
REWRITES.append(Rewrite("stop-chain-chained", "src/wormhole/_rendezvous.py", "        d.addErrback(log.err)\n        d.addBoth(self._stopped)", "        d.addErrback(log.err).addBoth(self._stopped)", desc="chained spelling of the same callback chain"))
REWRITES.append(Rewrite("stop-chain-callbacks", "src/wormhole/_rendezvous.py", "        d.addErrback(log.err)\n        d.addBoth(self._stopped)", "        d.addErrback(log.err)\n        d.addCallback(self._stopped)", desc="after a swallowing errback only success is left"))
MUTANTS.append(Mutant("delegate-closed-once-flag", WH, "    def closed(self, result):\n        self._delegate.wormhole_closed(result)",
                      "    def closed(self, result):\n        if getattr(self, \"_closed\", False):\n            return\n        self._closed = True\n        self._delegate.wormhole_closed(result)", "C08.R11", "seed C08-16 family"))
