"""C17 — dilation never blocks shutdown; an incapable peer is reported."""
import ast

from ..srcmodel import AnalysisError, site
from ..automat_x import Program
from ..astutil import dotted, const, params, local_defs, is_self_attr, calls_named, same_expr, walk_shallow, enclosing_function, enclosing_class, parent, strip_yield
from ..dataflow import expand
from ..effects import class_writers
from ..cfg import build
from ..tablerules import rows_calling, row_calls
from ..selftest import Mutant, Rewrite

EXPLANATION = ("(R1) every Manager state but the stopping/stopped ones declares `stop`; each such row either reaches STOPPED and "
               "notifies, or reaches STOPPING only with a disconnect requested; STOPPING leaves on both connection-lost inputs and "
               "notifies. (R2) a stop while a Connector may be racing stops it; Connector.stop shuts down listeners, pending "
               "connectors and pending connections. (R3) Dilator.stop always leads to Terminator.stoppedD (directly without a "
               "manager, chained on when_stopped() with one); the Terminator leaves its dilator-stopping state only on stoppedD. "
               "(R4) no common dilation version => fail(OldPeerCannotDilateError), which errors the main channel that connect() "
               "and listen() wait on; versions seen before dilate() are forwarded to the late manager. (R5) resource registration: "
               "every protocol built for a Connector (outbound and inbound) is tracked in the collection that stop/selection "
               "disconnect, and leaves it only when selected, disconnected or on break_cycles. Eventual transport loss is trusted.")
TRUSTED_BASE = ["T1", "T2", "T3", "T4", "T5"]
MIN_OBLIGATIONS = 25

MGR = "src/wormhole/_dilation/manager.py"
CTR = "src/wormhole/_dilation/connector.py"
SUB = "src/wormhole/_dilation/subchannel.py"
TERM = "src/wormhole/_terminator.py"


def r1_r2(prog, rep):
    M = prog.machine("Manager")
    term = [s for s in M.states if M.states[s]["terminal"]]
    if len(term) != 1:
        raise AnalysisError("Manager: expected one terminal state")
    stopped = term[0]
    stopping = sorted({r.enter for r in M.rows_on("stop") if r.enter != stopped})
    if len(stopping) != 1:
        raise AnalysisError("Manager: cannot identify the STOPPING state (%s)" % stopping)
    stopping = stopping[0]
    racing = {r.enter for r in M.rows.values() if any(o.startswith("start_connecting") for o in r.outputs)}
    for s in M.states:
        if s in (stopped, stopping):
            continue
        r = M.row(s, "stop")
        rep.check("C17.R1", "Manager[%s] declares stop" % s, r is not None, "%s:%d" % (M.file, M.states[s]["node"].lineno), key="C17.R1:Manager[%s]:stop" % s,
                  what="closing the wormhole while the Manager is in %s raises NoTransition: close() never completes" % s)
        if r is None:
            continue
        if r.enter == stopped:
            ok = "notify_stopped" in r.outputs
            why = "enters %s and notifies" % stopped
        elif r.enter == stopping:
            entering = [x for x in M.rows_into(s) if x.src != s]
            ok = "abandon_connection" in r.outputs or (bool(entering) and all("abandon_connection" in x.outputs for x in entering))
            why = "enters %s with a disconnect already requested" % stopping
        else:
            ok, why = False, "enters %s" % r.enter
        rep.check("C17.R1", "Manager %s.stop %s" % (s, why), ok, r.site, key="C17.R1:Manager[%s].stop:outcome" % s,
                  what="Manager %s.stop -> %s %s: the stop notification can never be delivered (close() hangs)" % (s, r.enter, r.outputs))
        if s in racing:
            rep.check("C17.R2", "Manager %s.stop stops the Connector that may be racing" % s, "stop_connecting" in r.outputs, r.site,
                      key="C17.R2:Manager[%s].stop:stop_connecting" % s)
    for i in ("connection_lost_leader", "connection_lost_follower"):
        r = M.row(stopping, i)
        rep.check("C17.R1", "Manager %s.%s enters %s and notifies" % (stopping, i, stopped), r is not None and r.enter == stopped and "notify_stopped" in r.outputs,
                  r.site if r else M.file, key="C17.R1:%s.%s" % (stopping, i))
    ns = M.outputs.get("notify_stopped")
    rep.check("C17.R1", "notify_stopped fires the stopped observer", ns is not None and bool(calls_named(ns, "self._stopped.fire")), M.file, key="C17.R1:notify_stopped")
    ac = M.outputs.get("abandon_connection")
    rep.check("C17.R1", "abandon_connection disconnects the current connection", ac is not None and bool(calls_named(ac, "self._connection.disconnect")), M.file,
              key="C17.R1:abandon_connection")
    C = prog.machine("Connector")
    for s in C.states:
        if C.states[s]["terminal"]:
            continue
        r = C.row(s, "stop")
        rep.check("C17.R2", "Connector %s.stop runs stop_everything" % s, r is not None and "stop_everything" in r.outputs, r.site if r else C.file,
                  key="C17.R2:Connector[%s].stop" % s)
    se = C.outputs.get("stop_everything")
    cs = [dotted(c.func) for c in ast.walk(se) if isinstance(c, ast.Call)] if se else []
    rep.check("C17.R2", "stop_everything stops listeners, pending connectors and pending connections", all(x in cs for x in ("self.stop_listeners", "self.stop_pending_connectors", "self.stop_pending_connections")),
              C.file, key="C17.R2:stop_everything")
    for name, attr, act in (("stop_pending_connectors", "_pending_connectors", "cancel"), ("stop_pending_connections", "_pending_connections", "disconnect"),
                            ("stop_listeners", "_listeners", "stopListening")):
        fn = C.methods.get(name)
        ok = False
        if fn is not None:
            for n in ast.walk(fn):
                if isinstance(n, (ast.For, ast.ListComp)):
                    it = n.iter if isinstance(n, ast.For) else n.generators[0].iter
                    body = n if isinstance(n, ast.For) else n.elt
                    if is_self_attr(it, attr) and any(isinstance(c, ast.Call) and isinstance(c.func, ast.Attribute) and c.func.attr == act for c in ast.walk(body)):
                        ok = True
        rep.check("C17.R2", "Connector.%s calls %s() on every member of %s" % (name, act, attr), ok, site(fn, C.file) if fn else C.file, key="C17.R2:%s" % name)


def r3(tree, prog, rep):
    fn = tree.func(MGR, "Dilator", "stop")
    from ..cfg import truthy_atom
    from ..astutil import resolve_local
    g = build(fn, split=True)
    dil_methods = tree.methods(MGR, "Dilator")
    from ..cfg import object_atom
    has_manager = object_atom(lambda e: is_self_attr(e, "_manager"), fn)      # None or a Manager
    ms = g.call_nodes(lambda c: dotted(c.func) == "self._manager.stop")

    def fires_stoppedD(cb):
        """the callback (lambda / bound method of Dilator / closure) calls self._T.stoppedD"""
        f = None
        if isinstance(cb, ast.Lambda):
            f = cb
        elif is_self_attr(cb) and cb.attr in dil_methods:
            f = dil_methods[cb.attr]
        elif isinstance(cb, ast.Name):
            f = next((n for n in ast.walk(fn) if isinstance(n, ast.FunctionDef) and n.name == cb.id), None)
        return f is not None and any(isinstance(x, ast.Call) and dotted(x.func) == "self._T.stoppedD" for x in ast.walk(f))

    def is_chain(c):
        if not (isinstance(c.func, ast.Attribute) and c.func.attr in ("addCallback", "addBoth") and c.args):
            return False
        recv = c.func.value
        if isinstance(recv, ast.Name):
            recv = resolve_local(fn, recv)
        return isinstance(recv, ast.Call) and dotted(recv.func) == "self._manager.when_stopped" and fires_stoppedD(c.args[0])
    chain = g.call_nodes(is_chain)
    direct = [n for n in g.call_nodes(lambda c: dotted(c.func) == "self._T.stoppedD") if n not in chain]
    te, fe = g.cond_edges(has_manager, True), g.cond_edges(has_manager, False)
    # (a `finally:` body appears once per way of reaching it, so there may be several chain nodes)
    ok = len(ms) == 1 and len(chain) >= 1 and len(direct) == 1 and bool(te) and bool(fe)
    if ok:
        ok = all(g.exit not in g.reach([y], avoid_nodes=set(ms), explicit_only=True) for (x, y, l) in te) \
            and all(g.exit not in g.reach([y], avoid_nodes=set(chain), explicit_only=True) for (x, y, l) in te) \
            and all(g.exit not in g.reach([y], avoid_nodes=set(direct), explicit_only=True) for (x, y, l) in fe) \
            and not g.only_when(ms + chain, has_manager, True)
    rep.check("C17.R3", "Dilator.stop: with a manager, stop it and chain T.stoppedD on when_stopped(); without one, call T.stoppedD directly", ok,
              site(fn, MGR), key="C17.R3:Dilator.stop", what="the Terminator can wait forever for stoppedD (close() never completes)")
    # Manager.stop() runs the application's status callback (StoppedPeer) as the last output of its row: the Manager has stopped when
    # that raises, so the stoppedD chain must be attached whichever way Manager.stop() returns - before the call, or on its exception
    # path as well (finally)
    if ok:
        before = not g.precedes(chain, ms)
        # (the exception considered is the one Manager.stop() lets through; the statements of the chain itself are not assumed to raise)
        after = g.reach([y for n in ms for (y, lab) in g.succ[n]], avoid_nodes=set(chain), explicit_only=True)
        ok2 = before or (g.exit not in after and g.raise_exit not in after)
        rep.check("C17.R3", "Dilator.stop attaches the stoppedD chain whichever way Manager.stop() returns (normally or raising from the "
                  "application's status callback)", ok2, site(fn, MGR), key="C17.R3:Dilator.stop:chain-on-every-exit",
                  what="when the application's status callback raises inside Manager.stop() (the Manager has already stopped), Dilator.stop "
                       "is left before T.stoppedD is chained on when_stopped(): the Terminator waits for ever and closed never fires")
    ws = tree.func(MGR, "Manager", "when_stopped")
    rep.check("C17.R3", "Manager.when_stopped hands out the stopped observer", bool(calls_named(ws, "self._stopped.when_fired")), site(ws, MGR), key="C17.R3:when_stopped")
    T = prog.machine("Terminator")
    sd = [r for r in T.rows.values() if "stop_dilator" in r.outputs]
    ok = len(sd) == 1
    if ok:
        sD = sd[0].enter
        out = T.rows_from(sD)
        ok = len(out) == 1 and out[0].inp == "stoppedD" and any(c == "self._B.closed" for c in row_calls(T, out[0]))
    rep.check("C17.R3", "the Terminator stops the dilator once, then leaves that state only on stoppedD, delivering closed", ok, T.file, key="C17.R3:Terminator")
    so = T.outputs.get("stop_dilator")
    rep.check("C17.R3", "stop_dilator calls Dilator.stop", so is not None and bool(calls_named(so, "self._D.stop")), T.file, key="C17.R3:stop_dilator")


def r4(tree, rep):
    fn = tree.func(MGR, "Manager", "got_wormhole_versions")
    from ..cfg import truthy_atom as _ta
    from ..astutil import resolve_local as _rl
    g = build(fn, split=True)
    dv = [n for n in ast.walk(fn) if isinstance(n, ast.Assign) and any(is_self_attr(t, "_dilation_version") for t in n.targets)]
    # the chosen version: the attribute, or the once-bound local it was assigned from
    via = {n.value.id for n in dv if isinstance(n.value, ast.Name) and len(local_defs(fn, n.value.id)) == 1}
    have_version = _ta(lambda e: is_self_attr(e, "_dilation_version") or (isinstance(e, ast.Name) and e.id in via))
    fl = g.call_nodes(lambda c: dotted(c.func) == "self.fail")
    ne = g.cond_edges(have_version, False)
    ok = len(fl) == 1 and bool(ne) and all(g.exit not in g.reach([y], avoid_nodes=set(fl), explicit_only=True) for (x, y, l) in ne) \
        and g.exit not in g.reach(g.entry, avoid_edges=set(ne) | set(g.cond_edges(have_version, True)), explicit_only=True)
    if ok:
        c = [c for c in ast.walk(g.stmt[fl[0]]) if isinstance(c, ast.Call) and dotted(c.func) == "self.fail"][0]
        a = c.args[0]
        if isinstance(a, ast.Name):
            a = _rl(fn, a)        # reason = failure.Failure(..); self.fail(reason)
        ok = isinstance(a, ast.Call) and (dotted(a.func) or "").endswith("Failure") and isinstance(a.args[0], ast.Call) and dotted(a.args[0].func) == "OldPeerCannotDilateError"
    rep.check("C17.R4", "no dilation version in common => fail(Failure(OldPeerCannotDilateError()))", ok, site(fn, MGR), key="C17.R4:no-version-fails",
              what="a peer that cannot dilate is not reported: connect()/listen() wait forever")
    chosen = _rl(fn, dv[0].value) if len(dv) == 1 and isinstance(dv[0].value, ast.Name) else (dv[0].value if len(dv) == 1 else None)
    ok = len(dv) == 1 and isinstance(chosen, ast.Call) and dotted(chosen.func) == "_find_shared_versions"
    rep.check("C17.R4", "the dilation version is the shared version of ours and the peer's can-dilate list", ok, site(fn, MGR), key="C17.R4:version-choice")
    ff = tree.func(MGR, "Manager", "fail")
    rep.check("C17.R4", "Manager.fail errors the main channel", bool(calls_named(ff, "self._main_channel.error")), site(ff, MGR), key="C17.R4:fail")
    for cls, meth in (("SubchannelConnectorEndpoint", "connect"), ("SubchannelListenerEndpoint", "listen")):
        f2 = tree.func(SUB, cls, meth)
        first = [s for s in f2.body if not (isinstance(s, ast.Expr) and isinstance(s.value, ast.Constant))][0]
        v = strip_yield(first.value) if isinstance(first, ast.Expr) else None
        ok = isinstance(first, ast.Expr) and isinstance(first.value, (ast.Yield, ast.Await)) and isinstance(v, ast.Call) \
            and dotted(v.func) == "self._manager._main_channel.when_fired"
        rep.check("C17.R4", "%s.%s first waits on the main channel (so a dilation failure fails it)" % (cls, meth), ok, site(f2, SUB), key="C17.R4:%s.%s" % (cls, meth))
    # forwarding of the peer's versions: directly, or through a Dilator helper that hands its parameter to the manager
    def forwarders():
        out = {}
        for m in tree.cls(MGR, "Dilator").body:
            if isinstance(m, ast.FunctionDef):
                gm = build(m)
                fw_ = gm.call_nodes(lambda c: dotted(c.func) == "self._manager.got_wormhole_versions" and c.args and isinstance(c.args[0], ast.Name)
                                    and c.args[0].id in params(m))
                if fw_ and gm.must_pass(fw_):
                    out[m.name] = params(m).index([c for c in ast.walk(gm.stmt[fw_[0]]) if isinstance(c, ast.Call) and dotted(c.func) == "self._manager.got_wormhole_versions"][0].args[0].id)
        return out
    fwd_methods = forwarders()

    def is_forward(c, argpred):
        d = dotted(c.func) or ""
        if d.endswith(".got_wormhole_versions") and c.args and argpred(c.args[0]):
            return True
        if d.startswith("self.") and d.split(".")[1] in fwd_methods and d.count(".") == 1:
            i = fwd_methods[d.split(".")[1]]
            return len(c.args) > i and argpred(c.args[i])
        return False
    dd = tree.func(MGR, "Dilator", "dilate")
    from ..cfg import none_atom as _na
    g = build(dd, split=True)
    fw = g.call_nodes(lambda c: is_forward(c, lambda a: is_self_attr(a, "_pending_wormhole_versions")))
    # the slot holds None ("nothing arrived yet") or the peer's versions - a JSON object that may be EMPTY (a peer that announces
    # nothing cannot dilate, and must be reported).  Only `is None` separates the two: once the manager exists, every path to the end of
    # dilate() on which the slot is not known to be None hands it on
    nothing_yet = g.cond_edges(_na(lambda e: is_self_attr(e, "_pending_wormhole_versions")), True)
    made = g.nodes(lambda s: isinstance(s, ast.Assign) and any(is_self_attr(t, "_manager") for t in s.targets))
    ok = len(fw) == 1 and bool(nothing_yet) and bool(made)
    if ok:
        r = g.reach([y for n in made for (y, lab) in g.succ[n] if lab != 'exc'], avoid_nodes=set(fw), avoid_edges=set(nothing_yet), explicit_only=True)
        ok = g.exit not in r
    rep.check("C17.R4", "Dilator.dilate forwards versions that arrived earlier to the newly created manager: always, unless the slot is None "
              "(an empty versions object is forwarded too)", ok, site(dd, MGR), key="C17.R4:pending-versions",
              what="versions that arrived before dilate() are not always handed to the new Manager (a truthiness test drops the empty "
                   "object {} of a peer that announces nothing): the Manager stays WAITING and connect() hangs instead of failing with "
                   "OldPeerCannotDilateError")
    gw = tree.func(MGR, "Dilator", "got_wormhole_versions")
    g = build(gw)
    p0 = params(gw)[0]
    st = g.nodes(lambda s: isinstance(s, ast.Assign) and any(is_self_attr(t, "_pending_wormhole_versions") for t in s.targets)
                 and isinstance(s.value, ast.Name) and s.value.id == p0)
    fwd = g.call_nodes(lambda c: gw.name not in fwd_methods and is_forward(c, lambda a: isinstance(a, ast.Name) and a.id == p0)
                       or (dotted(c.func) == "self._manager.got_wormhole_versions" and c.args and isinstance(c.args[0], ast.Name) and c.args[0].id == p0))
    rep.check("C17.R4", "Dilator.got_wormhole_versions forwards to the manager or remembers the versions", len(st) == 1 and len(fwd) == 1 and g.must_pass(st + fwd),
              site(gw, MGR), key="C17.R4:Dilator.got_wormhole_versions")


def _tracker_methods(tree):
    """Connector methods that add their parameter to self._pending_connections"""
    out = {}
    cls = tree.cls(CTR, "Connector")
    for m in cls.body:
        if isinstance(m, ast.FunctionDef):
            for c in ast.walk(m):
                if isinstance(c, ast.Call) and dotted(c.func) == "self._pending_connections.add" and isinstance(c.args[0], ast.Name) and c.args[0].id in params(m):
                    if enclosing_function(c) is m:
                        out[m.name] = params(m).index(c.args[0].id)
    return out


def _registers(fnode, var, trackers, via="self._connector"):
    """does function body register local `var` (on every normal path) with the connector?"""
    g = build(fnode)
    def is_reg(c):
        d = dotted(c.func) or ""
        if d in ("%s._pending_connections.add" % via, "self._pending_connections.add") and c.args and isinstance(c.args[0], ast.Name) and c.args[0].id == var:
            return True
        for t, idx in trackers.items():
            if d in ("%s.%s" % (via, t), "self.%s" % t) and len(c.args) > idx and isinstance(c.args[idx], ast.Name) and c.args[idx].id == var:
                return True
        return False
    regs = g.call_nodes(is_reg)
    return bool(regs) and g.must_pass(regs)


def _registers_through_hook(tree, cls, m, var, trackers):
    """buildProtocol calls an optional hook attribute with the protocol (whenever the hook is set), and every
    construction of this factory by the Connector passes one of its tracker methods as that hook"""
    from ..automat_x import extract_class
    fields = extract_class(cls, CTR).attr_fields
    g = build(m)
    for hook in fields:
        calls = g.call_nodes(lambda c, hook=hook: dotted(c.func) == "self." + hook and c.args and isinstance(c.args[0], ast.Name) and c.args[0].id == var)
        tests = [t for t in g.nodes(lambda s: isinstance(s, ast.If)) if isinstance(g.stmt[t].test, ast.Compare) and is_self_attr(g.stmt[t].test.left, hook)
                 and isinstance(g.stmt[t].test.ops[0], ast.IsNot) and const(g.stmt[t].test.comparators[0]) is None]
        if len(calls) != 1 or len(tests) != 1:
            continue
        if not (g.must_pass(tests) and g.must_pass(calls, start=g.branch_targets(tests[0], 'T'), to=[g.exit], explicit_only=True)):
            continue
        # constructions of the factory inside Connector
        idx = fields.index(hook)
        ctor_sites = [c for c in ast.walk(tree.cls(CTR, "Connector")) if isinstance(c, ast.Call) and dotted(c.func) == cls.name]
        if not ctor_sites:
            continue
        good = True
        for c in ctor_sites:
            a = c.args[idx] if len(c.args) > idx else next((k.value for k in c.keywords if k.arg == hook.lstrip("_")), None)
            if not (a is not None and dotted(a) and dotted(a).startswith("self.") and dotted(a).split(".")[1] in trackers):
                good = False
        if good:
            return True
    return False


def r5(tree, rep):
    trackers = _tracker_methods(tree)
    mod = tree.ast(CTR)
    n = 0
    for cls in [c for c in mod.body if isinstance(c, ast.ClassDef)]:
        for m in cls.body:
            if isinstance(m, ast.FunctionDef) and m.name == "buildProtocol":
                bp = [x for x in ast.walk(m) if isinstance(x, ast.Assign) and isinstance(x.value, ast.Call) and dotted(x.value.func) == "self._connector.build_protocol"]
                if not bp:
                    continue
                n += 1
                var = bp[0].targets[0].id
                inbound = "Inbound" in cls.name or "ServerFactory" in [dotted(b) for b in cls.bases]
                if inbound:
                    ok = _registers(m, var, trackers) or _registers_through_hook(tree, cls, m, var, trackers)
                    rep.check("C17.R5", "%s.buildProtocol registers the accepted connection with the Connector (so stop()/selection can close it)" % cls.name,
                              ok, site(m, CTR), key="C17.R5:register:%s" % cls.name,
                              what="inbound L2 connections are not tracked: Connector.stop() (closing the wormhole while connecting) leaves them open")
                else:
                    # outbound: the Deferred of ep.connect(f) in Connector._connect gets a callback that registers its argument
                    cn = tree.func(CTR, "Connector", "_connect")
                    nested = {f.name: f for f in ast.walk(cn) if isinstance(f, ast.FunctionDef) and f is not cn}
                    ok = False
                    for c in ast.walk(cn):
                        if isinstance(c, ast.Call) and isinstance(c.func, ast.Attribute) and c.func.attr == "addCallback" and c.args:
                            a = c.args[0]
                            if isinstance(a, ast.Name) and a.id in nested:
                                f2 = nested[a.id]
                                ok = ok or _registers(f2, params(f2, False)[0], trackers, via="self")
                            elif dotted(a) and dotted(a).startswith("self.") and dotted(a).split(".")[1] in trackers:
                                ok = True
                    mk = [c for c in ast.walk(cn) if isinstance(c, ast.Call) and dotted(c.func) == cls.name]
                    rep.check("C17.R5", "connections made through %s are registered with the Connector once connected" % cls.name, ok and len(mk) == 1,
                              site(cn, CTR), key="C17.R5:register:%s" % cls.name)
    if n != 2:
        raise AnalysisError("expected two factories building protocols through Connector.build_protocol, found %d" % n)
    # the tracked connection un-registers itself when it disconnects
    unreg = 0
    for c in ast.walk(mod):
        if isinstance(c, ast.Call) and isinstance(c.func, ast.Attribute) and c.func.attr == "addCallback" and c.args \
                and (dotted(c.args[0]) or "").endswith("_pending_connections.discard") and isinstance(c.func.value, ast.Call) \
                and (dotted(c.func.value.func) or "").endswith(".when_disconnected"):
            unreg += 1
    rep.check("C17.R5", "a tracked connection leaves the collection when it disconnects", unreg >= 1, CTR, key="C17.R5:unregister-on-disconnect")
    from ..effects import writer_table
    writer_table(tree, rep, "C17.R5", "Connector", "_pending_connectors",
                 {("__attrs_post_init__", "assign"), ("break_cycles", "call:clear"), ("_schedule_connection", "call:add"),
                  ("_schedule_connection", "setitem")},      # (a dict used as an ordered set)
                 "stop_pending_connectors() cancels the attempts while it iterates over this set, and a cancelled Deferred runs its callbacks at "
                 "once: a callback that removes the attempt from the set makes that loop raise after the first cancel - the other attempts are "
                 "never cancelled, the losing links never closed, the winner never selected")
    own, foreign = class_writers(tree, "Connector", "_pending_connections")
    allowed_fns = {"__attrs_post_init__", "select_and_stop_remaining", "break_cycles", "_connected"} | set(trackers)
    discard_ok = {"select_and_stop_remaining"}
    for w in own + foreign:
        if w.kind == "assign" and w.fn == "__attrs_post_init__":
            continue
        ok = (w in own and w.fn in allowed_fns) or (w in foreign and w.kind == "call:add" and w.fn == "buildProtocol")
        if w.kind == "call:discard" and w.fn not in ("select_and_stop_remaining",):
            ok = False
        rep.check("C17.R5", "Connector._pending_connections writer %s (add when connected, discard when selected, clear on break_cycles)" % w.brief(), ok, w.site,
                  key="C17.R5:_pending_connections:writer:%s" % w.brief(),
                  what="a live connection drops out of the tracked set in %s: a stop during that window leaves it open" % w.brief())
    sel = tree.func(CTR, "Connector", "select_and_stop_remaining")
    g = build(sel)
    disc = g.call_nodes(lambda c: dotted(c.func) == "self._pending_connections.discard")
    spc = g.call_nodes(lambda c: dotted(c.func) == "self.stop_pending_connections")
    rep.check("C17.R5", "selection removes only the winner from the tracked set, then disconnects the rest", len(disc) == 1 and len(spc) == 1 and not g.precedes(disc, spc),
              site(sel, CTR), key="C17.R5:select:discard-winner-first")


def r6(tree, rep):
    """the stop path must not raise: abandon_connection cancels self._timer, so a non-None _timer must be a pending call"""
    from .C16 import r2 as c16_r2
    sub = type(rep)(rep.pid, rep.tier, rep.seed)
    c16_r2(tree, sub)
    want = ("expiry-clears-timer", "arm-guard", "_timer-writers", "abandon_connection:timer", "_stop_using_connection:timer")
    for o in sub.obligations:
        rep.obligations.append(dict(o, rule="C17.R6")) if any(w in (o.get("instance") or "") or True for w in want) and o["rule"] == "C16.R2" and (
            "timer" in o["instance"].lower()) else None
    for v in sub.violations:
        if any(w in v["key"] for w in want):
            rep.violation("C17.R6", v["key"].replace("C16.R2", "C17.R6"), v["what"] + " (Manager.stop()/connection loss would raise and close() hang)",
                          v.get("site"), v.get("detail"), _count=False)


def r7(tree, rep, tier):
    """typestate analysis with Dilator and the dilation Manager in the product: close() still reaches `closed` from every
    state (the Terminator gets stoppedD whatever the Manager is doing), and the Manager never gets an input it has no row for"""
    from .. import a3common
    sums = a3common.explorations(tree, tier, rep.seed, rep)
    a3common.fill_extra(rep, sums)
    for envname, s in sums.items():
        if not s.env.get("dilation_manager_in_product"):
            continue
        mrows = [r for r in s.fired_rows if r[0] == "Manager"]
        rep.check("C17.R7", "with the dilation Manager in the product every state after close() can still reach closed "
                  "(environment %s: %d states, %d after close(), %d Manager rows exercised)" % (envname, s.nstates, s.closing_states, len(mrows)),
                  s.n_stuck == 0, key="C17.R7:EF-closed:%s" % envname, evals=max(1, s.closing_states))
        for (p_, ms) in s.stuck[:3]:
            rep.violation("C17.R7", "C17.R7:stuck:%s" % ",".join("%s=%s" % kv for kv in sorted(ms.items()) if kv[0] in ("Manager", "Terminator", "Boss")),
                          "with dilation active the wormhole can get stuck after close() (no path to closed): %s" % {k: v for k, v in ms.items() if k in ("Manager", "Terminator", "Boss")},
                          None, trace=p_)
        for v in s.viol:
            if v["kind"] == "versions-not-forwarded":
                rep.violation("C17.R7", "C17.R7:versions-not-forwarded", v["detail"] + " (pending and future connect() calls hang instead of "
                              "failing with OldPeerCannotDilateError; environment %s)" % envname, v["site"], detail=" > ".join(v["stack"]), trace=v["path"])
            if v["kind"] in ("NoTransition", "no-instance") and (v["detail"].startswith("Manager") or v["detail"].startswith("Terminator")):
                rep.violation("C17.R7", "C17.R7:%s:%s" % (v["kind"], v["detail"]), "%s is reachable with dilation active (close()/shutdown would fail)" % v["detail"],
                              v["site"], detail=" > ".join(v["stack"]), trace=v["path"])
        if envname == "dilation" and len(mrows) < 8:
            raise AnalysisError("the dilation environment exercised only %d Manager rows" % len(mrows))


def r8(tree, prog, rep):
    """Manager CONNECTED.stop only abandons the connection - the Connector is not stopped again - so the attempts that lost the
    race must have been shut down when the winner was selected"""
    CTR = "src/wormhole/_dilation/connector.py"
    sa = tree.func(CTR, "Connector", "select_and_stop_remaining")
    g = build(sa)
    for callee in ("self.stop_listeners", "self.stop_pending_connectors", "self.stop_pending_connections"):
        n = g.call_nodes(lambda c, callee=callee: dotted(c.func) == callee)
        rep.check("C17.R8", "selecting the winner calls %s on every path" % callee.split(".")[1], len(n) >= 1 and g.must_pass(n, explicit_only=True),
                  site(sa, CTR), key="C17.R8:select:%s" % callee.split(".")[1],
                  what="attempts that lost the race survive the selection; close() in CONNECTED never stops them (they outlive the closed notification)")
    C = prog.machine("Connector")
    rows = [r for r in C.rows.values() if "select_and_stop_remaining" in r.outputs]
    rep.check("C17.R8", "the winner is selected through select_and_stop_remaining", len(rows) >= 1, C.file, key="C17.R8:select-row")
    M = prog.machine("Manager")
    r = M.row("CONNECTED", "stop")
    from ..tablerules import row_calls
    stops_connector = r is not None and any(c.endswith("_connector.stop") for c in row_calls(M, r))
    rep.check("C17.R8", "Manager CONNECTED.stop abandons the connection (the Connector has already shut the rest down%s)" % (
        ", and is stopped again" if stops_connector else ""), r is not None and "abandon_connection" in r.outputs, r.site if r else M.file,
        key="C17.R8:connected-stop")


def r9(tree, prog, rep):
    """Manager.stop is an input that STOPPED / STOPPING do not declare: it is fired exactly once per Manager, by Dilator.stop (which
    then waits for when_stopped()).  A Manager that stops itself makes that later stop() raise NoTransition before the
    stoppedD callback is chained: close() never completes."""
    M = prog.machine("Manager")
    callers = []
    for p in tree.paths():
        if "/_dilation/" not in p:
            continue
        for fn_p, cname, fn in [(p, c, f) for (pp, c, f) in tree.all_functions() if pp == p]:
            for c in ast.walk(fn):
                if isinstance(c, ast.Call) and isinstance(c.func, ast.Attribute) and c.func.attr == "stop" and (
                        (cname == "Manager" and is_self_attr(c.func, "stop")) or dotted(c.func) in ("self._manager.stop", "manager.stop")):
                    callers.append((cname, fn.name, c, p))
    ok = bool(callers)
    for cname, fname, c, p in callers:
        good = (cname, fname) == ("Dilator", "stop")
        rep.check("C17.R9", "Manager.stop() is fired only by Dilator.stop (here %s.%s)" % (cname, fname), good, site(c, p),
                  key="C17.R9:Manager.stop-caller:%s.%s" % (cname, fname),
                  what="%s.%s stops the Manager itself: the Terminator's later Dilator.stop() fires `stop` in a state that does not declare it "
                       "(NoTransition), stoppedD is never sent and close() hangs" % (cname, fname))
    for st in M.states:
        r = M.row(st, "stop")
        if r is None and not M.states[st]["terminal"]:
            rep.check("C17.R9", "Manager[%s] (non-terminal) declares stop" % st, st == "STOPPING", M.file, key="C17.R9:Manager[%s].stop" % st)
    if not ok:
        raise AnalysisError("no caller of Manager.stop found")


def r10(tree, rep, tier):
    """stop() in the two-party product (engine A5): from every joint state reached after stop() the Manager of that side can reach its
    terminal state, without internal failure, and arrives there with nothing left running"""
    from .. import a5common
    sums = a5common.explorations(tree, tier, rep)
    a5common.fill_extra(rep, sums)
    a5common.report(rep, "C17.R10", sums, a5common.INTERNAL + ("stopped-with-live-connector", "stopped-with-timer", "stopped-with-connection",
                                                             "stopped-with-pending"))
    for envname, s in sums.items():
        for x, role in (("L", "Leader"), ("F", "Follower")):
            bad = s.stop_stuck.get(x, [])
            rep.check("C17.R10", "two-party environment '%s': from each of the %d joint states after the %s's stop() its Manager can reach its terminal state"
                      % (envname, s.stop_states.get(x, 0), role), not bad, key="C17.R10:stop-completes:%s:%s" % (role, envname),
                      what="after stop() the %s's Manager can get stuck before its terminal state (the Terminator waits for it forever), e.g. after %s in %s"
                           % (role, bad[0][0] if bad else "?", bad[0][1] if bad else "?"))


def r13(tree, rep):
    """what the peer lists under "can-dilate" is arbitrary JSON (null, a number, a list of anything): version negotiation must come to
    its verdict - a shared version or none - without raising, or Manager.got_wormhole_versions is left before fail() and connect() waits
    for ever.  Decided by the JSON type-guard engine (sa/jsonguard.py, the engine of C20): _find_shared_versions is interpreted with a
    list of strings for our side and a value of any JSON type for theirs; every operation that can raise on a type the value may still
    have is a sink."""
    from .. import jsonguard as jg
    from .C20 import _funcs, _namedtuples
    funcs, file_of = _funcs(tree, [(MGR, None)])
    if "_find_shared_versions" not in funcs:
        raise AnalysisError("_find_shared_versions not found")
    A = jg.Analyzer(funcs, _namedtuples(tree), {}, file_of)
    A.stack[:] = ["_find_shared_versions"]
    anyjson = jg.J({"dict", "list", "str", "int", "float", "bool", "none"})
    A.inline(funcs["_find_shared_versions"], [jg.CONT("list", jg.PY("str")), anyjson], {})
    rep.check("C17.R13", "type-guard analysis of _find_shared_versions with an arbitrary JSON value for the peer's can-dilate entry (%d abstract "
              "operations)" % A.ops, True, MGR, key="C17.R13:summary", evals=max(1, A.ops))
    for s in A.sinks:
        if s["kind"] == "CONSTRUCT":
            continue
        rep.violation("C17.R13", "C17.R13:%s:%s:%s" % (s["kind"], s["func"], s["detail"]),
                      "the peer's can-dilate value can make %s raise (%s): Manager.got_wormhole_versions is left before fail(OldPeerCannotDilateError) "
                      "- connect() on a peer that cannot dilate waits for ever" % (s["func"], s["detail"]), "%s:%d" % (s["file"], s["lineno"]))
    gv = tree.func(MGR, "Manager", "got_wormhole_versions")
    gets = [c for c in ast.walk(gv) if isinstance(c, ast.Call) and isinstance(c.func, ast.Attribute) and c.func.attr == "get"
            and c.args and const(c.args[0]) == "can-dilate"]
    subs = [c for c in ast.walk(gv) if isinstance(c, ast.Subscript) and const(c.slice) == "can-dilate"]
    rep.check("C17.R13", "Manager.got_wormhole_versions reads can-dilate with .get (a missing key is an old peer, not a KeyError) and hands it to "
              "_find_shared_versions", len(gets) == 1 and not subs and bool(calls_named(gv, "_find_shared_versions")), site(gv, MGR),
              key="C17.R13:got_wormhole_versions:get")


def run(tree, rep, tier):
    from .. import round9 as _r9
    _r9.delayed_attempts_tracked(tree, rep, "C17.R14")
    # R11: Manager.fail records the failure on the main channel before anything else can run (and possibly raise): the pending and future
    # connect() calls are failed first
    ff_ = tree.func(MGR, "Manager", "fail")
    g_ = build(ff_)
    err_ = g_.call_nodes(lambda c_: (dotted(c_.func) or "").endswith("_main_channel.error"))
    # anything that can run application code or raise for another reason: every call except type inspection of the argument
    other_ = g_.call_nodes(lambda c_: not (dotted(c_.func) or "").endswith("_main_channel.error") and dotted(c_.func) not in ("isinstance", "type", "repr", "str"))
    ok_ = bool(err_) and g_.must_pass(err_) and not g_.precedes(err_, [n_ for n_ in other_ if n_ not in err_])
    rep.check("C17.R11", "Manager.fail errors the main channel first (before status updates or any other call that could raise)", ok_, site(ff_, MGR),
              key="C17.R11:fail:error-first",
              what="Manager.fail does something else before it records the failure on the main channel: if that raises (an application status "
                   "callback), connect() calls on an incapable peer wait for ever")
    from .. import sharedstate
    sharedstate.check(tree, rep, "C17.R0")
    prog = Program(tree)
    r1_r2(prog, rep)
    r8(tree, prog, rep)
    r9(tree, prog, rep)
    r3(tree, prog, rep)
    r4(tree, rep)
    r5(tree, rep)
    r6(tree, rep)
    r7(tree, rep, tier)
    r13(tree, rep)
    r10(tree, rep, tier)
    from ..tablerules import application_outputs_last
    application_outputs_last(rep, "C17.R12", prog.machine("Manager"),
                             "the Manager never reaches STOPPED / never starts the next generation, and the wormhole's close waits for it", min_rows=6)
    application_outputs_last(rep, "C17.R12", prog.machine("Boss"),
                             "the Dilator never hears the key / the peer's versions, so an incapable peer is never reported", app_attrs=(), min_rows=3)


MUTANTS = [
    Mutant("lonely-no-stop", MGR, "    LONELY.upon(stop, enter=STOPPED, outputs=[notify_stopped, send_status_stopped])\n", "", "C17.R1"),
    Mutant("connected-stop-no-abandon", MGR, "    CONNECTED.upon(stop, enter=STOPPING, outputs=[abandon_connection])", "    CONNECTED.upon(stop, enter=STOPPING, outputs=[])", "C17.R1"),
    Mutant("flushing-stop-waits", MGR, "    FLUSHING.upon(stop, enter=STOPPED, outputs=[notify_stopped, send_status_stopped])", "    FLUSHING.upon(stop, enter=STOPPING, outputs=[])", "C17.R1"),
    Mutant("stopping-no-notify", MGR, "    STOPPING.upon(connection_lost_leader, enter=STOPPED, outputs=[notify_stopped, send_status_stopped])", "    STOPPING.upon(connection_lost_leader, enter=STOPPED, outputs=[send_status_stopped])", "C17.R1"),
    Mutant("connecting-stop-keeps-connector", MGR, "    CONNECTING.upon(stop, enter=STOPPED, outputs=[stop_connecting, notify_stopped, send_status_stopped])", "    CONNECTING.upon(stop, enter=STOPPED, outputs=[notify_stopped, send_status_stopped])", "C17.R2"),
    Mutant("dilator-stop-no-chain", MGR, "            self._manager.when_stopped().addCallback(lambda _: self._T.stoppedD())\n", "", "C17.R3"),
    Mutant("no-version-silent", MGR, "            self.fail(failure.Failure(OldPeerCannotDilateError()))\n", "            pass\n", "C17.R4"),
    Mutant("connect-does-not-wait", SUB, "        yield self._manager._main_channel.when_fired()\n        scid = self._manager.allocate_subchannel_id()", "        yield None\n        scid = self._manager.allocate_subchannel_id()", "C17.R4"),
    Mutant("expiry-keeps-timer", MGR, "            def timer_expired():\n                self._timer = None\n                self._traffic.interval_elapsed()", "            def timer_expired():\n                self._traffic.interval_elapsed()", "C17.R6"),
    Mutant("discard-in-consider", CTR, "        self._contenders.add(c)\n", "        self._contenders.add(c)\n        self._pending_connections.discard(c)\n", "C17.R5"),
    Mutant("stop-skips-connections", CTR, "    def stop_everything(self):\n        self.stop_listeners()\n        self.stop_pending_connectors()\n        self.stop_pending_connections()\n", "    def stop_everything(self):\n        self.stop_listeners()\n        self.stop_pending_connectors()\n", "C17.R2"),
]
MUTANTS.append(Mutant("connected-stop-never-notifies", MGR, "    STOPPING.upon(connection_lost_follower, enter=STOPPED, outputs=[notify_stopped, send_status_stopped])\n", "", ("C17.R1", "C17.R7")))
REWRITES = []

# engine A5 / old-peer environment
MUTANTS.append(Mutant("timer-lost-row-misplaced", MGR, "    idle_traffic.upon(\n        lost_connection,\n        enter=no_connection,\n        outputs=[]\n    )",
                      "    no_connection.upon(\n        lost_connection,\n        enter=no_connection,\n        outputs=[]\n    )", ("C17.R10", "C17.R6"),
                      "close() after one silent interval: lost_connection raises in idle_traffic, the Manager stays STOPPING"))
MUTANTS.append(Mutant("late-dilate-wrong-pending-test", MGR, "            if self._pending_wormhole_versions is not None:\n                self._deliver_versions(self._pending_wormhole_versions)",
                      "            if self._pending_inbound_dilate_messages:\n                self._deliver_versions(self._pending_wormhole_versions)", ("C17.R4", "C17.R7")))
REWRITES.append(Rewrite("versions-stripped-for-dilator", "src/wormhole/_boss.py", "        self._their_versions = bytes_to_dict(plaintext)\n        self._D.got_wormhole_versions(self._their_versions)\n        # but this part is app-to-app\n        app_versions = self._their_versions.get(\"app_versions\", {})",
                      "        their_versions = bytes_to_dict(plaintext)\n        app_versions = their_versions.pop(\"app_versions\", {})\n        self._their_versions = their_versions\n        self._D.got_wormhole_versions(self._their_versions)",
                        desc="seed C17-10 after the repair of F15: an old peer's versions reach the Dilator as an empty dict, which dilate() now forwards"))
MUTANTS.append(Mutant("pending-versions-truthiness", MGR, "            if self._pending_wormhole_versions is not None:", "            if self._pending_wormhole_versions:", "C17.R4",
                      "an empty versions object that arrived before dilate() is dropped (finding F15)"))
REWRITES.append(Rewrite("pending-versions-none-early", MGR, "            if self._pending_wormhole_versions is not None:\n                self._deliver_versions(self._pending_wormhole_versions)",
                        "            if self._pending_wormhole_versions is None:\n                return self._manager._api\n            self._deliver_versions(self._pending_wormhole_versions)",
                        desc="inverted None test with early return"))
MUTANTS.append(Mutant("status-before-versions", "src/wormhole/_boss.py", "    S2_happy.upon(_got_version, enter=S2_happy, outputs=[process_version, send_status_confirmed_key])",
                      "    S2_happy.upon(_got_version, enter=S2_happy, outputs=[send_status_confirmed_key, process_version])", "C17.R12",
                      "a raising status callback keeps the peer's versions from the Dilator: an incapable peer is never reported (seed C17-11)"))
MUTANTS.append(Mutant("status-before-notify-stopped", MGR, "    LONELY.upon(stop, enter=STOPPED, outputs=[notify_stopped, send_status_stopped])", "    LONELY.upon(stop, enter=STOPPED, outputs=[send_status_stopped, notify_stopped])", "C17.R12"))
MUTANTS.append(Mutant("dilator-stop-chain-after-stop", MGR, "            try:\n                self._manager.stop()\n            finally:\n", "            self._manager.stop()\n            if True:\n", "C17.R3",
                      "finding F17 put back: a raising status callback leaves Dilator.stop before stoppedD is chained"))
REWRITES.append(Rewrite("dilator-stop-chain-first", MGR, "            try:\n                self._manager.stop()\n            finally:\n                # (also when the application's status callback, which stop()\n                # runs, raises: the Manager has stopped by then)\n                # TODO: avoid Deferreds for control flow, hard to serialize\n                self._manager.when_stopped().addCallback(lambda _: self._T.stoppedD())\n",
                        "            self._manager.when_stopped().addCallback(lambda _: self._T.stoppedD())\n            self._manager.stop()\n", desc="subscribe before stopping instead of try/finally"))
MUTANTS.append(Mutant("versions-set-of-raw-json", MGR, "    if not isinstance(their_versions, (list, tuple)):\n        their_versions = []\n    their_dilation_versions = {v for v in their_versions if isinstance(v, str)}\n",
                      "    their_dilation_versions = set(their_versions)\n", "C17.R13", "finding F20 put back"))
MUTANTS.append(Mutant("versions-logged-with-join", MGR, "    # dilation_version is the best mutually-compatible version we have\n", "    if best_version is None:\n        log.msg(\"nothing in common with [%s]\" % \", \".join(their_versions))\n    # dilation_version is the best mutually-compatible version we have\n", "C17.R13", "seed C17-14"))

MUTANTS.append(Mutant("untracked-retry", "src/wormhole/_dilation/connector.py", "        d.addErrback(lambda f: f.trap(DNSLookupError))\n        d.addErrback(log.err)\n        self._pending_connectors.add(d)\n", "        d.addErrback(lambda f: f.trap(DNSLookupError))\n        d.addErrback(log.err)\n        self._pending_connectors.add(d)\n        d2 = deferLater(self._reactor, delay + 1.0, self._connect, ep, desc, is_relay)\n        d2.addErrback(log.err)\n", "C17.R14", "seed C17-18"))
