"""C01 — the session key is bound to the wormhole code: agree iff codes match."""
import ast

from ..srcmodel import AnalysisError, site
from ..automat_x import Program, output_call_names, output_calls
from ..astutil import (dotted, const, NOCONST, params, local_defs, OPAQUE, is_self_attr, calls_named, resolve_local,
                       same_expr, enclosing_function, enclosing_class)
from ..dataflow import expand, call_arg, is_call_to, uses_of, reaches
from ..effects import class_writers, is_const, is_empty_ctor
from ..cfg import build, truthy_atom
from ..tablerules import row_calls
from .. import a3common
from ..selftest import Mutant, Rewrite

EXPLANATION = ("Lemma rules over def-use chains and tables: (R1) to_bytes = NFC then UTF-8; (R2) the one SPAKE2 "
               "construction takes to_bytes(code parameter) and idSymmetric=to_bytes(appid), the finish() result flows "
               "unmodified to Boss, Receive and the phase key; (R3) Code/Key hand the code on unchanged, code before pake; "
               "(R4) derive_key = HKDF(key, info=purpose), the wormhole front-ends pass to_bytes(purpose) and refuse without "
               "a key; (R5) the verifier is a fixed-purpose derivation of the key; (R6) nothing is delivered before one "
               "peer message decrypted, an undecryptable one goes to scared; (R7, typestate) _SortedKey never sees a "
               "PAKE before the code. The cryptographic clauses (SPAKE2 agreement, HKDF injectivity) are not decided.")
TRUSTED_BASE = ["T1", "T2", "T3", "T4"]
MIN_OBLIGATIONS = 30

UTIL = "src/wormhole/util.py"
KEY = "src/wormhole/_key.py"
WH = "src/wormhole/wormhole.py"
REC = "src/wormhole/_receive.py"


def _imports_name(tree, relpath, name, frommod_suffix):
    for n in tree.ast(relpath).body:
        if isinstance(n, ast.ImportFrom) and (n.module or "").endswith(frommod_suffix) or \
                (isinstance(n, ast.ImportFrom) and frommod_suffix == "" and n.level > 0):
            for a in n.names:
                if (a.asname or a.name) == name and a.name == name:
                    return True
    return False


def is_to_bytes_of(node, inner_pred):
    return isinstance(node, ast.Call) and dotted(node.func) == "to_bytes" and len(node.args) == 1 \
        and not node.keywords and inner_pred(node.args[0])


def r1(tree, rep):
    fn = tree.func(UTIL, None, "to_bytes")
    ps = params(fn, skip_self=False)
    rets = [n for n in ast.walk(fn) if isinstance(n, ast.Return)]
    ok = len(ps) == 1 and bool(rets)
    for r in rets:
        v = expand(fn, r.value) if r.value is not None else None
        good = (isinstance(v, ast.Call) and isinstance(v.func, ast.Attribute) and v.func.attr == "encode"
                and len(v.args) >= 1 and isinstance(const(v.args[0]), str)
                and const(v.args[0]).lower().replace("-", "").replace("_", "") == "utf8" and len(v.args) == 1)
        if good:
            inner = v.func.value
            good = (isinstance(inner, ast.Call) and (dotted(inner.func) or "").split(".")[-1] == "normalize"
                    and len(inner.args) == 2 and const(inner.args[0]) == "NFC"
                    and isinstance(inner.args[1], ast.Name) and inner.args[1].id == ps[0])
        ok = ok and good
    rep.check("C01.R1", "util.to_bytes returns unicodedata.normalize('NFC', <param>).encode('utf-8') on every path", ok,
              site(fn, UTIL), key="C01.R1:to_bytes",
              what="to_bytes is no longer NFC normalisation followed by UTF-8 encoding of its parameter")


def r2(tree, prog, rep):
    sites = []
    for p in tree.paths():
        for n in ast.walk(tree.ast(p)):
            if isinstance(n, ast.Call) and (dotted(n.func) or "").split(".")[-1] == "SPAKE2_Symmetric":
                sites.append((p, n))
    rep.check("C01.R2", "exactly one SPAKE2_Symmetric construction in the package", len(sites) == 1,
              site(sites[0][1], sites[0][0]) if sites else KEY, key="C01.R2:spake-sites",
              what="SPAKE2_Symmetric is constructed at %d sites" % len(sites))
    if len(sites) != 1:
        raise AnalysisError("cannot locate the SPAKE2 construction")
    p, call = sites[0]
    fn = enclosing_function(call)
    cls = enclosing_class(call)
    fps = params(fn)
    rep.check("C01.R2", "to_bytes in _key.py is util.to_bytes", _imports_name(tree, p, "to_bytes", "util"), p,
              key="C01.R2:to_bytes-import")
    a0 = call_arg(call, 0, "password")
    a0 = expand(fn, a0) if a0 is not None else None
    ok = a0 is not None and is_to_bytes_of(a0, lambda x: isinstance(x, ast.Name) and x.id in fps and x.id == "code")
    rep.check("C01.R2", "SPAKE2 password is to_bytes(<the code parameter of %s.%s>)" % (cls.name, fn.name), ok, site(call, p),
              key="C01.R2:password", what="the PAKE password is no longer exactly NFC-UTF8 of the code handed to %s" % fn.name)
    ids = call_arg(call, None, "idSymmetric")
    ids = expand(fn, ids) if ids is not None else None
    ok = ids is not None and is_to_bytes_of(ids, lambda x: is_self_attr(x, "_appid"))
    rep.check("C01.R2", "SPAKE2 identity is to_bytes(self._appid)", ok, site(call, p), key="C01.R2:identity",
              what="the PAKE identity (idSymmetric) is no longer NFC-UTF8 of the application id")
    # appid plumbing: Boss -> Key -> _SortedKey (first constructor argument each time, attrs field order)
    for (owner_file, owner, meth, callee) in (("src/wormhole/_boss.py", "Boss", "_build_workers", "Key"),
                                              (KEY, "Key", "__attrs_post_init__", "_SortedKey")):
        f2 = tree.func(owner_file, owner, meth)
        cs = [c for c in ast.walk(f2) if isinstance(c, ast.Call) and dotted(c.func) == callee]
        fields = prog.cls(callee).attr_fields
        ok = len(cs) == 1 and "_appid" in fields
        if ok:
            idx = fields.index("_appid")
            a = call_arg(cs[0], idx, "appid")
            ok = a is not None and is_self_attr(a, "_appid")
        rep.check("C01.R2", "%s.%s constructs %s with its own appid" % (owner, meth, callee), ok,
                  site(cs[0], owner_file) if cs else owner_file, key="C01.R2:appid:%s->%s" % (owner, callee))
    # the stored SPAKE2 object: written only there
    own, foreign = class_writers(tree, cls.name, "_sp")
    rep.check("C01.R2", "%s._sp is written only by the SPAKE2 construction" % cls.name,
              len(own) == 1 and not foreign and own[0].fn == fn.name, own[0].site if own else p, key="C01.R2:_sp-writers")
    # finish() result
    SK = prog.machine(cls.name)
    ck = None
    for oname, ofn in SK.outputs.items():
        if any(isinstance(c, ast.Call) and isinstance(c.func, ast.Attribute) and c.func.attr == "finish"
               and is_self_attr(c.func.value, "_sp") for c in ast.walk(ofn)):
            ck = ofn
    if ck is None:
        raise AnalysisError("no output of %s calls self._sp.finish" % cls.name)
    fin = [c for c in ast.walk(ck) if isinstance(c, ast.Call) and isinstance(c.func, ast.Attribute) and c.func.attr == "finish"]
    keyvars = [t.id for n in ast.walk(ck) if isinstance(n, ast.Assign) and n.value in fin for t in n.targets if isinstance(t, ast.Name)]
    ok = len(fin) == 1 and len(keyvars) == 1 and len(local_defs(ck, keyvars[0])) == 1 \
        and len(fin[0].args) == 1 and isinstance(fin[0].args[0], ast.Name) and fin[0].args[0].id in params(ck)
    rep.check("C01.R2", "%s.%s: key = self._sp.finish(<msg parameter>), defined once" % (cls.name, ck.name), ok, site(ck, p),
              key="C01.R2:finish")
    if ok:
        kv = keyvars[0]
        for want, pos in (("self._B.got_key", 0), ("self._R.got_key", 0), ("derive_phase_key", 0)):
            cs = [c for c in ast.walk(ck) if isinstance(c, ast.Call) and dotted(c.func) == want]
            good = len(cs) >= 1 and all(len(c.args) > pos and isinstance(c.args[pos], ast.Name) and c.args[pos].id == kv for c in cs)
            rep.check("C01.R2", "the finish() result reaches %s unmodified" % want, good, site(cs[0], p) if cs else site(ck, p),
                      key="C01.R2:key->%s" % want, what="%s no longer receives exactly the SPAKE2 session key" % want)
        # every use of the key variable is a bare argument of one of those calls
        allowed = {"self._B.got_key", "self._R.got_key", "derive_phase_key"}
        bad = []
        for u in uses_of(ck, kv):
            par = getattr(u, "_parent", None)
            if isinstance(par, ast.Call) and dotted(par.func) in ("isinstance", "len", "type") and u in par.args:
                continue        # inspecting the key's type / length (assertions) does not use its value
            if not (isinstance(par, ast.Call) and dotted(par.func) in allowed and u in par.args):
                bad.append(u)
        rep.check("C01.R2", "the session key has no other use in %s" % ck.name, not bad, site(bad[0], p) if bad else site(ck, p),
                  key="C01.R2:key-other-use")
    # got_pake: the PAKE message handed to finish() is the decoded pake_v1 field of the body
    gp = SK.methods.get("got_pake")
    if gp is None:
        raise AnalysisError("%s.got_pake not found" % cls.name)
    good_calls = [c for c in ast.walk(gp) if isinstance(c, ast.Call) and dotted(c.func) == "self.got_pake_good"]
    rep.check("C01.R2", "%s.got_pake feeds got_pake_good from the body it was given" % cls.name,
              len(good_calls) == 1 and "body" in reaches(gp, good_calls[0], {"body"}), site(gp, p), key="C01.R2:got_pake")


def r3(tree, prog, rep):
    Cd = prog.machine("Code")
    n = 0
    for oname, ofn in Cd.outputs.items():
        kc = calls_named(ofn, "self._K.got_code")
        bc = calls_named(ofn, "self._B.got_code")
        if not kc and not bc:
            continue
        n += 1
        ps = params(ofn)
        ok = len(kc) == 1 and len(bc) == 1 and len(kc[0].args) == 1 and len(bc[0].args) == 1 \
            and same_expr(kc[0].args[0], bc[0].args[0]) and isinstance(kc[0].args[0], ast.Name) and kc[0].args[0].id in ps \
            and not [d for d in local_defs(ofn, kc[0].args[0].id)]
        rep.check("C01.R3", "Code.%s hands the same, unmodified code parameter to the Boss and to Key" % oname, ok,
                  site(ofn, Cd.file), key="C01.R3:Code.%s" % oname,
                  what="Code.%s gives Key a different code than it reports to the application" % oname)
        # the rows using this output receive `code` from their input
        for r in Cd.rows.values():
            if oname in r.outputs:
                rep.check("C01.R3", "Code input %s carries a `code` argument" % r.inp,
                          "code" in params(Cd.inputs[r.inp]), r.site, key="C01.R3:Code.%s:input" % r.inp)
    if n < 3:
        raise AnalysisError("fewer Code outputs deliver the code than expected (%d)" % n)
    # Code.set_code passes its parameter on
    sc = Cd.methods.get("set_code")
    if sc is not None:
        cs = calls_named(sc, "self._set_code")
        rep.check("C01.R3", "Code.set_code passes its parameter to the machine unchanged",
                  len(cs) == 1 and len(cs[0].args) == 1 and isinstance(cs[0].args[0], ast.Name)
                  and cs[0].args[0].id in params(sc) and not local_defs(sc, cs[0].args[0].id), site(sc, Cd.file),
                  key="C01.R3:Code.set_code")
    bs = tree.func("src/wormhole/_boss.py", "Boss", "set_code")
    cs = calls_named(bs, "self._C.set_code")
    rep.check("C01.R3", "Boss.set_code passes its parameter to Code unchanged",
              len(cs) == 1 and len(cs[0].args) == 1 and isinstance(cs[0].args[0], ast.Name)
              and cs[0].args[0].id in params(bs) and not local_defs(bs, cs[0].args[0].id), site(bs, "src/wormhole/_boss.py"),
              key="C01.R3:Boss.set_code")
    # Key: code forwarded unchanged, code before pake
    K = prog.machine("Key")
    for r in K.rows_on("got_code"):
        good = False
        for o in r.outputs:
            ofn = K.outputs[o]
            cs = calls_named(ofn, "self._SK.got_code")
            if len(cs) == 1 and len(cs[0].args) == 1 and isinstance(cs[0].args[0], ast.Name) and cs[0].args[0].id in params(ofn) \
                    and not local_defs(ofn, cs[0].args[0].id):
                good = True
                g = build(ofn)
                pk = g.call_nodes(lambda c: dotted(c.func) == "self._SK.got_pake")
                cd = g.call_nodes(lambda c: dotted(c.func) == "self._SK.got_code")
                if pk:
                    rep.check("C01.R3", "Key.%s delivers the code before the stashed PAKE message" % o,
                              not g.precedes(cd, pk), site(ofn, K.file), key="C01.R3:Key.%s:order" % o)
        rep.check("C01.R3", "Key %s.got_code forwards the code to _SortedKey unchanged" % r.src, good, r.site,
                  key="C01.R3:Key[%s].got_code" % r.src)
    own, foreign = class_writers(tree, "Key", "_pake")
    rep.check("C01.R3", "Key._pake (stashed PAKE body) is written only from the got_pake argument",
              len(own) == 1 and not foreign and isinstance(own[0].value, ast.Name)
              and own[0].value.id in params(K.func(own[0].fn)), own[0].site if own else K.file, key="C01.R3:Key._pake")


def r4(tree, rep):
    dk = tree.func(KEY, None, "derive_key")
    ps = params(dk, skip_self=False)
    rets = [n for n in ast.walk(dk) if isinstance(n, ast.Return)]
    ok = len(rets) == 1 and len(ps) >= 2
    if ok:
        v = expand(dk, rets[0].value)
        ok = isinstance(v, ast.Call) and dotted(v.func) == "HKDF"
        if ok:
            a_key = call_arg(v, 0, "skm")
            a_len = call_arg(v, 1, "outlen")
            a_info = call_arg(v, 3, "CTXinfo")
            ok = (isinstance(a_key, ast.Name) and a_key.id == ps[0] and isinstance(a_info, ast.Name) and a_info.id == ps[1]
                  and isinstance(a_len, ast.Name) and a_len.id in ps)
    rep.check("C01.R4", "_key.derive_key returns HKDF(key, length, CTXinfo=purpose)", ok, site(dk, KEY), key="C01.R4:derive_key",
              what="derive_key no longer derives from the key with the purpose as HKDF info")
    rep.check("C01.R4", "HKDF in _key.py is util.HKDF", _imports_name(tree, KEY, "HKDF", "util"), KEY, key="C01.R4:HKDF-import")
    hk = tree.func(UTIL, None, "HKDF")
    hps = params(hk, skip_self=False)
    rets = [n for n in ast.walk(hk) if isinstance(n, ast.Return)]
    ok = len(rets) == 1
    if ok:
        v = expand(hk, rets[0].value)
        ok = isinstance(v, ast.Call) and isinstance(v.func, ast.Attribute) and v.func.attr == "derive" and len(v.args) == 1 \
            and isinstance(v.args[0], ast.Name) and v.args[0].id == hps[0]
        if ok:
            ctor = v.func.value
            ok = isinstance(ctor, ast.Call) and (dotted(ctor.func) or "").split(".")[-1] == "HKDF"
            if ok:
                alg = call_arg(ctor, 0, "algorithm")
                ln = call_arg(ctor, 1, "length")
                salt = call_arg(ctor, 2, "salt")
                info = call_arg(ctor, 3, "info")
                ok = (isinstance(alg, ast.Call) and (dotted(alg.func) or "").split(".")[-1] == "SHA256"
                      and isinstance(ln, ast.Name) and ln.id == hps[1] and isinstance(salt, ast.Name) and salt.id == "salt"
                      and isinstance(info, ast.Name) and info.id == "CTXinfo")
    rep.check("C01.R4", "util.HKDF = hkdf.HKDF(SHA256, outlen, salt, info=CTXinfo).derive(skm)", ok, site(hk, UTIL),
              key="C01.R4:util.HKDF", what="util.HKDF no longer puts CTXinfo into the info slot / derives from skm")
    for cls in ("_DelegatedWormhole", "_DeferredWormhole"):
        fn = tree.func(WH, cls, "derive_key")
        g = build(fn, split=True)
        rets = g.nodes(lambda s: isinstance(s, ast.Return))
        ok = bool(rets)
        for rn in rets:
            v = g.stmt[rn].value
            v = expand(fn, v) if v is not None else None
            good = isinstance(v, ast.Call) and dotted(v.func) == "derive_key" and len(v.args) >= 3 and is_self_attr(v.args[0], "_key") \
                and is_to_bytes_of(v.args[1], lambda x: isinstance(x, ast.Name) and x.id == "purpose") \
                and isinstance(v.args[2], ast.Name) and v.args[2].id == "length"
            ok = ok and good
        rep.check("C01.R4", "%s.derive_key returns derive_key(self._key, to_bytes(purpose), length)" % cls, ok, site(fn, WH),
                  key="C01.R4:%s.derive_key" % cls)
        have_key = truthy_atom(lambda e: is_self_attr(e, "_key"))
        from ..cfg import none_atom
        no_key = none_atom(lambda e: is_self_attr(e, "_key"))
        ok_truthy = g.when_always_raises(have_key, False) and not g.only_when(rets, have_key, True)
        ok_none = g.when_always_raises(no_key, True) and not g.only_when(rets, no_key, False)
        rep.check("C01.R4", "%s.derive_key raises when no key is known" % cls, ok_truthy or ok_none, site(fn, WH), key="C01.R4:%s.derive_key:nokey" % cls)
        # every value ever stored in _key is either the key handed to got_key or a "no key" marker that this guard rejects:
        # None for an `is None` guard; None or any other falsy constant for a truthiness guard
        own, foreign = class_writers(tree, cls, "_key")
        good = bool(own) and not foreign

        def marker(v):
            if is_const(v, None):
                return True
            c = const(v)
            return ok_truthy and c is not NOCONST and not c
        for w in own:
            if w.kind != "assign":
                good = False
            elif w.fn == "got_key":
                good = good and ((isinstance(w.value, ast.Name) and w.value.id in params(tree.func(WH, cls, "got_key"))) or marker(w.value))
            else:
                good = good and marker(w.value)
        rep.check("C01.R4", "%s._key holds only the key handed to got_key, or a no-key marker that derive_key's guard rejects" % cls, good,
                  own[0].site if own else WH, key="C01.R4:%s._key-writers" % cls,
                  what="%s._key can hold a value that is neither the session key nor rejected by derive_key's no-key guard: derive_key "
                       "derives from it (the same bytes on both sides whatever the codes were)" % cls)
    rep.check("C01.R4", "derive_key in wormhole.py is _key.derive_key", _imports_name(tree, WH, "derive_key", "_key"), WH,
              key="C01.R4:derive_key-import")


def r5_r6(tree, prog, rep):
    R = prog.machine("Receive")
    n = 0
    for oname, ofn in R.outputs.items():
        for c in calls_named(ofn, "self._B.got_verifier"):
            n += 1
            a = expand(ofn, c.args[0]) if c.args else None
            ok = isinstance(a, ast.Call) and dotted(a.func) == "derive_key" and len(a.args) == 2 and not a.keywords \
                and is_self_attr(a.args[0], "_key") and isinstance(const(a.args[1]), bytes)
            rep.check("C01.R5", "the verifier is derive_key(self._key, <constant purpose>) - no side/phase operand", ok,
                      site(c, R.file), key="C01.R5:verifier", what="the verifier is no longer a fixed-purpose derivation of the session key")
    if n != 1:
        raise AnalysisError("expected one B.got_verifier call in Receive, found %d" % n)
    own, foreign = class_writers(tree, "Receive", "_key")
    good = bool(own) and not foreign
    for w in own:
        if w.fn in ("__init__", "__attrs_post_init__"):
            good = good and is_const(w.value, None)
        else:
            fnw = R.func(w.fn)
            good = good and isinstance(w.value, ast.Name) and w.value.id in params(fnw) \
                and all(r.inp == "got_key" for r in R.rows.values() if w.fn in r.outputs)
    rep.check("C01.R5", "Receive._key is written only from the got_key argument", good, own[0].site if own else R.file,
              key="C01.R5:Receive._key-writers")
    # on the got_key row the key is recorded BEFORE the held messages are looked at again (they go back through got_message,
    # which holds them once more while there is no key)
    from ..automat_x import output_calls
    for r in R.rows_on("got_key"):
        setters = [i for i, o in enumerate(r.outputs) if any(w.fn == o for w in own)]
        users = [i for i, o in enumerate(r.outputs) if any(
            isinstance(c, ast.Call) and dotted(c.func) in ("self.got_message", "decrypt_data", "derive_phase_key") for c in output_calls(R, o))]
        if users:
            rep.check("C01.R5", "Receive %s.got_key records the key before it re-submits the held messages" % r.src,
                      bool(setters) and max(setters) < min(users), r.site, key="C01.R5:Receive[%s].got_key:order" % r.src,
                      what="messages held until the key exists are re-submitted while self._key is still None: they are held again and "
                           "never processed (a wrong code is never reported)")
    # R6 deliveries only after a good decryption
    for r in R.rows.values():
        cs = row_calls(R, r)
        deliver = [c for c in cs if c in ("self._B.happy", "self._B.got_verifier", "self._B.got_message", "self._S.got_verified_key")]
        if deliver:
            rep.check("C01.R6", "Receive %s.%s delivers %s only on a successfully decrypted message" % (r.src, r.inp, deliver),
                      r.inp == "got_message_good", r.site, key="C01.R6:Receive[%s].%s:delivers" % (r.src, r.inp),
                      what="Receive row %s.%s delivers %s without a successful decryption" % (r.src, r.inp, deliver))
    for r in R.rows_on("got_message_bad"):
        cs = row_calls(R, r)
        if r.src != r.enter:
            rep.check("C01.R6", "Receive %s.got_message_bad reports scared" % r.src, "self._B.scared" in cs, r.site,
                      key="C01.R6:Receive[%s].got_message_bad" % r.src)
    gm = R.methods.get("got_message")
    if gm is None:
        raise AnalysisError("Receive.got_message not found")
    # every other place in Receive that decrypts (a loop over held messages, ..) obeys the same discipline
    for oname, ofn in list(R.outputs.items()) + list(R.methods.items()):
        if ofn is gm or not any(isinstance(c, ast.Call) and dotted(c.func) == "decrypt_data" for c in ast.walk(ofn)):
            continue
        g2 = build(ofn)
        good2 = g2.call_nodes(lambda c: dotted(c.func) == "self.got_message_good")
        bad2 = g2.call_nodes(lambda c: dotted(c.func) == "self.got_message_bad")
        hs2 = [n for n in g2.nodes(lambda s: isinstance(s, ast.ExceptHandler))]
        dec2 = g2.call_nodes(lambda c: dotted(c.func) == "decrypt_data")
        ok2 = bool(bad2) and bool(hs2) and not g2.precedes(dec2, good2)
        for h in hs2:
            ok2 = ok2 and not (g2.reach_feasible(h) & set(good2))
            # from the handler, the next decryption / the exit is reached only through got_message_bad
            ok2 = ok2 and not ((set(dec2) | {g2.exit}) & g2.reach_feasible(h, avoid_nodes=bad2, explicit_only=True))
        rep.check("C01.R6", "Receive.%s also decrypts: an undecryptable message is reported as bad there too, never skipped" % oname, ok2,
                  site(ofn, R.file), key="C01.R6:Receive.%s:decrypts" % oname,
                  what="Receive.%s silently drops (or delivers) a message that does not decrypt: a wrong code is not reported as WrongPasswordError" % oname)
    g = build(gm)
    good_n = g.call_nodes(lambda c: dotted(c.func) == "self.got_message_good")
    bad_n = g.call_nodes(lambda c: dotted(c.func) == "self.got_message_bad")
    handlers = [n for n in g.nodes(lambda s: isinstance(s, ast.ExceptHandler))]
    dec = g.call_nodes(lambda c: dotted(c.func) == "decrypt_data")
    ok = len(good_n) >= 1 and len(bad_n) >= 1 and len(handlers) >= 1 and len(dec) == 1
    if ok:
        # good is only reachable through the decrypt call's normal continuation, never from a handler
        # (paths contradicting a local sentinel - `plaintext = None` in the handler, `if plaintext is None` after - are infeasible)
        ok = not g.precedes(dec, good_n)
        for h in handlers:
            ok = ok and not (g.reach_feasible(h) & set(good_n))
            ok = ok and g.exit not in g.reach_feasible(h, avoid_nodes=bad_n, explicit_only=True)
        # the exceptional edge of the decrypt statement does not reach good
        for d in dec:
            exc_t = [y for (y, lab) in g.succ[d] if lab == 'exc']
            ok = ok and not (g.reach_feasible(exc_t) & set(good_n))
    rep.check("C01.R6", "Receive.got_message: got_message_good only after decrypt_data returned; the CryptoError handler "
              "reports got_message_bad and never falls through to good", ok, site(gm, R.file), key="C01.R6:Receive.got_message",
              what="an undecryptable message can reach got_message_good / is not reported as bad")
    if ok:
        # the plaintext handed on is the decrypt result; the key comes from derive_phase_key(self._key, ...)
        gc = [c for c in ast.walk(gm) if isinstance(c, ast.Call) and dotted(c.func) == "self.got_message_good"][0]
        pa = gc.args[1] if len(gc.args) > 1 else None
        cands = []
        if isinstance(pa, ast.Name):
            # every definition of the local is the decrypt result, or the handler's None sentinel (excluded above)
            defs = [d for d in local_defs(gm, pa.id)]
            cands = [d for d in defs if not (isinstance(d, ast.Constant) and d.value is None)]
            if len(cands) != len(defs) and len(cands) != 1:
                cands = []
        elif pa is not None:
            cands = [pa]
        pt = expand(gm, cands[0]) if len(cands) == 1 and cands[0] is not OPAQUE else None
        ok2 = isinstance(pt, ast.Call) and dotted(pt.func) == "decrypt_data" and len(pt.args) == 2
        if ok2:
            dkc = pt.args[0]
            ok2 = isinstance(dkc, ast.Call) and dotted(dkc.func) == "derive_phase_key" and is_self_attr(dkc.args[0], "_key") \
                and isinstance(pt.args[1], ast.Name) and pt.args[1].id in params(gm)
        rep.check("C01.R6", "the delivered plaintext is decrypt_data(derive_phase_key(self._key, ..), <body parameter>)", ok2,
                  site(gc, R.file), key="C01.R6:Receive.got_message:plaintext")
    dd = tree.func(KEY, None, "decrypt_data")
    boxes = [c for c in ast.walk(dd) if isinstance(c, ast.Call) and (dotted(c.func) or "").split(".")[-1] == "SecretBox"]
    decs = [c for c in ast.walk(dd) if isinstance(c, ast.Call) and isinstance(c.func, ast.Attribute) and c.func.attr == "decrypt"]
    rets = [n for n in ast.walk(dd) if isinstance(n, ast.Return)]
    ok = len(boxes) == 1 and len(decs) == 1 and len(rets) == 1 and isinstance(boxes[0].args[0], ast.Name) \
        and boxes[0].args[0].id == params(dd, False)[0]
    if ok:
        v = expand(dd, rets[0].value)
        ok = isinstance(v, ast.Call) and isinstance(v.func, ast.Attribute) and v.func.attr == "decrypt" \
            and isinstance(v.args[0], ast.Name) and v.args[0].id == params(dd, False)[1] \
            and not any(isinstance(n, ast.Try) for n in ast.walk(dd))
    rep.check("C01.R6", "decrypt_data returns SecretBox(key).decrypt(encrypted) and lets CryptoError escape", ok, site(dd, KEY),
              key="C01.R6:decrypt_data")
    decrypt_raises_only_cryptoerror(tree, rep, "C01.R6")
    # messages held until the key exists are all judged once it does (none is dropped when the buffer is emptied)
    gm_appends = [c.func.value.attr for c in ast.walk(gm) if isinstance(c, ast.Call) and isinstance(c.func, ast.Attribute)
                  and c.func.attr == "append" and is_self_attr(c.func.value)]
    for attr in sorted(set(gm_appends)):
        held_buffer_drained(tree, rep, "C01.R6", prog, "Receive", attr,
                            "messages that arrived before the key existed are dropped instead of being decrypted once the key is known: "
                            "a peer with a wrong code is never reported (LonelyError instead of WrongPasswordError), a good peer's message is lost")
    B = prog.machine("Boss")
    hrows = [r for r in B.rows_on("happy") if r.src != r.enter]
    hs = {r.enter for r in hrows}
    if len(hs) != 1:
        raise AnalysisError("Boss: cannot identify the happy state")
    happy = list(hs)[0]
    for r in B.rows.values():
        cs = row_calls(B, r)
        d = [c for c in cs if c in ("self._W.got_verifier", "self._W.got_versions", "self._W.received")]
        if d:
            rep.check("C01.R6", "Boss %s.%s delivers %s only in the verified (happy) state" % (r.src, r.inp, d), r.src == happy, r.site,
                      key="C01.R6:Boss[%s].%s:delivers" % (r.src, r.inp),
                      what="Boss delivers %s in state %s, before any peer message has been verified" % (d, r.src))
        if r.enter == happy and r.src != happy:
            rep.check("C01.R6", "Boss enters %s only on `happy`" % happy, r.inp == "happy", r.site,
                      key="C01.R6:Boss:enter-happy:%s.%s" % (r.src, r.inp))
    for r in B.rows_on("scared"):
        if r.src != r.enter and r.outputs:
            vals = []
            from ..tablerules import assigns_in_output
            for o in r.outputs:
                vals += assigns_in_output(B, o, "_result")
            ok = len(vals) == 1 and isinstance(vals[0], ast.Call) and (dotted(vals[0].func) or "").split(".")[-1] == "WrongPasswordError"
            rep.check("C01.R6", "Boss %s.scared closes with WrongPasswordError" % r.src, ok, r.site, key="C01.R6:Boss[%s].scared" % r.src)


def held_buffer_drained(tree, rep, rule, prog, cname, attr, what):
    """a hold buffer (`self.<attr>`, filled with append) is never emptied without every element being handed on: each function
    that resets it walks the OLD content completely - either a loop over the attribute that precedes the reset, or a loop over
    a local that was bound to the attribute before the reset (the swap idiom) - or takes the elements one by one from the front"""
    ci = prog.cls(cname)
    own, foreign = class_writers(tree, cname, attr)
    ctor = ("__init__", "__attrs_post_init__")
    resets = [w for w in own + foreign if w.fn not in ctor and (
        (w.kind in ("assign", "setslice") and is_empty_ctor(w.value, ("list", "deque"))) or w.kind == "call:clear")]
    takers = [w for w in own if w.kind in ("call:popleft", "call:pop")]
    if not resets and not takers:
        raise AnalysisError("%s.%s is never drained" % (cname, attr))

    def strip(e):
        while isinstance(e, ast.Call) and isinstance(e.func, ast.Name) and e.func.id in ("list", "tuple", "iter") and len(e.args) == 1:
            e = e.args[0]
        return e

    def stmt_of(node):
        while node is not None and not isinstance(node, ast.stmt):
            node = getattr(node, "_parent", None)
        return node

    for fname in sorted({w.fn for w in resets}):
        fn = ci.func(fname)
        if fn is None:
            rep.check(rule, "%s.%s is emptied in %s" % (cname, attr, fname), False, ci.file, key="%s:%s.%s:drained:%s" % (rule, cname, attr, fname),
                      what=what)
            continue
        g = build(fn)
        reset_nodes = [n for n in (g.node_of(stmt_of(w.node)) for w in resets if w.fn == fname) if n is not None]
        ok = False
        for loop in [n for n in ast.walk(fn) if isinstance(n, ast.For)]:
            ln = g.node_of(loop)
            if ln is None:
                continue
            it = strip(loop.iter)
            src_ok = False
            if is_self_attr(it, attr):
                src_ok = not g.reaches_after(reset_nodes, [ln])         # no reset can happen before the walk starts
            elif isinstance(it, ast.Name):
                defs = local_defs(fn, it.id)
                if len(defs) == 1 and defs[0] is not OPAQUE and is_self_attr(strip(defs[0]), attr):
                    dn = g.node_of(stmt_of(defs[0]))
                    src_ok = dn is not None and not g.reaches_after(reset_nodes, [dn]) and not g.precedes([dn], [ln])
            complete = not any(isinstance(x, (ast.Break, ast.Return)) for b in loop.body for x in ast.walk(b))
            tnames = {x.id for x in ast.walk(loop.target) if isinstance(x, ast.Name)}
            used = any(isinstance(c, ast.Call) and any(isinstance(a, ast.Name) and a.id in tnames for aa in c.args for a in ast.walk(aa))
                       for b in loop.body for c in ast.walk(b))
            ok = ok or (src_ok and complete and used)
        # the same walk spelled as `while <alias>: use(<alias>.pop(0))`
        for loop in [n for n in ast.walk(fn) if isinstance(n, ast.While)]:
            ln = g.node_of(loop)
            names = [x.id for x in ast.walk(loop.test) if isinstance(x, ast.Name)]
            if ln is None or len(names) != 1:
                continue
            defs = local_defs(fn, names[0])
            if not (len(defs) == 1 and defs[0] is not OPAQUE and is_self_attr(strip(defs[0]), attr)):
                continue
            dn = g.node_of(stmt_of(defs[0]))
            src_ok = dn is not None and not g.reaches_after(reset_nodes, [dn]) and not g.precedes([dn], [ln])
            pops = [c for b in loop.body for c in ast.walk(b) if isinstance(c, ast.Call) and isinstance(c.func, ast.Attribute)
                    and isinstance(c.func.value, ast.Name) and c.func.value.id == names[0]
                    and (c.func.attr == "popleft" or (c.func.attr == "pop" and len(c.args) == 1 and is_const(c.args[0], 0)))]
            complete = not any(isinstance(x, (ast.Break, ast.Return)) for b in loop.body for x in ast.walk(b))
            handed = False
            for c in pops:
                par = getattr(c, "_parent", None)
                if isinstance(par, ast.Starred):
                    par = getattr(par, "_parent", None)
                if isinstance(par, ast.Call) and par is not c:
                    handed = True
                elif isinstance(par, ast.Assign) and len(par.targets) == 1:
                    tn = {x.id for x in ast.walk(par.targets[0]) if isinstance(x, ast.Name)}
                    handed = handed or any(isinstance(cc, ast.Call) and any(isinstance(a, ast.Name) and a.id in tn for aa in cc.args for a in ast.walk(aa))
                                           for b in loop.body for cc in ast.walk(b))
            ok = ok or (src_ok and complete and len(pops) == 1 and handed)
        rep.check(rule, "%s.%s empties self.%s only while handing every held element on (a complete walk over the old content)" % (cname, fname, attr),
                  ok, site(fn, ci.file), key="%s:%s.%s:drained:%s" % (rule, cname, attr, fname), what=what)
    for w in takers:
        # one-by-one from the front inside a loop on the buffer's non-emptiness, the taken element is used
        fn = ci.func(w.fn)
        front = w.kind == "call:popleft" or (len(w.value.args) == 1 and is_const(w.value.args[0], 0))
        loop = getattr(w.node, "_parent", None)
        while loop is not None and not isinstance(loop, (ast.While, ast.FunctionDef)):
            loop = getattr(loop, "_parent", None)
        in_loop = isinstance(loop, ast.While) and any(is_self_attr(x, attr) for x in ast.walk(loop.test))
        st = stmt_of(w.node)
        bound = isinstance(st, ast.Assign) and len(st.targets) == 1 and isinstance(st.targets[0], ast.Name)
        used = bound and fn is not None and len(uses_of(fn, st.targets[0].id)) >= 1
        rep.check(rule, "%s.%s takes the held elements of self.%s one by one from the front and hands each on" % (cname, w.fn, attr),
                  front and in_loop and used, w.site, key="%s:%s.%s:taken:%s" % (rule, cname, attr, w.fn), what=what)


def decrypt_raises_only_cryptoerror(tree, rep, rule):
    """whatever the peer put into the ciphertext (also a too-short one), the only exception leaving decrypt_data is CryptoError:
    Receive.got_message turns exactly that into `scared` (WrongPasswordError, mood scary)"""
    dd = tree.func(KEY, None, "decrypt_data")
    bad = []
    for r in ast.walk(dd):
        if isinstance(r, ast.Raise) and r.exc is not None:
            f = r.exc.func if isinstance(r.exc, ast.Call) else r.exc
            if (dotted(f) or "").split(".")[-1] != "CryptoError":
                bad.append(r)
    rep.check(rule, "decrypt_data raises nothing but CryptoError for a bad ciphertext (asserts concern the caller's own arguments)", not bad,
              site(bad[0], KEY) if bad else site(dd, KEY), key="%s:decrypt_data:only-CryptoError" % rule,
              what="decrypt_data raises %s for some ciphertexts: Receive.got_message does not treat that as a wrong password, the error "
                   "escapes to Boss.error and the mailbox is left open without a mood" % (
                       ast.unparse(bad[0].exc)[:60] if bad else "?"))


def r7(tree, rep, tier):
    sums = a3common.explorations(tree, tier, rep.seed, rep)
    a3common.fill_extra(rep, sums)
    for envname, s in sums.items():
        if envname == "postclose":
            continue
        rep.check("C01.R7", "_SortedKey/Key/Receive/Order never receive an input they have no row for "
                  "(both arrival orders of code and PAKE; environment %s, %d states)" % (envname, s.nstates), True,
                  key="C01.R7:summary:%s" % envname, evals=max(1, s.ntrans))
        for v in s.viol:
            if v["kind"] == "NoTransition" and v["detail"].split("[")[0] in ("_SortedKey", "Key", "Receive", "Order"):
                rep.violation("C01.R7", "C01.R7:%s" % v["detail"], "undeclared pair %s is reachable" % v["detail"], v["site"],
                              detail=" > ".join(v["stack"]), trace=v["path"])


def run(tree, rep, tier):
    # R8: the verdict of a side that heard from a peer with another code stays WrongPasswordError: Boss._result is written by the verdict
    # outputs of live states, the constructor and the error exit only - nothing rewrites it while closing (rule instances: C08.R2)
    from .C08 import r_tables as c08_r2
    from ..automat_x import Program as _P
    sub_ = type(rep)(rep.pid, rep.tier, rep.seed)
    try:
        c08_r2(_P(tree), sub_)
    except AnalysisError:
        pass
    for o_ in sub_.obligations:
        if o_["rule"] == "C08.R2" and "_result writer" in o_["instance"]:
            rep.obligations.append(dict(o_, rule="C01.R8"))
            rep.evaluations += 1
    for v_ in sub_.violations:
        if v_["key"].startswith("C08.R2:_result:writer"):
            rep.violation("C01.R8", v_["key"].replace("C08.R2", "C01.R8"), v_["what"] + " (a WrongPasswordError verdict can be replaced after the fact)",
                          v_.get("site"), v_.get("detail"), _count=False)
    from .. import sharedstate
    sharedstate.check(tree, rep, "C01.R0")
    prog = Program(tree)
    r1(tree, rep)
    r2(tree, prog, rep)
    r3(tree, prog, rep)
    r4(tree, rep)
    r5_r6(tree, prog, rep)
    r7(tree, rep, tier)


_CODE = "src/wormhole/_code.py"
_BOSS = "src/wormhole/_boss.py"
MUTANTS = [
    Mutant("to_bytes-no-normalise", UTIL, "    return unicodedata.normalize(\"NFC\", u).encode(\"utf-8\")", "    return u.encode(\"utf-8\")", "C01.R1"),
    Mutant("to_bytes-NFKC", UTIL, "unicodedata.normalize(\"NFC\", u)", "unicodedata.normalize(\"NFKC\", u)", "C01.R1"),
    Mutant("identity-hardwired", KEY, "idSymmetric=to_bytes(self._appid))", "idSymmetric=b\"wormhole\")", "C01.R2"),
    Mutant("password-lower", KEY, "                to_bytes(code), idSymmetric", "                to_bytes(code.lower()), idSymmetric", "C01.R2"),
    Mutant("password-raw-encode", KEY, "                to_bytes(code), idSymmetric", "                code.encode(\"utf-8\"), idSymmetric", "C01.R2"),
    Mutant("finish-input-strip", _CODE, "    def do_finish_input(self, code):\n        self._B.got_code(code)\n        self._K.got_code(code)",
           "    def do_finish_input(self, code):\n        self._B.got_code(code)\n        self._K.got_code(code.strip())", "C01.R3"),
    Mutant("derive_key-no-purpose", KEY, "    return HKDF(key, length, CTXinfo=purpose)", "    return HKDF(key, length)", "C01.R4"),
    Mutant("wormhole-derive-raw", WH, "        return derive_key(self._key, to_bytes(purpose), length)\n\n    # todo: note that only",
           "        return derive_key(self._key, purpose.encode(\"utf-8\"), length)\n\n    # todo: note that only", "C01.R4"),
    Mutant("hkdf-info-as-salt", UTIL, "        outlen,\n        salt,\n        CTXinfo,\n", "        outlen,\n        CTXinfo,\n        salt,\n", "C01.R4"),
    Mutant("verifier-with-side", REC, "derive_key(self._key, b\"wormhole:verifier\")", "derive_key(self._key, b\"wormhole:verifier:\" + self._side.encode())", "C01.R5"),
    Mutant("bad-delivers", REC, "        got_message_bad, enter=S3_scared, outputs=[W_scared])\n    S2_verified_key",
           "        got_message_bad, enter=S3_scared, outputs=[W_scared, W_got_message])\n    S2_verified_key", "C01.R6"),
    Mutant("lonely-delivers", _BOSS, "    S1_lonely.upon(happy, enter=S2_happy, outputs=[])\n",
           "    S1_lonely.upon(happy, enter=S2_happy, outputs=[])\n    S1_lonely.upon(_got_phase, enter=S1_lonely, outputs=[W_received])\n", "C01.R6"),
    Mutant("crypto-error-falls-through", REC, "        except CryptoError:\n            self.got_message_bad()\n            return\n",
           "        except CryptoError:\n            self.got_message_bad()\n            plaintext = body\n", "C01.R6"),
]
REWRITES = [
    Rewrite("to_bytes-via-local", UTIL, "    return unicodedata.normalize(\"NFC\", u).encode(\"utf-8\")",
            "    n = unicodedata.normalize(\"NFC\", u)\n    return n.encode(\"utf-8\")", desc="normalised string through a local"),
    Rewrite("password-via-local", KEY, "            self._sp = SPAKE2_Symmetric(\n                to_bytes(code), idSymmetric=to_bytes(self._appid))",
            "            pw = to_bytes(code)\n            self._sp = SPAKE2_Symmetric(\n                pw, idSymmetric=to_bytes(self._appid))", desc="password through a local"),
    Rewrite("derive_key-positional", KEY, "    return HKDF(key, length, CTXinfo=purpose)", "    return HKDF(key, length, None, purpose)", desc="CTXinfo passed positionally"),
]
