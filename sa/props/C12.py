"""C12 — L2 framing / encryption / record encoding is lossless and rejects unkeyed input."""
import ast

from ..srcmodel import AnalysisError, site
from ..automat_x import Program
from ..astutil import dotted, const, params, local_defs, is_self_attr, calls_named, same_expr, walk_shallow
from ..dataflow import expand, expand_flow, call_arg
from ..cfg import build
from ..siblings import eval_int, slice_bounds
from ..tablerules import rows_calling, row_calls
from ..selftest import Mutant, Rewrite

EXPLANATION = ("(R1) encoder/decoder layout agreement for all seven record types (tag, offsets, widths, field order mapped through "
               "the namedtuple definitions), same struct format in to_be4/from_be4, ping ids are 4 bytes at every producer. (R2) "
               "NOISE_MAX_CIPHERTEXT - NOISE_MAX_PAYLOAD == 16; the sender partitions the plaintext by NOISE_MAX_PAYLOAD and the "
               "receiver the ciphertext by NOISE_MAX_CIPHERTEXT with matching thresholds. (R3) frame writer/reader agree on the "
               "4-byte length prefix. (R4) every Noise read/decrypt is inside a handler turning NoiseInvalidMessage into Disconnect; "
               "a diverging prologue raises Disconnect only on divergence; dataReceived turns Disconnect into loseConnection. (R5) "
               "role table of build_protocol. (R6) records reach the manager only in state selected. Noise itself is trusted.")
TRUSTED_BASE = ["T1", "T2", "T4"]
MIN_OBLIGATIONS = 40

CON = "src/wormhole/_dilation/connection.py"
CTR = "src/wormhole/_dilation/connector.py"
ENC = "src/wormhole/_dilation/encode.py"
NOI = "src/wormhole/_dilation/_noise.py"
MGR = "src/wormhole/_dilation/manager.py"


def _namedtuples(tree):
    out = {}
    for n in tree.ast(CON).body:
        if isinstance(n, ast.Assign) and isinstance(n.value, ast.Call) and dotted(n.value.func) == "namedtuple" and len(n.value.args) == 2 \
                and isinstance(n.targets[0], ast.Name) and isinstance(n.value.args[1], (ast.List, ast.Tuple)):
            out[n.targets[0].id] = [const(e) for e in n.value.args[1].elts]
    return out


def _tags(tree):
    return {k: const(v) for k, v in tree.module_constants(CON).items() if k.startswith("T_") and isinstance(const(v), bytes)}


def encoder_layouts(tree, fields, tags):
    """record type -> (tag bytes, [(kind, field)]) with kind in be4 / raw / utf8.
    encode_record is evaluated per record type: isinstance(r, T) tests are decided, everything else followed both ways."""
    from ..cfg import build as _b
    from ..astutil import concat_terms
    fn = tree.func(CON, None, "encode_record")
    r = params(fn, False)[0]
    g = _b(fn, split=True)
    tested = set()
    for n in ast.walk(fn):
        if isinstance(n, ast.Call) and dotted(n.func) == "isinstance" and len(n.args) == 2 and dotted(n.args[0]) == r and dotted(n.args[1]):
            tested.add(dotted(n.args[1]))
    out = {}
    for rtype in sorted(tested):
        def oracle(test, rtype=rtype):
            if isinstance(test, ast.Call) and dotted(test.func) == "isinstance" and len(test.args) == 2 and dotted(test.args[0]) == r \
                    and dotted(test.args[1]):
                return dotted(test.args[1]) == rtype
            return None
        vals = []
        for nodes, end in g.paths_under(oracle):
            if end != 'exit':
                continue
            rets = [x for x in nodes if isinstance(g.stmt[x], ast.Return)]
            if len(rets) == 1 and g.stmt[rets[0]].value is not None:
                vals.append(g.subst_env(g.stmt[rets[0]].value, g.path_env(nodes, rets[0])))
        if len({ast.dump(v) for v in vals}) != 1:
            raise AnalysisError("encode_record has no single return value for %s" % rtype)
        terms = concat_terms(vals[0])
        tag = tags.get(dotted(terms[0])) if dotted(terms[0]) else const(terms[0])
        lay = []
        for t in terms[1:]:
            if isinstance(t, ast.Call) and dotted(t.func) == "to_be4" and dotted(t.args[0]) and dotted(t.args[0]).startswith(r + "."):
                lay.append(("be4", dotted(t.args[0]).split(".", 1)[1]))
            elif isinstance(t, ast.Call) and isinstance(t.func, ast.Attribute) and t.func.attr == "encode" and dotted(t.func.value) \
                    and str(const(t.args[0]) if t.args else "utf-8").lower().replace("-", "") == "utf8":
                lay.append(("utf8", dotted(t.func.value).split(".", 1)[1]))
            elif dotted(t) and dotted(t).startswith(r + "."):
                lay.append(("raw", dotted(t).split(".", 1)[1]))
            else:
                lay.append(("?", ast.unparse(t)))
        out[rtype] = (tag, lay)
    return out


def _terms(node):
    from ..astutil import concat_terms
    return concat_terms(node)


def decoder_layouts(tree, fields, tags):
    """record type -> (tag, [(kind, field, lo, hi)]).  parse_record is evaluated per tag value."""
    from ..cfg import build as _b
    fn = tree.func(CON, None, "parse_record")
    p = params(fn, False)[0]
    g = _b(fn, split=True)

    def is_tag_expr(e):
        sb = slice_bounds(e)
        return sb is not None and isinstance(sb[0], ast.Name) and sb[0].id == p and (eval_int(sb[1]) if sb[1] is not None else 0) == 0 \
            and eval_int(sb[2]) == 1
    mt = [n for n in ast.walk(fn) if isinstance(n, ast.Assign) and isinstance(n.targets[0], ast.Name) and is_tag_expr(n.value)]
    if len(mt) != 1:
        raise AnalysisError("parse_record does not take the tag from plaintext[0:1]")
    tagvar = mt[0].targets[0].id

    def tag_of(e):
        return tags.get(dotted(e)) if dotted(e) else const(e)
    cmp_tags = []
    for n in ast.walk(fn):
        if isinstance(n, ast.Compare) and len(n.ops) == 1 and isinstance(n.ops[0], (ast.Eq, ast.NotEq)):
            for a, b in ((n.left, n.comparators[0]), (n.comparators[0], n.left)):
                if isinstance(a, ast.Name) and a.id == tagvar and isinstance(tag_of(b), bytes):
                    cmp_tags.append(tag_of(b))
    out = {}
    for tag in sorted(set(cmp_tags)):
        def oracle(test, tag=tag):
            if isinstance(test, ast.Compare) and len(test.ops) == 1 and isinstance(test.ops[0], (ast.Eq, ast.NotEq)):
                for a, b in ((test.left, test.comparators[0]), (test.comparators[0], test.left)):
                    if isinstance(a, ast.Name) and a.id == tagvar and isinstance(tag_of(b), bytes):
                        eq = tag_of(b) == tag
                        return eq if isinstance(test.ops[0], ast.Eq) else (not eq)
            return None
        ctors = []
        for nodes, end in g.paths_under(oracle):
            if end != 'exit':
                continue
            rets = [x for x in nodes if isinstance(g.stmt[x], ast.Return)]
            if len(rets) == 1 and g.stmt[rets[0]].value is not None:
                ctors.append(g.subst_env(g.stmt[rets[0]].value, g.path_env(nodes, rets[0])))
        if len({ast.dump(c) for c in ctors}) != 1 or not isinstance(ctors[0], ast.Call):
            raise AnalysisError("parse_record branch for tag %r has no single constructor return" % tag)
        ctor = ctors[0]
        rtype = dotted(ctor.func)
        fl = fields.get(rtype)
        if fl is None or len(ctor.args) != len(fl) or ctor.keywords:
            raise AnalysisError("parse_record: constructor %s does not match its namedtuple definition" % rtype)
        lay = []
        for fieldname, v in zip(fl, ctor.args):
            kind = "raw"
            inner = v
            if isinstance(v, ast.Call) and dotted(v.func) == "from_be4":
                kind, inner = "be4", v.args[0]
            elif isinstance(v, ast.Call) and dotted(v.func) == "str" and len(v.args) == 2 and str(const(v.args[1])).lower().replace("-", "") == "utf8":
                kind, inner = "utf8", v.args[0]
            elif isinstance(v, ast.Call) and isinstance(v.func, ast.Attribute) and v.func.attr == "decode" \
                    and str(const(v.args[0]) if v.args else "utf-8").lower().replace("-", "") == "utf8":
                kind, inner = "utf8", v.func.value
            sb = slice_bounds(inner)
            if sb is None or not (isinstance(sb[0], ast.Name) and sb[0].id == p):
                lay.append(("?", fieldname, None, None))
            else:
                lay.append((kind, fieldname, eval_int(sb[1]) if sb[1] is not None else 0, eval_int(sb[2]) if sb[2] is not None else None))
        out[rtype] = (tag, lay)
    return out


def _range_guard(fn):
    """(lo, hi) such that the function raises unless lo <= value < hi, read off its raising guard; None if not recognised.
    Accepted spellings: `if not lo <= v < hi`, `if v < lo or v >= hi`, `if not (lo <= v and v < hi)`, with <= hi-1 variants."""
    from ..cfg import build as _b
    p0 = params(fn, False)[0]
    g = _b(fn, split=True)
    lo = hi = None
    is_v = lambda e: isinstance(e, ast.Name) and e.id == p0

    def note(cmp_left, op, cmp_right, truth):
        """the comparison `left op right` has value `truth` on the accepted (non-raising) path"""
        nonlocal lo, hi
        l, r = cmp_left, cmp_right
        if is_v(r) and not is_v(l):
            l, r = r, l
            op = {ast.Lt: ast.Gt, ast.Gt: ast.Lt, ast.LtE: ast.GtE, ast.GtE: ast.LtE}.get(op, op)
        k = eval_int(r)
        if not is_v(l) or k is None:
            return
        if not truth:
            op = {ast.Lt: ast.GtE, ast.GtE: ast.Lt, ast.Gt: ast.LtE, ast.LtE: ast.Gt}.get(op, op)
        if op is ast.GtE:
            lo = k
        elif op is ast.Gt:
            lo = k + 1
        elif op is ast.Lt:
            hi = k
        elif op is ast.LtE:
            hi = k + 1
    # walk the conditions: on an edge from which the normal exit is reachable without a raise the condition has that value
    raises = set(g.nodes(lambda s: isinstance(s, ast.Raise)))
    for n, s in g.stmt.items():
        test = s[1] if (isinstance(s, tuple) and s[0] == "COND") else (s.test if isinstance(s, ast.If) and not g._is_compound_test(s.test) else None)
        if test is None:
            continue
        neg = False
        while isinstance(test, ast.UnaryOp) and isinstance(test.op, ast.Not):
            neg = not neg
            test = test.operand
        if not isinstance(test, ast.Compare):
            continue
        for (y, lab) in g.succ[n]:
            if lab not in ('T', 'F'):
                continue
            reach = g.reach([y], explicit_only=True)
            accepted = g.exit in reach and not (reach & raises and g.exit not in g.reach([y], avoid_nodes=raises, explicit_only=True))
            always_raises = g.exit not in reach
            if always_raises:
                continue
            val = (lab == 'T') != neg
            # chained comparison lo <= v < hi
            left = test.left
            for op, right in zip(test.ops, test.comparators):
                if val:
                    note(left, type(op), right, True)
                elif len(test.ops) == 1:
                    note(left, type(op), right, False)
                left = right
    return (lo, hi) if lo is not None and hi is not None else None


def r1(tree, rep):
    fields = _namedtuples(tree)
    tags = _tags(tree)
    enc = encoder_layouts(tree, fields, tags)
    dec = decoder_layouts(tree, fields, tags)
    recs = tree.module_constants(CON).get("Records")
    rec_names = [dotted(e) for e in recs.elts] if isinstance(recs, (ast.Tuple, ast.List)) else []
    rep.check("C12.R1", "encoder, decoder and the Records tuple cover the same record types %s" % sorted(rec_names),
              set(enc) == set(dec) == set(rec_names) and len(rec_names) == 7, CON, key="C12.R1:types",
              what="encoder handles %s, decoder %s, Records lists %s" % (sorted(enc), sorted(dec), sorted(rec_names)))
    rep.check("C12.R1", "record tags are distinct single bytes", len(set(t for t, _ in enc.values())) == len(enc)
              and all(isinstance(t, bytes) and len(t) == 1 for t, _ in enc.values()), CON, key="C12.R1:tags-distinct")
    for rt in sorted(set(enc) & set(dec)):
        etag, elay = enc[rt]
        dtag, dlay = dec[rt]
        rep.check("C12.R1", "%s: same tag byte on both sides (%r)" % (rt, etag), etag == dtag and etag is not None, CON, key="C12.R1:%s:tag" % rt,
                  what="%s is written with tag %r and read under tag %r" % (rt, etag, dtag))
        # encoder stream offsets
        off = 1
        eoffs = {}
        okshape = True
        for i, (kind, f) in enumerate(elay):
            if kind == "be4":
                eoffs[f] = (kind, off, off + 4)
                off += 4
            elif kind in ("raw", "utf8"):
                eoffs[f] = (kind, off, None)
                if i != len(elay) - 1:
                    okshape = False
            else:
                okshape = False
        doffs = {f: (kind, lo, hi) for (kind, f, lo, hi) in dlay}
        # a trailing variable field on the encoder side may be read as a bounded slice only under a width side condition (R1b)
        agree = okshape and set(eoffs) == set(doffs) == set(fields.get(rt, []))
        bounded_tail = []
        if agree:
            for f in eoffs:
                ek, elo, ehi = eoffs[f]
                dk, dlo, dhi = doffs[f]
                if (ek, elo, ehi) == (dk, dlo, dhi):
                    continue
                if ek == "raw" and dk == "raw" and elo == dlo and ehi is None and dhi is not None:
                    bounded_tail.append((f, dhi - dlo))
                    continue
                agree = False
        rep.check("C12.R1", "%s: every field is written and read at the same offset, width and encoding (%s)" % (rt, elay), agree, CON,
                  key="C12.R1:%s:layout" % rt, what="%s: encoder layout %s vs decoder layout %s" % (rt, elay, dlay))
        for f, width in bounded_tail:
            _ping_id_width(tree, rep, rt, f, width)
    # to_be4 / from_be4
    tb, fb = tree.func(ENC, None, "to_be4"), tree.func(ENC, None, "from_be4")
    structs = {k: const(v.args[0]) for k, v in tree.module_constants(ENC).items()
               if isinstance(v, ast.Call) and dotted(v.func) == "struct.Struct" and v.args}

    def fmts(fn, meth):
        out = [const(c.args[0]) for c in ast.walk(fn) if isinstance(c, ast.Call) and dotted(c.func) == "struct." + meth]
        # a precompiled struct.Struct(fmt) constant:  _BE4.pack(v) / _BE4.unpack(b)
        out += [structs[c.func.value.id] for c in ast.walk(fn) if isinstance(c, ast.Call) and isinstance(c.func, ast.Attribute)
                and c.func.attr == meth and isinstance(c.func.value, ast.Name) and c.func.value.id in structs]
        return out
    fm1, fm2 = fmts(tb, "pack"), fmts(fb, "unpack")
    # the encoder's own domain check is exactly 0 <= value < 2**32 (what from_be4 can return)
    bounds = _range_guard(tb)
    rep.check("C12.R1", "to_be4 accepts exactly the values 0 .. 2**32-1 (rejects %s)" % (bounds,), bounds == (0, 2 ** 32), site(tb, ENC),
              key="C12.R1:to_be4-domain", what="to_be4 accepts the range %s instead of [0, 2**32): a legal 32-bit id / seqnum cannot be encoded "
              "(or an illegal one is)" % (bounds,))
    rep.check("C12.R1", "to_be4/from_be4 use the same 4-byte big-endian struct format", fm1 == fm2 == [">L"] or (fm1 == fm2 and len(fm1) == 1 and fm1[0] in (">L", ">I", "!L", "!I")),
              ENC, key="C12.R1:be4-format", what="to_be4 packs %s, from_be4 unpacks %s" % (fm1, fm2))


def _ping_id_width(tree, rep, rt, f, width):
    """side condition: the encoder writes <field> unbounded, the decoder reads `width` bytes: every producer must be `width` bytes"""
    # producers: constructor calls of rt outside parse_record
    n = 0
    for p in tree.paths():
        if "/_dilation/" not in p:
            continue
        for c in ast.walk(tree.ast(p)):
            if isinstance(c, ast.Call) and isinstance(c.func, ast.Name) and c.func.id == rt and c.args:
                from ..astutil import enclosing_function
                fn = enclosing_function(c)
                if fn is not None and fn.name == "parse_record":
                    continue
                n += 1
                arg = c.args[0]
                ok = False
                why = "argument %s" % ast.unparse(arg)
                if isinstance(arg, ast.Name) and fn is not None and arg.id in params(fn):
                    # follow one level: callers of this function
                    ok = _callers_pass_width(tree, fn.name, params(fn).index(arg.id), width)
                    why = "parameter %s of %s (callers checked)" % (arg.id, fn.name)
                rep.check("C12.R1", "%s.%s written without a length is read as %d bytes: producer %s passes exactly %d bytes" % (rt, f, width, why, width),
                          ok, site(c, p), key="C12.R1:%s:%s-width:%s" % (rt, f, fn.name if fn else "?"),
                          what="a %s whose %s is not %d bytes long would not round-trip" % (rt, f, width))
    if n == 0:
        raise AnalysisError("no producer of %s found" % rt)


def _callers_pass_width(tree, fname, argpos, width, depth=2):
    ok_all = True
    found = 0
    for p in tree.paths():
        if "/_dilation/" not in p:
            continue
        for c in ast.walk(tree.ast(p)):
            if isinstance(c, ast.Call) and (dotted(c.func) or "").endswith("." + fname) and len(c.args) > argpos:
                found += 1
                a = c.args[argpos]
                from ..astutil import enclosing_function
                fn = enclosing_function(c)
                if isinstance(a, ast.Name) and fn is not None and a.id not in params(fn):
                    from ..astutil import resolve_local as _rl
                    a = _rl(fn, a)
                if isinstance(a, ast.Call) and dotted(a.func) == "os.urandom" and eval_int(a.args[0]) == width:
                    continue
                if dotted(a) and dotted(a).endswith(".ping_id"):
                    continue    # came out of parse_record (a decoded record field): already `width` bytes
                if isinstance(a, ast.Name) and fn is not None and a.id in params(fn) and depth > 0:
                    if _callers_pass_width(tree, fn.name, params(fn).index(a.id), width, depth - 1):
                        continue
                ok_all = False
    return ok_all and found > 0


def _chunking_ok(fn, K, op):
    """len(whole) <= K: one op(whole); otherwise op over whole[s:s+K] for s = 0, K, 2K, .. < len(whole), results kept in order.
    Accepted loop spellings: `s = 0; while s < len(whole): ..; s += K` and `for s in range(0, len(whole), K)`."""
    from ..cfg import cmp_atom
    g = build(fn, split=True)

    def len_arg(e):
        if isinstance(e, ast.Name):
            e = expand_flow(fn, e, depth=1)
        if isinstance(e, ast.Call) and dotted(e.func) == "len" and len(e.args) == 1:
            return e.args[0]
        return None
    opname = "self._noise." + op
    loops = [n for n in ast.walk(fn) if isinstance(n, (ast.While, ast.For))]
    if len(loops) != 1:
        return False
    lp = loops[0]
    in_loop = {id(x) for b in lp.body for x in ast.walk(b)}
    ops_in = [c for c in ast.walk(fn) if isinstance(c, ast.Call) and dotted(c.func) == opname and id(c) in in_loop]
    ops_out = [c for c in ast.walk(fn) if isinstance(c, ast.Call) and dotted(c.func) == opname and id(c) not in in_loop]
    if len(ops_in) != 1 or len(ops_out) != 1 or len(ops_out[0].args) != 1:
        return False
    whole = ops_out[0].args[0]
    # the loop variable and its range
    if isinstance(lp, ast.While):
        t = lp.test
        if not (isinstance(t, ast.Compare) and len(t.ops) == 1 and isinstance(t.ops[0], ast.Lt) and isinstance(t.left, ast.Name)):
            return False
        sv = t.left.id
        bound = len_arg(t.comparators[0])
        steps = [x for x in lp.body if isinstance(x, ast.AugAssign) and isinstance(x.target, ast.Name) and x.target.id == sv and isinstance(x.op, ast.Add)]
        inits = [x for x in ast.walk(fn) if isinstance(x, ast.Assign) and isinstance(x.targets[0], ast.Name) and x.targets[0].id == sv]
        if not (bound is not None and same_expr(bound, whole) and len(steps) == 1 and dotted(steps[0].value) == K
                and len(inits) == 1 and eval_int(inits[0].value) == 0):
            return False
    else:
        it = lp.iter
        if not (isinstance(lp.target, ast.Name) and isinstance(it, ast.Call) and dotted(it.func) == "range" and len(it.args) == 3
                and eval_int(it.args[0]) == 0 and dotted(it.args[2]) == K and not lp.orelse):
            return False
        sv = lp.target.id
        bound = len_arg(it.args[1])
        if not (bound is not None and same_expr(bound, whole)):
            return False
        if any(isinstance(x, ast.Name) and x.id == sv and isinstance(x.ctx, ast.Store) for b in lp.body for x in ast.walk(b)):
            return False
    # the chunk: whole[sv:sv+K], handed to the op
    sl = [x for b in lp.body for x in ast.walk(b) if isinstance(x, ast.Subscript) and slice_bounds(x)]
    if len(sl) != 1:
        return False
    base, lo, hi = slice_bounds(sl[0])
    if not (same_expr(base, whole) and isinstance(lo, ast.Name) and lo.id == sv and isinstance(hi, ast.BinOp) and isinstance(hi.op, ast.Add)
            and isinstance(hi.left, ast.Name) and hi.left.id == sv and dotted(hi.right) == K):
        return False
    a = ops_in[0].args[0] if len(ops_in[0].args) == 1 else None
    if isinstance(a, ast.Name):
        defs = [x.value for b in lp.body for x in ast.walk(b) if isinstance(x, ast.Assign) and isinstance(x.targets[0], ast.Name)
                and x.targets[0].id == a.id]
        a = defs[0] if len(defs) == 1 else None
    if a is not sl[0]:
        return False
    if any(isinstance(x, (ast.Break, ast.Continue, ast.Return, ast.If)) for b in lp.body for x in ast.walk(b)):
        return False
    # threshold: the single-packet op only when len(whole) <= K, the loop only when it is larger
    def is_len_whole(e):
        w = len_arg(e)
        return w is not None and same_expr(w, whole)
    fits = cmp_atom(is_len_whole, lambda e: dotted(e) == K, (ast.LtE,), (ast.Gt,))
    single_n = g.call_nodes(lambda c: c is ops_out[0])
    loop_n = [g.node_of(lp)]
    return bool(g.cond_edges(fits, True)) and not g.only_when(single_n, fits, True) and not g.only_when(loop_n, fits, False)


def r2(tree, rep):
    consts = tree.module_constants(NOI)
    P, Ct = eval_int(consts.get("NOISE_MAX_PAYLOAD")), eval_int(consts.get("NOISE_MAX_CIPHERTEXT"))
    rep.check("C12.R2", "NOISE_MAX_CIPHERTEXT - NOISE_MAX_PAYLOAD == 16 (the AEAD tag) and the ciphertext limit is 65535", P is not None and Ct is not None
              and Ct - P == 16 and Ct == 65535, NOI, key="C12.R2:constants", what="NOISE_MAX_PAYLOAD=%s NOISE_MAX_CIPHERTEXT=%s" % (P, Ct))
    for cls, meth, K, subj_desc, op in (("_Record", "send_record", "NOISE_MAX_PAYLOAD", "plaintext", "encrypt"),
                                         ("_Record", "decrypt_message", "NOISE_MAX_CIPHERTEXT", "ciphertext", "decrypt")):
        fn = tree.func(CON, cls, meth)
        ok = _chunking_ok(fn, K, op)
        rep.check("C12.R2", "%s.%s: a %s of at most %s is one Noise packet, a longer one is partitioned front to back into chunks of exactly %s"
                  % (cls, meth, subj_desc, K, K), ok, site(fn, CON), key="C12.R2:%s:chunking" % meth,
                  what="%s no longer partitions the %s into non-empty chunks of %s (boundary sizes would be lost or rejected)" % (meth, subj_desc, K))
    sr = tree.func(CON, "_Record", "send_record")
    er = calls_named(sr, "encode_record")
    sf = calls_named(sr, "self._framer.send_frame")
    rep.check("C12.R2", "send_record encodes the record once and sends one frame", len(er) == 1 and len(sf) == 1, site(sr, CON), key="C12.R2:send_record:shape")
    dm = tree.func(CON, "_Record", "decrypt_message")
    rets = [r for r in walk_shallow(dm) if isinstance(r, ast.Return)]
    ok = len(rets) == 1 and isinstance(rets[0].value, ast.Call) and dotted(rets[0].value.func) == "parse_record"
    rep.check("C12.R2", "decrypt_message parses exactly the decrypted plaintext", ok, site(dm, CON), key="C12.R2:decrypt_message:parse")


def r3(tree, rep):
    sf = tree.func(CON, "_Framer", "send_frame")
    w = calls_named(sf, "self._transport.write")
    ok = len(w) == 1
    if ok:
        t = _terms(w[0].args[0])
        f = params(sf)[0]
        ok = len(t) == 2 and isinstance(t[0], ast.Call) and dotted(t[0].func) == "to_be4" and isinstance(t[0].args[0], ast.Call) \
            and dotted(t[0].args[0].func) == "len" and dotted(t[0].args[0].args[0]) == f and dotted(t[1]) == f
    rep.check("C12.R3", "send_frame writes to_be4(len(frame)) + frame", ok, site(sf, CON), key="C12.R3:writer")
    pf = tree.func(CON, "_Framer", "parse_frame")
    from ..cfg import ge_atom
    from ..siblings import local_int_env
    from ..astutil import resolve_local
    env = local_int_env(pf)
    ev = lambda e: eval_int(e, env) if e is not None else None
    rl = lambda e: resolve_local(pf, e) if isinstance(e, ast.Name) and e.id not in env else e
    g = build(pf, split=True)
    # the buffer as it was on entry: self._buffer before its rebinding, or a local snapshot of it taken before the rebinding
    rebind = g.nodes(lambda st: isinstance(st, (ast.Assign, ast.AugAssign)) and any(
        is_self_attr(t, "_buffer") for t in (st.targets if isinstance(st, ast.Assign) else [st.target])))
    after_rebind = g.reach([y for n in rebind for (y, lab) in g.succ[n] if lab != 'exc']) if rebind else set()
    stores = [x.id for x in ast.walk(pf) if isinstance(x, ast.Name) and isinstance(x.ctx, ast.Store)]
    snaps = {a.targets[0].id for a in ast.walk(pf) if isinstance(a, ast.Assign) and len(a.targets) == 1 and isinstance(a.targets[0], ast.Name)
             and is_self_attr(a.value, "_buffer") and stores.count(a.targets[0].id) == 1 and g.node_of(a) not in after_rebind}
    is_buf = lambda e: is_self_attr(e, "_buffer") or (isinstance(e, ast.Name) and e.id in snaps)
    lens = [n for n in ast.walk(pf) if isinstance(n, ast.Assign) and isinstance(n.value, ast.Call) and dotted(n.value.func) == "from_be4"
            and isinstance(n.targets[0], ast.Name)]
    ok = len(lens) == 1
    if ok:
        lv = lens[0].targets[0].id
        sb = slice_bounds(lens[0].value.args[0])
        ok = sb is not None and is_buf(sb[0]) and (ev(sb[1]) if sb[1] is not None else 0) == 0 and ev(sb[2]) == 4

        def four_plus(e):
            e = rl(e)
            return isinstance(e, ast.BinOp) and isinstance(e.op, ast.Add) and (
                (ev(e.left) == 4 and isinstance(e.right, ast.Name) and e.right.id == lv)
                or (ev(e.right) == 4 and isinstance(e.left, ast.Name) and e.left.id == lv))
        is_buflen = lambda e: isinstance(e, ast.Call) and dotted(e.func) == "len" and len(e.args) == 1 and is_buf(e.args[0])
        have_prefix = ge_atom(is_buflen, lambda e: ev(rl(e)) == 4)
        have_frame = ge_atom(is_buflen, four_plus)
        subs = [x for x in ast.walk(pf) if isinstance(x, ast.Subscript) and is_buf(x.value) and slice_bounds(x)]
        sl = [slice_bounds(x) for x in subs]
        body = [x for x in sl if x[1] is not None and ev(rl(x[1])) == 4 and x[2] is not None and four_plus(x[2])]
        rest = [x for x in sl if x[1] is not None and four_plus(x[1]) and x[2] is None]
        ok = ok and len(body) == 1 and len(rest) == 1
        # a slice of self._buffer itself is taken before the buffer is rebound (afterwards it would be a slice of the rest)
        from ..astutil import enclosing_stmt as enclosing_statement
        for x in subs:
            if is_self_attr(x.value, "_buffer"):
                n = g.node_of(enclosing_statement(x))
                ok = ok and (n is None or n not in after_rebind)
        # nothing is yielded (and the length is not even read) before the bytes it needs are there
        fr = g.call_nodes(lambda c: dotted(c.func) == "Frame")
        rd = [g.node_of(lens[0])]
        ok = ok and len(fr) == 1 and bool(g.cond_edges(have_prefix, False)) and bool(g.cond_edges(have_frame, False)) \
            and not g.only_when(fr, have_prefix, True) and not g.only_when(fr, have_frame, True) and not g.only_when(rd, have_prefix, True)
    rep.check("C12.R3", "parse_frame needs 4 bytes, reads from_be4 of them, needs 4+n, yields exactly buffer[4:4+n] and keeps the rest", ok,
              site(pf, CON), key="C12.R3:reader", what="frame reader and writer disagree on the length prefix / a partial frame can be delivered")


def r4(tree, rep):
    cls = tree.cls(CON, "_Record")
    n = 0
    for m in cls.body:
        if not isinstance(m, ast.FunctionDef):
            continue
        for c in ast.walk(m):
            if isinstance(c, ast.Call) and dotted(c.func) in ("self._noise.read_message", "self._noise.decrypt"):
                n += 1
                tries = [t for t in ast.walk(m) if isinstance(t, ast.Try) and any(c in ast.walk(s) for s in t.body)]
                ok = False
                for t in tries:
                    for h in t.handlers:
                        names = [dotted(h.type)] if h.type is not None and not isinstance(h.type, ast.Tuple) else [dotted(e) for e in getattr(h.type, "elts", [])]
                        if "NoiseInvalidMessage" in names or h.type is None or "Exception" in names:
                            g = build(m)
                            hn = g.node_of(h)
                            rs = [x for x in g.nodes(lambda s: isinstance(s, ast.Raise)) if g.stmt[x].exc is not None
                                  and dotted(g.stmt[x].exc.func if isinstance(g.stmt[x].exc, ast.Call) else g.stmt[x].exc) == "Disconnect"]
                            ok = hn is not None and bool(rs) and g.must_pass(rs, start=hn, to=[g.exit, g.raise_exit], explicit_only=True)
                rep.check("C12.R4", "%s in _Record.%s: an invalid Noise message becomes Disconnect on every path" % (dotted(c.func), m.name), ok,
                          site(c, CON), key="C12.R4:%s:%s" % (m.name, dotted(c.func).split(".")[-1]),
                          what="input not produced with the dilation key is not turned into a dropped connection")
    if n < 3:
        raise AnalysisError("fewer Noise read/decrypt sites than expected (%d)" % n)
    ge = tree.func(CON, "_Framer", "_get_expected")
    g = build(ge)
    rs = [x for x in g.nodes(lambda s: isinstance(s, ast.Raise))]
    exp = params(ge)[1]
    # what a match consumes: exactly the expected bytes (whatever follows in the same segment stays in the buffer)
    from ..astutil import resolve_local as _rl
    cons = [n for n in ast.walk(ge) if isinstance(n, ast.Assign) and any(is_self_attr(t, "_buffer") for t in n.targets)]
    okc = len(cons) >= 1
    for a in cons:
        sb = slice_bounds(a.value)
        lo = sb[1] if sb else None
        if isinstance(lo, ast.Name):
            lo = _rl(ge, lo)
        okc = okc and sb is not None and is_self_attr(sb[0], "_buffer") and sb[2] is None and isinstance(lo, ast.Call) and dotted(lo.func) == "len" \
            and len(lo.args) == 1 and isinstance(lo.args[0], ast.Name) and lo.args[0].id == exp
    # a complete match wins over everything else: Disconnect is raised only when the buffer does NOT start with the expected bytes
    from ..cfg import truthy_atom as _ta
    gg = build(ge, split=True)
    complete = _ta(lambda e: isinstance(e, ast.Call) and isinstance(e.func, ast.Attribute) and e.func.attr == "startswith"
                   and is_self_attr(e.func.value, "_buffer") and len(e.args) == 1 and isinstance(e.args[0], ast.Name) and e.args[0].id == exp)
    rs2 = gg.nodes(lambda s: isinstance(s, ast.Raise))
    rep.check("C12.R4", "_get_expected raises Disconnect only when the buffer does not start with the expected bytes (a match that is followed "
              "by more bytes in the same segment is a match)", bool(rs2) and bool(gg.cond_edges(complete, True)) and not gg.only_when(rs2, complete, False),
              site(ge, CON), key="C12.R4:_get_expected:match-first",
              what="a correct prologue / relay reply followed by further bytes in the same read is treated as a bad one: the honest connection is dropped")
    rep.check("C12.R4", "_get_expected consumes exactly len(expected) bytes of the buffer on a match", okc, site(cons[0], CON) if cons else site(ge, CON),
              key="C12.R4:_get_expected:consume",
              what="after the relay reply / prologue is recognised, bytes that arrived in the same segment (the handshake frame) are discarded or kept twice")
    def diverge(t):
        neg = False
        while isinstance(t, ast.UnaryOp) and isinstance(t.op, ast.Not):
            neg = not neg
            t = t.operand
        if isinstance(t, ast.Call) and isinstance(t.func, ast.Attribute) and t.func.attr == "startswith" and isinstance(t.func.value, ast.Name) \
                and t.func.value.id == exp and is_self_attr(t.args[0], "_buffer"):
            return neg
        return None
    dv = [(n, diverge(g.stmt[n].test)) for n in g.nodes(lambda s: isinstance(s, ast.If))]
    dv = [(n, neg) for n, neg in dv if neg is not None]
    full = [n for n in g.nodes(lambda s: isinstance(s, ast.If)) if isinstance(g.stmt[n].test, ast.Call) and isinstance(g.stmt[n].test.func, ast.Attribute)
            and g.stmt[n].test.func.attr == "startswith" and is_self_attr(g.stmt[n].test.func.value, "_buffer")]
    rets = {const(g.stmt[n].value): n for n in g.nodes(lambda s: isinstance(s, ast.Return))}
    ok = len(rs) >= 1 and len(dv) == 1 and len(full) == 1 and True in rets
    if ok:
        n, neg = dv[0]
        lab = 'T' if neg else 'F'
        ok = not g.guarded_by([n], rs, lab) and not g.guarded_by(full, [rets[True]], 'T')
    rep.check("C12.R4", "_get_expected: Disconnect is raised only when the buffer diverges from the expected bytes; True only on a full match", ok,
              site(ge, CON), key="C12.R4:_get_expected", what="a correct but still incomplete prologue/relay reply can be rejected (or a wrong one accepted)")
    dr = tree.func(CON, "DilatedConnectionProtocol", "dataReceived")
    g = build(dr)
    hs = [n for n in g.nodes(lambda s: isinstance(s, ast.ExceptHandler)) if dotted(g.stmt[n].type) == "Disconnect"]
    lose = g.call_nodes(lambda c: dotted(c.func) == "self.transport.loseConnection")
    ok = len(hs) == 1 and bool(lose) and g.must_pass(lose, start=hs[0], to=[g.exit, g.raise_exit], explicit_only=True)
    tr = [t for t in ast.walk(dr) if isinstance(t, ast.Try)]
    ok = ok and any(any(isinstance(c, ast.Call) and dotted(c.func) == "self._record.add_and_unframe" for s in t.body for c in ast.walk(s)) for t in tr)
    rep.check("C12.R4", "dataReceived turns Disconnect into loseConnection and covers the whole unframing loop", ok, site(dr, CON), key="C12.R4:dataReceived")


def r5(tree, rep):
    fn = tree.func(CTR, "Connector", "build_protocol")
    g = build(fn, split=True)
    tab = {}
    ok = True
    # the constructor call and its arguments by field (positional or keyword), whatever the locals are called
    from ..automat_x import Program
    fields = [f.lstrip("_") for f in Program(tree).cls("DilatedConnectionProtocol").attr_fields]
    ctor = [c for c in ast.walk(fn) if isinstance(c, ast.Call) and dotted(c.func) == "DilatedConnectionProtocol"]

    def ctor_arg(name):
        if len(ctor) != 1 or name not in fields:
            return None
        return call_arg(ctor[0], fields.index(name), name)
    pro_args = {"outbound_prologue": ctor_arg("outbound_prologue"), "inbound_prologue": ctor_arg("inbound_prologue")}
    for role in ("leader", "follower"):
        unknown = []

        def oracle(t, role=role):
            if isinstance(t, ast.Compare) and len(t.ops) == 1 and is_self_attr(t.left, "_role") and dotted(t.comparators[0]) in ("LEADER", "FOLLOWER") \
                    and isinstance(t.ops[0], (ast.Is, ast.Eq, ast.IsNot, ast.NotEq)):
                same = (dotted(t.comparators[0]) == "LEADER") == (role == "leader")
                return same if isinstance(t.ops[0], (ast.Is, ast.Eq)) else (not same)
            unknown.append(t)
            return None
        paths = [pp for pp in g.paths_under(oracle) if pp[1] == 'exit']
        if unknown or len(paths) != 1:
            ok = False
            tab[role] = {}
            continue
        nodes = paths[0][0]
        envp = g.path_env(nodes)
        d = {}
        for x in nodes:
            st = g.stmt[x]
            if isinstance(st, ast.Expr) and isinstance(st.value, ast.Call) and (dotted(st.value.func) or "").startswith("noise.set_as_"):
                d["noise"] = dotted(st.value.func)
        for k, a in pro_args.items():
            if a is not None:
                d[k] = dotted(g.subst_env(a, envp))
        tab[role] = d
    L, F = tab.get("leader", {}), tab.get("follower", {})
    rep.check("C12.R5", "leader is the Noise initiator, follower the responder", ok and L.get("noise", "").endswith("set_as_initiator")
              and F.get("noise", "").endswith("set_as_responder"), site(fn, CTR), key="C12.R5:noise-role", what="roles: %s / %s" % (L.get("noise"), F.get("noise")))
    rep.check("C12.R5", "what one role sends as prologue the other expects", ok and L.get("outbound_prologue") == F.get("inbound_prologue")
              and F.get("outbound_prologue") == L.get("inbound_prologue") and L.get("outbound_prologue") != L.get("inbound_prologue")
              and L.get("outbound_prologue") is not None, site(fn, CTR), key="C12.R5:prologues", what="prologue table %s" % tab)
    psk = [c for c in ast.walk(fn) if isinstance(c, ast.Call) and (dotted(c.func) or "").endswith(".set_psks")]
    g = build(fn)
    pn = g.call_nodes(lambda c: (dotted(c.func) or "").endswith(".set_psks"))
    ok = len(psk) == 1 and is_self_attr(psk[0].args[0], "_dilation_key") and g.must_pass(pn)
    rep.check("C12.R5", "both roles key Noise with the dilation key", ok, site(fn, CTR), key="C12.R5:psk")
    ok = len(ctor) == 1 and all(pro_args.values())
    if ok:
        ok = dotted(ctor_arg("noise")) == "noise" and dotted(ctor_arg("role")) == "self._role" \
            and not same_expr(pro_args["outbound_prologue"], pro_args["inbound_prologue"])
    rep.check("C12.R5", "the protocol is built with (role, noise, outbound prologue, inbound prologue) in that order", ok, site(fn, CTR), key="C12.R5:ctor-args")
    pl, pf_ = tree.module_constants(CTR).get("PROLOGUE_LEADER"), tree.module_constants(CTR).get("PROLOGUE_FOLLOWER")
    rep.check("C12.R5", "the two prologues differ and end in a blank line", isinstance(const(pl), bytes) and isinstance(const(pf_), bytes) and const(pl) != const(pf_)
              and const(pl).endswith(b"\n\n") and const(pf_).endswith(b"\n\n"), CTR, key="C12.R5:prologue-constants")
    cm = tree.func(CON, "DilatedConnectionProtocol", "connectionMade")
    fr = [c for c in ast.walk(cm) if isinstance(c, ast.Call) and dotted(c.func) == "_Framer"]
    ok = len(fr) == 1 and [dotted(a) for a in fr[0].args] == ["self.transport", "self._outbound_prologue", "self._inbound_prologue"]
    rep.check("C12.R5", "the framer gets (transport, outbound prologue, inbound prologue)", ok, site(cm, CON), key="C12.R5:framer-args")


def r6(tree, rep):
    prog = Program(tree)
    D = prog.machine("DilatedConnectionProtocol")
    rows = rows_calling(D, "self._manager.got_record")
    sel = [r.enter for r in D.rows_on("select")]
    ok = bool(rows) and len(set(sel)) == 1 and all(r.enter == sel[0] for r, o in rows)
    rep.check("C12.R6", "manager.got_record is called only by rows of/into state `selected` (%s)" % [(r.src, r.inp) for r, o in rows], ok,
              rows[0][0].site if rows else D.file, key="C12.R6:got_record-rows",
              what="records can reach the manager from an unselected connection")
    for r in D.rows_on("got_record"):
        if r.src != sel[0]:
            rep.check("C12.R6", "DilatedConnectionProtocol %s.got_record only parks the record" % r.src,
                      not any(c == "self._manager.got_record" for c in row_calls(D, r)), r.site, key="C12.R6:%s.got_record" % r.src)
    dr = tree.func(CON, "DilatedConnectionProtocol", "dataReceived")
    # tokens handed to got_record come out of add_and_unframe
    fl = [lp for lp in ast.walk(dr) if isinstance(lp, ast.For) and isinstance(lp.iter, ast.Call) and dotted(lp.iter.func) == "self._record.add_and_unframe"]
    ok = len(fl) == 1 and isinstance(fl[0].target, ast.Name)
    if ok:
        tv = fl[0].target.id
        gr = [c for c in ast.walk(fl[0]) if isinstance(c, ast.Call) and dotted(c.func) == "self.got_record"]
        ok = len(gr) == 1 and isinstance(gr[0].args[0], ast.Name) and gr[0].args[0].id == tv
        outside = [c for c in ast.walk(dr) if isinstance(c, ast.Call) and dotted(c.func) == "self.got_record" and c not in gr]
        ok = ok and not outside
    rep.check("C12.R6", "every token handed to got_record came out of the decrypting unframer", ok, site(dr, CON), key="C12.R6:token-source")
    au = tree.func(CON, "_Record", "add_and_unframe")
    ys = [y for y in ast.walk(au) if isinstance(y, ast.Yield)]
    ok = len(ys) == 1 and isinstance(ys[0].value, ast.Call) and dotted(ys[0].value.func) == "self.got_frame"
    rep.check("C12.R6", "add_and_unframe yields only results of got_frame (handshake processing / decryption)", ok, site(au, CON), key="C12.R6:add_and_unframe")
    R = prog.machine("_Record")
    for r in R.rows_on("got_frame"):
        rep.check("C12.R6", "_Record %s.got_frame processes the frame through Noise (%s)" % (r.src, r.outputs),
                  r.outputs and r.outputs[0] in ("process_handshake", "decrypt_message"), r.site, key="C12.R6:_Record[%s].got_frame" % r.src)


def run(tree, rep, tier):
    from .. import round9 as _r9
    _r9.not_memoised(tree, rep, "C12.R9", "src/wormhole/_dilation/connection.py", "encode_record",
                     "the records are namedtuples and compare as plain tuples - Ping(x) == Pong(x) - so the cache answers a Pong with the bytes of the Ping "
                     "of the same id: the record the peer decodes is not the record that was sent")
    from .. import itermut
    itermut.check(tree, rep, "C12.R8", ("src/wormhole/_dilation/connection.py",),
                  "records parked while the connection waits to be selected are skipped and never reach the manager")
    # R7: every read re-runs the parser: _Framer.add_and_parse appends the bytes and reaches self.parse() on every path (no state besides the
    # buffer decides whether to look at it - a frame that is complete in the buffer is always found)
    ap_ = tree.func(CON, "_Framer", "add_and_parse")
    g_ = build(ap_)
    pn_ = g_.call_nodes(lambda c: dotted(c.func) == "self.parse")
    rep.check("C12.R7", "_Framer.add_and_parse reaches self.parse() on every path", bool(pn_) and g_.must_pass(pn_), site(ap_, CON),
              key="C12.R7:add_and_parse:always-parses",
              what="_Framer.add_and_parse can return without running the parser: a frame that is complete in the buffer is withheld until some "
                   "later read (for ever, if the sender waits for the reply)")
    # ... and a token that was recognised never ends the loop: whatever follows it in the same TCP segment (the peer's prologue right
    # behind the relay's "ok", the handshake frame right behind the prologue) is parsed in the next round
    gs_ = build(ap_, split=True)
    tokvars_ = {a.targets[0].id for a in ast.walk(ap_) if isinstance(a, ast.Assign) and len(a.targets) == 1 and isinstance(a.targets[0], ast.Name)
                and any(isinstance(c, ast.Call) and dotted(c.func) == "self.parse" for c in ast.walk(a.value))}

    def is_token_class_test(x):
        if isinstance(x, ast.Call) and isinstance(x.func, ast.Name) and x.func.id == "isinstance" and len(x.args) == 2 \
                and isinstance(x.args[0], ast.Name) and x.args[0].id in tokvars_:
            return True
        return None
    rec_ = gs_.cond_edges(is_token_class_test, True)
    pn2_ = gs_.call_nodes(lambda c: dotted(c.func) == "self.parse")
    ok_ = bool(rec_) and bool(pn2_) and all(gs_.exit not in gs_.reach([y], avoid_nodes=set(pn2_), explicit_only=True) for (x, y, l) in rec_)
    rep.check("C12.R7", "_Framer.add_and_parse: after a recognised token (%d isinstance branches) the loop always parses again before it can end" % len(rec_),
              ok_, site(ap_, CON), key="C12.R7:add_and_parse:recognised-token-continues",
              what="after one kind of token (the relay's ok) add_and_parse can leave its loop although more bytes of the same segment are buffered: "
                   "a peer prologue that arrives together with the relay reply is never parsed - with a relay, the connection deadlocks")
    from .. import sharedstate
    sharedstate.check(tree, rep, "C12.R0")
    r1(tree, rep)
    r2(tree, rep)
    r3(tree, rep)
    r4(tree, rep)
    r5(tree, rep)
    r6(tree, rep)


MUTANTS = [
    Mutant("encode-swap-fields", CON, "        return T_DATA + to_be4(r.scid) + to_be4(r.seqnum) + r.data", "        return T_DATA + to_be4(r.seqnum) + to_be4(r.scid) + r.data", "C12.R1"),
    Mutant("decode-shifted", CON, "        resp_seqnum = from_be4(plaintext[1:5])", "        resp_seqnum = from_be4(plaintext[2:6])", "C12.R1"),
    Mutant("tag-changed-one-side", CON, "    if msgtype == T_CLOSE:\n        scid", "    if msgtype == T_ACK:\n        scid", "C12.R1"),
    Mutant("be4-little-endian", ENC, "    return struct.pack(\">L\", value)", "    return struct.pack(\"<L\", value)", "C12.R1"),
    Mutant("receiver-chunks-by-payload", CON, "                    ciphertext = frame[start:start + NOISE_MAX_CIPHERTEXT]\n                    message += self._noise.decrypt(ciphertext)\n                    start += NOISE_MAX_CIPHERTEXT",
           "                    ciphertext = frame[start:start + NOISE_MAX_PAYLOAD]\n                    message += self._noise.decrypt(ciphertext)\n                    start += NOISE_MAX_PAYLOAD", "C12.R2"),
    Mutant("max-payload-changed", NOI, "NOISE_MAX_PAYLOAD = (2**16 - 1) - 16", "NOISE_MAX_PAYLOAD = (2**16 - 1)", "C12.R2"),
    Mutant("sender-threshold-lt", CON, "        if len(message) <= NOISE_MAX_PAYLOAD:", "        if len(message) < NOISE_MAX_PAYLOAD - 1:", "C12.R2"),
    Mutant("frame-len-of-message", CON, "        self._transport.write(to_be4(len(frame)) + frame)", "        self._transport.write(to_be4(len(frame) + 4) + frame)", "C12.R3"),
    Mutant("frame-sliced-after-consume", CON, "        frame = self._buffer[4:4 + frame_length]\n        self._buffer = self._buffer[4 + frame_length:]  # TODO: avoid copy",
           "        rest = self._buffer[4 + frame_length:]\n        self._buffer = rest\n        frame = self._buffer[4:4 + frame_length]", "C12.R3"),
    Mutant("noise-error-escapes", CON, "            log.err(e, \"bad inbound noise frame\")\n            raise Disconnect()", "            log.err(e, \"bad inbound noise frame\")\n            return None", "C12.R4"),
    Mutant("prologue-divergence-ignored", CON, "        if not expected.startswith(self._buffer):\n            # we're not on track", "        if True:\n            # we're not on track", "C12.R4"),
    Mutant("disconnect-not-lost", CON, "        except Disconnect:\n            self.transport.loseConnection()", "        except Disconnect:\n            pass", "C12.R4"),
    Mutant("follower-initiator", CTR, "            noise.set_as_responder()", "            noise.set_as_initiator()", "C12.R5"),
    Mutant("same-prologue-both", CTR, "            outbound_prologue = PROLOGUE_FOLLOWER\n            inbound_prologue = PROLOGUE_LEADER", "            outbound_prologue = PROLOGUE_LEADER\n            inbound_prologue = PROLOGUE_FOLLOWER", "C12.R5"),
    Mutant("selecting-delivers", CON, "    selecting.upon(got_record, outputs=[queue_inbound_record], enter=selecting)", "    selecting.upon(got_record, outputs=[deliver_record], enter=selecting)", "C12.R6"),
]
REWRITES = [
    Rewrite("parse-inline-slices", CON, "        resp_seqnum = from_be4(plaintext[1:5])\n        return Ack(resp_seqnum)", "        return Ack(from_be4(plaintext[1:5]))", desc="local inlined in parse_record"),
]
MUTANTS.append(Mutant("relay-ok-ends-the-loop", CON, "            elif isinstance(token, Prologue):", "            if isinstance(token, Prologue):", "C12.R7", "seed C12-16"))
MUTANTS.append(Mutant("drain-queue-while-iterating", CON, "        while self._inbound_record_queue:\n            r = self._inbound_record_queue.pop(0)\n", "        for r in self._inbound_record_queue:\n            self._inbound_record_queue.remove(r)\n", ("C12.R8", "C12.R"), "seed C12-17"))

MUTANTS.append(Mutant("memoised-encoder", CON, "def encode_record(r):\n", "@functools.lru_cache(maxsize=64)\ndef encode_record(r):\n", "C12.R9", "seed C12-19"))
