"""Interface agreement between modules: a method called on a collaborator exists on the collaborator's class.

For every `self.<attr>.<m>(...)` in the package where the class of `self.<attr>` is known - it is wired by a constructor call, an attrs
field whose validator names an interface with one implementer, or (EXTRA) it receives the object that a known factory method builds -
`<m>` must be defined by that class (method, Automat input, class attribute) or by one of its bases; for bases outside the package
only the documented API of the few library classes used here is accepted.  The unit tests cannot see a disagreement: they hand each
class a mock collaborator, which answers every call."""
import ast

from .automat_x import Program
from .astutil import dotted

# library base classes used in the package and the methods / attributes they give their subclasses
LIBRARY_API = {
    "Protocol": {"makeConnection", "connectionMade", "dataReceived", "connectionLost", "logPrefix", "transport", "connected", "factory"},
    "object": set(),
}
# objects whose class is fixed by what a factory method returns and by how they are handed on:
#   (holder class, attribute) -> (class, how we know)
EXTRA_WIRING = {
    ("Inbound", "_connection"): "DilatedConnectionProtocol",
    ("Outbound", "_connection"): "DilatedConnectionProtocol",
    ("Manager", "_connection"): "DilatedConnectionProtocol",
}


def _members(prog, cname, seen=None):
    """(names defined by class cname and its package bases, unknown external bases)"""
    seen = seen or set()
    ci = prog.classes.get(cname)
    if ci is None or cname in seen:
        return set(), {cname}
    seen.add(cname)
    names = set(ci.methods) | set(ci.inputs) | set(ci.outputs) | set(ci.states)
    for st in ci.node.body:
        for t in (st.targets if isinstance(st, ast.Assign) else [st.target] if isinstance(st, ast.AnnAssign) else []):
            if isinstance(t, ast.Name):
                names.add(t.id)
    for fn in ci.node.body:
        if isinstance(fn, (ast.FunctionDef, ast.AsyncFunctionDef)):
            for n in ast.walk(fn):
                if isinstance(n, ast.Attribute) and isinstance(n.ctx, ast.Store) and isinstance(n.value, ast.Name) and n.value.id == "self":
                    names.add(n.attr)
    unknown = set()
    for b in ci.node.bases:
        bn = (dotted(b) or "?").split(".")[-1]
        if bn in prog.classes:
            n2, u2 = _members(prog, bn, seen)
            names |= n2
            unknown |= u2
        elif bn in LIBRARY_API:
            names |= LIBRARY_API[bn]
        else:
            unknown.add(bn)
    return names, unknown


def _verify_extra_wiring(tree, prog):
    """the EXTRA_WIRING table is justified by the code: Connector.build_protocol returns a DilatedConnectionProtocol, the Connector hands
    the selected one to Manager.connector_connection_made, which stores it and hands it to Inbound / Outbound.use_connection, which
    store it in `_connection`"""
    from .srcmodel import AnchorMissing
    K, M = prog.cls("Connector"), prog.cls("Manager")
    bp = K.methods.get("build_protocol")
    if bp is None or not any(isinstance(c, ast.Call) and dotted(c.func) == "DilatedConnectionProtocol" for c in ast.walk(bp)):
        raise AnchorMissing("Connector.build_protocol no longer builds a DilatedConnectionProtocol")
    cm = M.methods.get("connector_connection_made")
    if cm is None:
        raise AnchorMissing("Manager.connector_connection_made not found")
    p0 = [a.arg for a in cm.args.args][1]
    handed = {dotted(c.func) for c in ast.walk(cm) if isinstance(c, ast.Call) and any(isinstance(a, ast.Name) and a.id == p0 for a in c.args)}
    for who, attr in (("Inbound", "self._inbound.use_connection"), ("Outbound", "self._outbound.use_connection")):
        if attr not in handed:
            raise AnchorMissing("Manager.connector_connection_made no longer hands the connection to %s" % attr)
        uc = prog.cls(who).methods.get("use_connection")
        if uc is None or not any(isinstance(a, ast.Assign) and any(isinstance(t, ast.Attribute) and t.attr == "_connection" for t in a.targets)
                                 and isinstance(a.value, ast.Name) for a in ast.walk(uc)):
            raise AnchorMissing("%s.use_connection no longer stores the connection in _connection" % who)


def check(tree, rep, rule, classes):
    prog = Program(tree)
    _verify_extra_wiring(tree, prog)
    n = 0
    for cname in classes:
        ci = prog.cls(cname)
        for fname, fn in list(ci.methods.items()) + list(ci.outputs.items()) + list(ci.inputs.items()):
            for c in ast.walk(fn):
                if not (isinstance(c, ast.Call) and isinstance(c.func, ast.Attribute) and isinstance(c.func.value, ast.Attribute)
                        and isinstance(c.func.value.value, ast.Name) and c.func.value.value.id == "self"):
                    continue
                attr, m = c.func.value.attr, c.func.attr
                tgt = EXTRA_WIRING.get((cname, attr)) or ci.wiring.get(attr)
                if not isinstance(tgt, str) or tgt not in prog.classes:
                    continue
                names, unknown = _members(prog, tgt)
                if unknown:
                    continue        # a base class we know nothing about: cannot decide
                n += 1
                rep.check(rule, "%s.%s calls self.%s.%s(): %s defines it" % (cname, fname, attr, m, tgt), m in names,
                          "%s:%d" % (ci.file, c.lineno), key="%s:%s.%s->%s.%s" % (rule, cname, attr, tgt, m),
                          what="%s.%s calls self.%s.%s(), but the object it is given is a %s, which defines no %s: AttributeError at run time "
                               "(the unit tests pass a mock there)" % (cname, fname, attr, m, tgt, m))
    return n
