"""Alpha-canonicalisation against the reference snapshot of identifier names.

The rules of the checkers name private helpers, attributes, Automat outputs and locals of the tree they were
written for.  A maintainer may rename such identifiers consistently without changing behaviour.  Before any rule
runs, the current syntax trees are compared with a committed snapshot (sa/reference_names.json.gz: for every
function, class body and module body a *shape* - the syntax tree with identifiers blanked - and the identifier
sequence in traversal order).  Where a current function has exactly the shape of a reference function, the two
identifier sequences are aligned position by position; a differing pair (old, new) is a *rename vote* in its scope
(function locals / class members / module globals / attributes on other objects).  A vote is accepted only if it is
a consistent alpha-renaming as far as the package can tell:

  * every vote for `new` in the scope names the same `old`, and no two new names map to one old name;
  * `new` is fresh: it does not occur in the reference scope;  `old` is gone: it does not occur in the current scope;
  * the name is not reachable other than through its identifier: names occurring as string constants anywhere in
    the package (getattr dispatch such as "_response_handle_" + type, mock targets), framework hooks (Twisted /
    autobahn / zope.interface method names, dunder names), Automat inputs and interface-declared methods are never
    canonicalised - renaming those changes behaviour.

Accepted renames are undone in the in-memory syntax trees (new -> old), so every later engine sees the reference
spelling.  Nothing else is changed; a tree without renames is returned untouched.  The renames are listed in the
evidence.  A rename the procedure does not accept leaves the tree as it is - the rules then fail closed on the
vanished anchor (exit 2), never silently.
"""
import ast
import gzip
import hashlib
import json
import os
from collections import defaultdict

REFERENCE = os.path.join(os.path.dirname(os.path.abspath(__file__)), "reference_names.json.gz")

FRAMEWORK_HOOKS = {
    "dataReceived", "connectionMade", "connectionLost", "makeConnection", "buildProtocol", "startService",
    "stopService", "pauseProducing", "resumeProducing", "stopProducing", "registerProducer", "unregisterProducer",
    "write", "writeSequence", "loseConnection", "loseWriteConnection", "getPeer", "getHost", "startedConnecting",
    "clientConnectionFailed", "clientConnectionLost", "onOpen", "onMessage", "onClose", "onConnect", "lineReceived",
    "connect", "listen", "startFactory", "stopFactory", "doStart", "doStop", "privilegedStartService", "setServiceParent",
    "readConnectionLost", "writeConnectionLost", "halfCloseConnection", "abortConnection", "logPrefix", "setName",
}

_SKIP_FIELDS = {"returns", "annotation", "type_comment", "ctx", "type_params"}


def _is_doc(st):
    return isinstance(st, ast.Expr) and isinstance(st.value, ast.Constant) and isinstance(st.value.value, str)


class Sig:
    """shape + identifier tokens of one unit (function, class body, module body)"""
    __slots__ = ("shape", "tokens")

    def __init__(self, shape, tokens):
        self.shape = shape
        self.tokens = tokens


def _scan(node, toks, shape, top=False):
    """append the shape of `node` to `shape` (identifiers blanked) and its identifiers to `toks`"""
    if isinstance(node, list):
        shape.append("[")
        for x in node:
            _scan(x, toks, shape)
        shape.append("]")
        return
    if not isinstance(node, ast.AST):
        shape.append(repr(node))
        return
    shape.append(type(node).__name__)
    if isinstance(node, ast.Name):
        toks.append(("name", node.id))
        return
    if isinstance(node, ast.arg):
        toks.append(("arg", node.arg))
        return
    if isinstance(node, ast.Attribute):
        self_recv = isinstance(node.value, ast.Name) and node.value.id == "self"
        _scan(node.value, toks, shape)
        toks.append(("sattr" if self_recv else "attr", node.attr))
        return
    if isinstance(node, (ast.Global, ast.Nonlocal)):
        for n in node.names:
            toks.append(("name", n))
        return
    if isinstance(node, ast.ExceptHandler):
        _scan(node.type, toks, shape)
        if node.name:
            toks.append(("name", node.name))
        shape.append("as" if node.name else "-")
        _scan(node.body, toks, shape)
        return
    if isinstance(node, (ast.FunctionDef, ast.AsyncFunctionDef)):
        toks.append(("def", node.name))
        _scan(node.decorator_list, toks, shape)
        _scan(node.args, toks, shape)
        body = node.body[1:] if node.body and _is_doc(node.body[0]) and len(node.body) > 1 else node.body
        _scan(body, toks, shape)
        return
    if isinstance(node, ast.ClassDef):
        toks.append(("def", node.name))
        _scan(node.bases, toks, shape)
        _scan(node.decorator_list, toks, shape)
        _scan(node.body, toks, shape)
        return
    if isinstance(node, ast.keyword):
        shape.append("kw=%s" % node.arg)
        _scan(node.value, toks, shape)
        return
    for field, value in ast.iter_fields(node):
        if field in _SKIP_FIELDS:
            continue
        _scan(value, toks, shape)


def sig_of(nodes):
    toks, shape = [], []
    _scan(nodes, toks, shape)
    return Sig(hashlib.sha1("\x00".join(shape).encode()).hexdigest()[:16], toks)


def _units(mod):
    """-> dict unit-key -> (Sig, scope info).  unit keys: ('mod',), ('fn', name), ('cls', C), ('meth', C, name)"""
    units = {}
    rest = []
    for st in mod.body:
        if isinstance(st, (ast.FunctionDef, ast.AsyncFunctionDef)):
            units[("fn", st.name)] = st
        elif isinstance(st, ast.ClassDef):
            crest = []
            for m in st.body:
                if isinstance(m, (ast.FunctionDef, ast.AsyncFunctionDef)):
                    units[("meth", st.name, m.name)] = m
                elif not _is_doc(m):
                    crest.append(m)
            units[("cls", st.name)] = crest
        elif not _is_doc(st) and not isinstance(st, (ast.Import, ast.ImportFrom)):
            rest.append(st)
    units[("mod",)] = rest
    return units


def _string_constants(mod, out):
    for n in ast.walk(mod):
        if isinstance(n, ast.Constant) and isinstance(n.value, str) and n.value.isidentifier():
            out.add(n.value)
        elif isinstance(n, ast.Constant) and isinstance(n.value, str) and n.value.endswith("_") and \
                n.value.replace("_", "a").isidentifier():
            out.add(n.value + "*")          # a prefix used to build a name ("_response_handle_" + mtype)


def _protected_names(asts):
    """names that are reachable other than through their identifier"""
    strs = set()
    prot = set(FRAMEWORK_HOOKS)
    for mod in asts.values():
        _string_constants(mod, strs)
        for c in mod.body:
            if not isinstance(c, ast.ClassDef):
                continue
            is_iface = any((isinstance(b, ast.Name) and b.id == "Interface") or
                           (isinstance(b, ast.Attribute) and b.attr == "Interface") for b in c.bases)
            for m in c.body:
                if isinstance(m, (ast.FunctionDef, ast.AsyncFunctionDef)):
                    if is_iface:
                        prot.add(m.name)
                    for d in m.decorator_list:
                        if isinstance(d, ast.Call) and isinstance(d.func, ast.Attribute) and d.func.attr == "input":
                            prot.add(m.name)
    prefixes = tuple(s[:-1] for s in strs if s.endswith("*"))
    return prot | {s for s in strs if not s.endswith("*")}, prefixes


def _is_protected(name, prot, prefixes):
    return name in prot or (name.startswith("__") and name.endswith("__")) or \
        (bool(prefixes) and name.startswith(prefixes))


def snapshot(asts):
    """reference snapshot of a set of module syntax trees: relpath -> unit key (joined) -> [shape, tokens]"""
    out = {}
    for rel, mod in asts.items():
        units = {}
        for k, nodes in _units(mod).items():
            s = sig_of(nodes)
            units["|".join(k)] = [s.shape, s.tokens]
        out[rel] = units
    return out


REFERENCE_SRC = os.path.join(os.path.dirname(os.path.abspath(__file__)), "reference_src.json.gz")
_SRC_CACHE = []


def snapshot_sources(asts):
    """relpath -> unit key -> source text of every function / method of the reference tree (ast.unparse)"""
    out = {}
    for rel, mod in asts.items():
        units = {}
        for k, node in _units(mod).items():
            if k[0] in ("meth", "fn"):
                units["|".join(k)] = ast.unparse(node)
        out[rel] = units
    return out


def load_reference_sources():
    if not _SRC_CACHE:
        if not os.path.exists(REFERENCE_SRC):
            _SRC_CACHE.append({})
        else:
            with gzip.open(REFERENCE_SRC, "rt", encoding="utf-8") as fh:
                _SRC_CACHE.append(json.load(fh))
    return _SRC_CACHE[0]


def reference_function(rel, key):
    """FunctionDef of a reference function (parsed from the stored source), or None"""
    src = load_reference_sources().get(rel, {}).get("|".join(key))
    if src is None:
        return None
    try:
        return ast.parse(src).body[0]
    except SyntaxError:
        return None


def load_reference():
    if not os.path.exists(REFERENCE):
        return None
    with gzip.open(REFERENCE, "rt", encoding="utf-8") as fh:
        return json.load(fh)


def _locally_bound(fn):
    """names bound inside a function (params, stores, nested defs, imports)"""
    b = set()
    for n in ast.walk(fn):
        if isinstance(n, ast.arg):
            b.add(n.arg)
        elif isinstance(n, ast.Name) and isinstance(n.ctx, (ast.Store, ast.Del)):
            b.add(n.id)
        elif isinstance(n, (ast.FunctionDef, ast.AsyncFunctionDef, ast.ClassDef)) and n is not fn:
            b.add(n.name)
        elif isinstance(n, ast.ExceptHandler) and n.name:
            b.add(n.name)
        elif isinstance(n, ast.alias):
            b.add((n.asname or n.name).split(".")[0])
    return b


class _Votes:
    def __init__(self):
        self.v = defaultdict(lambda: defaultdict(set))   # scope -> new -> {old}

    def add(self, scope, new, old):
        self.v[scope][new].add(old)


def canonicalize(asts, ref=None):
    """Undo consistent renames in `asts` (relpath -> Module, modified in place). Returns the list of accepted
    renames as dicts {scope, new, old}."""
    ref = ref if ref is not None else load_reference()
    if not ref:
        return []
    prot, prefixes = _protected_names(asts)
    cur_units = {rel: _units(mod) for rel, mod in asts.items()}
    cur_sigs = {rel: {k: sig_of(n) for k, n in us.items()} for rel, us in cur_units.items()}
    votes = _Votes()
    pairs = []    # (rel, refkey, curkey)
    for rel, runits in ref.items():
        if rel not in cur_sigs:
            continue
        cs = cur_sigs[rel]
        rkeys = {tuple(k.split("|")): v for k, v in runits.items()}
        un_ref = [k for k in rkeys if k not in cs]
        un_cur = [k for k in cs if k not in rkeys]
        for k in rkeys:
            if k in cs and cs[k].shape == rkeys[k][0]:
                pairs.append((rel, k, k))
        # renamed methods / functions: unique shape match among the unmatched of the same class / module
        for k in un_ref:
            if k[0] not in ("meth", "fn"):
                continue
            cands = [q for q in un_cur if q[0] == k[0] and q[:-1] == k[:-1] and cs[q].shape == rkeys[k][0]]
            twins = [r for r in un_ref if r[0] == k[0] and r[:-1] == k[:-1] and rkeys[r][0] == rkeys[k][0]]
            if len(cands) == 1 and len(twins) == 1:
                pairs.append((rel, k, cands[0]))
        for (r, rk, ck) in [p for p in pairs if p[0] == rel]:
            rt = rkeys[rk][1]
            ct = cs[ck].tokens
            if len(rt) != len(ct):
                continue
            node = cur_units[rel][ck]
            bound = _locally_bound(node) if rk[0] in ("meth", "fn") else set()
            for i, ((kind, old), (kind2, new)) in enumerate(zip(rt, ct)):
                old = str(old)
                if old == new:
                    continue
                if kind == "sattr":
                    votes.add(("cls", rel, rk[1]), new, old)
                elif kind == "attr":
                    votes.add(("attr",), new, old)
                elif kind == "def" and i == 0 and rk[0] == "meth":
                    votes.add(("cls", rel, rk[1]), new, old)
                elif kind == "def" and i == 0 and rk[0] == "fn":
                    votes.add(("mod", rel), new, old)
                elif rk[0] == "cls":
                    votes.add(("cls", rel, rk[1]), new, old)
                elif rk[0] == "mod":
                    votes.add(("mod", rel), new, old)
                elif kind in ("arg", "def") or new in bound:
                    votes.add(("loc", rel) + ck, new, old)
                else:
                    votes.add(("mod", rel), new, old)

    # names present in the reference / current scopes
    def names_in(tokens, kinds):
        return {str(n) for k, n in tokens if k in kinds}

    ref_cls, cur_cls = defaultdict(set), defaultdict(set)
    ref_mod, cur_mod = defaultdict(set), defaultdict(set)
    ref_attr, cur_attr = set(), set()
    cur_attr_owner = defaultdict(set)
    for rel, runits in ref.items():
        for k, (shape, toks) in runits.items():
            k = tuple(k.split("|"))
            if k[0] in ("meth", "cls"):
                ref_cls[(rel, k[1])] |= names_in(toks, ("sattr",)) | ({str(toks[0][1])} if k[0] == "meth" and toks else set())
                if k[0] == "cls":
                    ref_cls[(rel, k[1])] |= names_in(toks, ("name",))
            ref_mod[rel] |= names_in(toks, ("name", "def"))
            ref_attr |= names_in(toks, ("attr", "sattr", "def"))
    for rel, cs in cur_sigs.items():
        for k, s in cs.items():
            toks = s.tokens
            if k[0] in ("meth", "cls"):
                own = names_in(toks, ("sattr",)) | ({toks[0][1]} if k[0] == "meth" and toks else set())
                if k[0] == "cls":
                    own |= names_in(toks, ("name",))
                cur_cls[(rel, k[1])] |= own
                for n in own:
                    cur_attr_owner[n].add((rel, k[1]))
            cur_mod[rel] |= names_in(toks, ("name", "def"))
            cur_attr |= names_in(toks, ("attr", "sattr", "def"))
    cur_nonself_attr = set()
    for rel, cs in cur_sigs.items():
        for s in cs.values():
            cur_nonself_attr |= names_in(s.tokens, ("attr",))
    ref_nonself_attr = set()
    for rel, runits in ref.items():
        for k, (shape, toks) in runits.items():
            ref_nonself_attr |= names_in(toks, ("attr",))
    # methods that are Automat outputs / states (only ever named inside their own class body)
    table_members = set()
    for rel, mod in asts.items():
        for c in mod.body:
            if isinstance(c, ast.ClassDef):
                for m_ in c.body:
                    if isinstance(m_, (ast.FunctionDef, ast.AsyncFunctionDef)):
                        for d in m_.decorator_list:
                            if isinstance(d, ast.Call) and isinstance(d.func, ast.Attribute) and d.func.attr in ("output", "state"):
                                table_members.add((rel, c.name, m_.name))

    accepted = {}      # scope -> {new: old}
    for scope, m in votes.v.items():
        good = {}
        for new, olds in m.items():
            if len(olds) != 1:
                continue
            old = next(iter(olds))
            if scope[0] != "loc" and (_is_protected(old, prot, prefixes) or _is_protected(new, prot, prefixes)):
                continue        # (locals and parameters cannot be reached through their spelling)
            if scope[0] == "cls":
                key = (scope[1], scope[2])
                if new in ref_cls[key] or old in cur_cls[key]:
                    continue
                # the old spelling may survive on other objects only if another class still defines it
                if old in cur_nonself_attr and not cur_attr_owner.get(old):
                    continue
                # a public member (no leading underscore, not an Automat output/state) can be used through other objects:
                # `self._D.stop()` keeps compiling when Dilator.stop is renamed.  It counts as a rename only if neither
                # spelling is ever used through another object, before or after
                if not old.startswith("_") and (scope[1], scope[2], new) not in table_members:
                    if old in ref_nonself_attr or old in cur_nonself_attr or new in cur_nonself_attr:
                        continue
            elif scope[0] == "mod":
                if new in ref_mod[scope[1]] or old in cur_mod[scope[1]]:
                    continue
            elif scope[0] == "attr":
                if new in ref_attr:
                    continue
            elif scope[0] == "loc":
                rk = "|".join(scope[2:])
                # the reference unit may carry another key when the method itself was renamed
                rtoks = None
                for (r, refk, curk) in pairs:
                    if r == scope[1] and curk == tuple(scope[2:]):
                        rtoks = ref[r]["|".join(refk)][1]
                ctoks = cur_sigs[scope[1]][tuple(scope[2:])].tokens
                if rtoks is None or new in names_in(rtoks, ("name", "arg", "def")) or \
                        old in names_in(ctoks, ("name", "arg", "def")):
                    continue
            good[new] = old
        inv = defaultdict(list)
        for new, old in good.items():
            inv[old].append(new)
        good = {new: old for new, old in good.items() if len(inv[old]) == 1}
        if good:
            accepted[scope] = good
    # ---- second stage: functions whose shape changed as well (a rename inside a restructured function cannot be
    # aligned token by token).  Any bijective replacement of a FRESH name by a GONE name, applied to every occurrence
    # in its scope, is an alpha-renaming whatever the pairing - so pairing by evidence is safe: a wrong guess is
    # merely unhelpful.  Evidence: for private attributes, the set of methods that use them; for parameters, their
    # position; for locals, the shape of the expression first bound to them.
    _heuristic_pairs(asts, ref, cur_units, cur_sigs, accepted, prot, prefixes, ref_cls, cur_cls, cur_attr, ref_attr,
                     ref_nonself_attr, cur_nonself_attr)
    # a member rename also applies to accesses through other objects when the new name belongs to that class alone
    attr_map = dict(accepted.get(("attr",), {}))
    for scope, m in list(accepted.items()):
        if scope[0] == "cls":
            for new, old in m.items():
                if new not in attr_map and new not in ref_attr and cur_attr_owner.get(new) == {(scope[1], scope[2])}:
                    attr_map[new] = old
    # an attribute access vote that contradicts the class-level decision is dropped
    owners_ok = {}
    for scope, m in accepted.items():
        if scope[0] == "cls":
            for new, old in m.items():
                owners_ok.setdefault(new, set()).add(old)
    attr_map = {new: old for new, old in attr_map.items() if owners_ok.get(new, {old}) == {old}}

    # apply
    renames = []

    def ren_self_attrs(nodes, m):
        for top in nodes:
            for n in ast.walk(top):
                if isinstance(n, ast.Attribute) and isinstance(n.value, ast.Name) and n.value.id == "self" and n.attr in m:
                    n.attr = m[n.attr]

    for rel, mod in asts.items():
        units = cur_units.get(rel, {})
        for k, node in units.items():
            if k[0] == "meth":
                m = accepted.get(("cls", rel, k[1]))
                if m:
                    ren_self_attrs([node], m)
                    if node.name in m:
                        node.name = m[node.name]
            elif k[0] == "cls":
                m = accepted.get(("cls", rel, k[1]))
                if m:
                    for top in node:
                        for n in ast.walk(top):
                            if isinstance(n, ast.Name) and n.id in m:
                                n.id = m[n.id]
            if k[0] in ("meth", "fn"):
                lm = accepted.get(("loc", rel) + k)
                if lm:
                    for n in ast.walk(node):
                        if isinstance(n, ast.Name) and n.id in lm:
                            n.id = lm[n.id]
                        elif isinstance(n, ast.arg) and n.arg in lm:
                            n.arg = lm[n.arg]
                        elif isinstance(n, (ast.FunctionDef, ast.AsyncFunctionDef)) and n is not node and n.name in lm:
                            n.name = lm[n.name]
                        elif isinstance(n, ast.ExceptHandler) and n.name in lm:
                            n.name = lm[n.name]
        mm = accepted.get(("mod", rel))
        if mm:
            for n in ast.walk(mod):
                if isinstance(n, ast.Name) and n.id in mm:
                    # not a local of the enclosing function
                    n.id = mm[n.id] if not _shadowed(n, mm) else n.id
                elif isinstance(n, (ast.FunctionDef, ast.AsyncFunctionDef)) and n in mod.body and n.name in mm:
                    n.name = mm[n.name]
        if attr_map:
            for n in ast.walk(mod):
                if isinstance(n, ast.Attribute) and not (isinstance(n.value, ast.Name) and n.value.id == "self") \
                        and n.attr in attr_map:
                    n.attr = attr_map[n.attr]
    for scope, m in sorted(accepted.items(), key=lambda kv: str(kv[0])):
        for new, old in sorted(m.items()):
            renames.append({"scope": ":".join(scope), "current": new, "reference": old})
    for new, old in sorted(attr_map.items()):
        renames.append({"scope": "attribute-access", "current": new, "reference": old})
    return renames


def _first_binding_shapes(fn):
    """local name -> shape of the first expression bound to it (identifiers blanked), for assignments and loop targets"""
    out = {}
    order = []

    def shape_of(e):
        toks, shape = [], []
        _scan(e, toks, shape)
        return "\x00".join(shape)
    for n in ast.walk(fn):
        if isinstance(n, ast.Assign) and len(n.targets) == 1 and isinstance(n.targets[0], ast.Name):
            if n.targets[0].id not in out:
                out[n.targets[0].id] = ("=", shape_of(n.value))
                order.append(n.targets[0].id)
        elif isinstance(n, (ast.For, ast.comprehension)) and isinstance(n.target, ast.Name):
            if n.target.id not in out:
                out[n.target.id] = ("for", shape_of(n.iter))
                order.append(n.target.id)
        elif isinstance(n, ast.ExceptHandler) and n.name and n.name not in out:
            out[n.name] = ("except", shape_of(n.type) if n.type is not None else "")
            order.append(n.name)
        elif isinstance(n, ast.withitem) and isinstance(n.optional_vars, ast.Name) and n.optional_vars.id not in out:
            out[n.optional_vars.id] = ("with", shape_of(n.context_expr))
            order.append(n.optional_vars.id)
    return out, order


def _heuristic_pairs(asts, ref, cur_units, cur_sigs, accepted, prot, prefixes, ref_cls, cur_cls, cur_attr, ref_attr,
                     ref_nonself_attr, cur_nonself_attr):
    def names_in(tokens, kinds):
        return {str(n) for k, n in tokens if k in kinds}
    for rel, runits in ref.items():
        if rel not in cur_sigs:
            continue
        cs = cur_sigs[rel]
        rkeys = {tuple(k.split("|")): v for k, v in runits.items()}
        classes = {k[1] for k in rkeys if k[0] == "cls" and k in cs}
        for C in sorted(classes):
            cmap = accepted.get(("cls", rel, C), {})
            inv = {old: new for new, old in cmap.items()}
            # methods of the class on both sides, under the reference names
            ref_meths = {k[2]: rkeys[k][1] for k in rkeys if k[0] == "meth" and k[1] == C}
            cur_meths = {cmap.get(k[2], k[2]): cs[k].tokens for k in cs if k[0] == "meth" and k[1] == C}
            ref_use, cur_use = defaultdict(set), defaultdict(set)
            for mname, toks in ref_meths.items():
                for a in names_in(toks, ("sattr",)):
                    if a not in ref_meths:
                        ref_use[a].add(mname)
            for mname, toks in cur_meths.items():
                for a in names_in(toks, ("sattr",)):
                    a0 = cmap.get(a, a)
                    if a0 not in cur_meths:
                        cur_use[a0].add(mname)
            missing = [a for a in ref_use if a not in cur_use and a not in inv]
            fresh = [b for b in cur_use if b not in ref_use and b not in cmap]
            pairs = {}
            for a in missing:
                scored = []
                for b in fresh:
                    inter = len(ref_use[a] & cur_use[b])
                    union = len(ref_use[a] | cur_use[b])
                    if union and inter / union >= 0.6:
                        scored.append((inter / union, b))
                scored.sort(reverse=True)
                if scored and (len(scored) == 1 or scored[0][0] > scored[1][0]):
                    pairs[a] = scored[0][1]
            # one fresh name for one missing name
            back = defaultdict(list)
            for a, b in pairs.items():
                back[b].append(a)
            for a, b in pairs.items():
                if len(back[b]) != 1:
                    continue
                if _is_protected(a, prot, prefixes) or _is_protected(b, prot, prefixes):
                    continue
                if a in cur_attr or b in ref_attr:
                    continue                                   # old must be gone everywhere, new fresh everywhere
                if not a.startswith("_") and (a in ref_nonself_attr or b in cur_nonself_attr):
                    continue
                accepted.setdefault(("cls", rel, C), {})[b] = a
        # parameters by position, locals by the shape of what is first bound to them
        for k in sorted(rkeys):
            if k[0] not in ("meth", "fn"):
                continue
            ck = k
            if k not in cs:
                # the method itself may have been renamed (accepted above)
                if k[0] == "meth":
                    m = accepted.get(("cls", rel, k[1]), {})
                    newname = next((new for new, old in m.items() if old == k[2]), None)
                    ck = (k[0], k[1], newname) if newname else None
                else:
                    m = accepted.get(("mod", rel), {})
                    newname = next((new for new, old in m.items() if old == k[1]), None)
                    ck = (k[0], newname) if newname else None
                if ck is None or ck not in cs:
                    continue
            if cs[ck].shape == rkeys[k][0]:
                continue                                       # aligned exactly in the first stage
            rfn = reference_function(rel, k)
            cfn = cur_units[rel].get(ck)
            if rfn is None or cfn is None:
                continue
            lm = accepted.setdefault(("loc", rel) + ck, {})
            rnames = {n.id for n in ast.walk(rfn) if isinstance(n, ast.Name)} | {a.arg for a in ast.walk(rfn) if isinstance(a, ast.arg)}
            cnames = {n.id for n in ast.walk(cfn) if isinstance(n, ast.Name)} | {a.arg for a in ast.walk(cfn) if isinstance(a, ast.arg)}

            def ok_pair(old, new):
                return old != new and old not in cnames and new not in rnames and new not in lm and old not in lm.values()
            rp = [a.arg for a in rfn.args.args]
            cp = [a.arg for a in cfn.args.args]
            if len(rp) == len(cp) and not (rfn.args.vararg or cfn.args.vararg or rfn.args.kwonlyargs or cfn.args.kwonlyargs):
                for old, new in zip(rp, cp):
                    if ok_pair(old, new):
                        lm[new] = old
            rb, rorder = _first_binding_shapes(rfn)
            cb, corder = _first_binding_shapes(cfn)
            r_missing = [n for n in rorder if n not in cnames and n not in lm.values()]
            c_fresh = [n for n in corder if n not in rnames and n not in lm]
            for old in r_missing:
                cands = [new for new in c_fresh if cb[new] == rb[old] and new not in lm]
                twins = [o for o in r_missing if rb[o] == rb[old]]
                if len(cands) == 1 and len(twins) == 1 and ok_pair(old, cands[0]):
                    lm[cands[0]] = old
            # what is left, in order of first binding, when the counts agree (any bijection is an alpha-renaming)
            r_left = [n for n in rorder if n not in cnames and n not in lm.values()]
            c_left = [n for n in corder if n not in rnames and n not in lm]
            if r_left and len(r_left) == len(c_left) and len(r_left) <= 4:
                for old, new in zip(r_left, c_left):
                    if ok_pair(old, new) and rb[old][0] == cb[new][0]:
                        lm[new] = old
            if not lm:
                accepted.pop(("loc", rel) + ck, None)


def _shadowed(name_node, mm):
    """is this Name a local of an enclosing function (then a module-level rename does not apply)?"""
    p = getattr(name_node, "_parent", None)
    while p is not None:
        if isinstance(p, (ast.FunctionDef, ast.AsyncFunctionDef, ast.Lambda)):
            if isinstance(p, ast.Lambda):
                if any(a.arg == name_node.id for a in p.args.args):
                    return True
            elif name_node.id in _locally_bound(p) and not any(
                    isinstance(g, ast.Global) and name_node.id in g.names for g in ast.walk(p)):
                return True
        p = getattr(p, "_parent", None)
    return False
